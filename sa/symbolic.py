"""A tiny symbolic normal form for arithmetic expressions (used by the parity rule C08-R1).

Expressions over +, -, *, /, unary minus, numeric constants and opaque atoms are normalised to a
polynomial: {monomial (sorted tuple of (atom, exponent)) : Fraction coefficient}.  `round(x, n)` is
treated as the identity *wrapper*: round is an odd function (round(-x, n) == -round(x, n)), so it
does not affect whether two expressions are exact negatives of each other; the rule that uses this
says so in its evidence.  Anything else (calls, comparisons, subscripts) becomes an opaque atom
named by its normalised source text.
"""

import ast
from fractions import Fraction


def _mul(p, q):
    out = {}
    for m1, c1 in p.items():
        for m2, c2 in q.items():
            d = dict(m1)
            for a, e in m2:
                d[a] = d.get(a, 0) + e
            m = tuple(sorted((a, e) for a, e in d.items() if e != 0))
            out[m] = out.get(m, 0) + c1 * c2
    return {m: c for m, c in out.items() if c != 0}


def _add(p, q, sign=1):
    out = dict(p)
    for m, c in q.items():
        out[m] = out.get(m, 0) + sign * c
    return {m: c for m, c in out.items() if c != 0}


def _inv(p):
    """reciprocal of a single-term polynomial, else None"""
    if len(p) != 1:
        return None
    (m, c), = p.items()
    return {tuple(sorted((a, -e) for a, e in m)): Fraction(1) / c}


def poly(node, env=None):
    """node: ast expression; env: {name: polynomial} for local variables"""
    env = env or {}
    if isinstance(node, ast.Constant) and isinstance(node.value, (int, float)) and not isinstance(node.value, bool):
        return {(): Fraction(str(node.value))} if node.value != 0 else {}
    if isinstance(node, ast.Name) and node.id in env:
        return dict(env[node.id])
    if isinstance(node, ast.UnaryOp) and isinstance(node.op, ast.USub):
        return {m: -c for m, c in poly(node.operand, env).items()}
    if isinstance(node, ast.UnaryOp) and isinstance(node.op, ast.UAdd):
        return poly(node.operand, env)
    if isinstance(node, ast.BinOp):
        l, r = poly(node.left, env), poly(node.right, env)
        if isinstance(node.op, ast.Add):
            return _add(l, r)
        if isinstance(node.op, ast.Sub):
            return _add(l, r, -1)
        if isinstance(node.op, ast.Mult):
            return _mul(l, r)
        if isinstance(node.op, ast.Div):
            ri = _inv(r)
            if ri is not None:
                return _mul(l, ri)
    if isinstance(node, ast.Call) and isinstance(node.func, ast.Name) and node.func.id == "round" and node.args:
        return poly(node.args[0], env)
    atom = " ".join(ast.unparse(node).split())
    return {((atom, 1),): Fraction(1)}


def neg(p):
    return {m: -c for m, c in p.items()}


def show(p):
    if not p:
        return "0"
    parts = []
    for m, c in sorted(p.items(), key=lambda x: str(x[0])):
        mono = "*".join(a if e == 1 else "%s^%d" % (a, e) for a, e in m) or "1"
        parts.append("%s*%s" % (c, mono) if c != 1 else mono)
    return " + ".join(parts)
