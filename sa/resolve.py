"""Receiver typing, callee resolution, call graph and raise summaries.

Resolution order for ``recv.m(...)``:
  1. ``self`` / ``cls`` / ``super()`` -> the enclosing class hierarchy;
  2. parameter annotations, locals assigned from constructors or from calls whose callee has an
     in-package return annotation, ``with X as t``;
  3. attribute types recorded from ``self.attr = Class(...)`` in ``__init__``;
  4. the frozen domain naming table below (confirmed by reading the package);
  5. fallback: every method of that name in the package (class-hierarchy analysis by name), flagged
     as not confident.
Dynamic dispatch: a call on static type C resolves to C's implementation and every override in C's
subclasses; abstract stubs (body = ``raise NotImplementedError``) are dropped when a concrete
implementation exists.  ``@property`` loads are resolved like calls.
"""

import ast
from collections import defaultdict

from . import AnalysisError
from .cfg import CFG, walk_calls, walk_nodes

# variable names -> class (confirmed by reading; an entry is only used when nothing better is known)
NAMING_VARS = {
    "order": "BaseOrder",
    "o": "BaseOrder",
    "replacement_order": "BaseOrder",
    "new_order": "BaseOrder",
    "exclusion": "BaseOrder",
    "trade": "Trade",
    "blotter": "Blotter",
    "market": "Market",
    "m": "Market",
    "markets": "Markets",
    "order_package": "BaseOrderPackage",
    "package": "BaseOrderPackage",
    "p": "BaseOrderPackage",
    "client": "BaseClient",
    "runner_context": "RunnerContext",
    "strategy": "BaseStrategy",
    "s": "BaseStrategy",
    "strategies": "Strategies",
    "middleware": "Middleware",
    "flumine": "BaseFlumine",
    "control": "BaseControl",
    "logging_control": "LoggingControl",
    "stream": "BaseStream",
    "event": "BaseEvent",
    "t": "Transaction",
    "w": "BackgroundWorker",
    "c": "LoggingControl",
}
# attribute names -> class, used when the receiver type gives nothing
NAMING_ATTRS = {
    "trade": "Trade",
    "simulated": "SimulatedOrder",
    "blotter": "Blotter",
    "market": "Market",
    "client": "BaseClient",
    "_client": "BaseClient",
    "execution": "BaseExecution",
    "strategy": "BaseStrategy",
    "flumine": "BaseFlumine",
    "order_type": "BaseOrderType",
    "responses": "Responses",
    "order": "BaseOrder",
    "clients": "Clients",
    "streams": "Streams",
    "strategies": "Strategies",
    "simulated_datetime": "SimulatedDateTime",
}
# method names that overwhelmingly belong to builtin containers / logging / stdlib objects: never
# resolved by name alone
BUILTIN_METHOD_NAMES = {
    "append", "extend", "pop", "remove", "clear", "copy", "get", "items", "keys", "values",
    "update", "add", "sort", "index", "format", "join", "split", "startswith", "endswith",
    "put", "qsize", "info", "debug", "warning", "error", "critical", "exception", "isEnabledFor",
    "sleep", "time", "utcnow", "total_seconds", "replace", "date", "setdefault", "insert",
    "encode", "hexdigest", "quantize", "readline", "readlines", "match", "lower", "upper",
    "strip", "count", "submit", "shutdown", "is_alive", "acquire", "release", "set", "wait",
    "is_set", "discard", "union", "utcfromtimestamp", "timestamp", "strftime", "group",
    "loads", "dumps", "open", "write", "read", "close", "send", "fromisoformat", "now", "today",
    "start", "join", "run", "stop", "login", "logout", "keep_alive",
}


class CallSite:
    __slots__ = ("func", "node", "callees", "confident", "kind")

    def __init__(self, func, node, callees, confident, kind="call"):
        self.func, self.node, self.callees, self.confident, self.kind = (
            func, node, callees, confident, kind)


class Resolver:
    def __init__(self, prog):
        self.prog = prog
        self.field_types = {}  # (class name, attr) -> class name or False (known non-package)
        self._env_cache = {}
        self._build_field_types()
        self.sites = {}  # FuncInfo -> [CallSite]
        self.callers = defaultdict(list)  # FuncInfo -> [CallSite]
        self.stats = {"calls": 0, "resolved": 0, "by_name": 0, "external": 0, "property_loads": 0}
        self._param_fn_args = defaultdict(set)  # (FuncInfo, param index) -> {FuncInfo}
        self._build_callgraph()
        self.summaries = {}
        self._compute_summaries()

    # ------------------------------------------------------------ field types
    def _build_field_types(self):
        for c in self.prog.all_classes():
            init = c.methods.get("__init__")
            if init is None:
                continue
            for s in ast.walk(init.node):
                if isinstance(s, ast.Assign):
                    for t in s.targets:
                        if (isinstance(t, ast.Attribute) and isinstance(t.value, ast.Name)
                                and t.value.id == "self"):
                            ty = self._ctor_class(s.value, init)
                            key = (c.name, t.attr)
                            if ty is not None:
                                self.field_types[key] = ty.name
                            elif isinstance(s.value, (ast.List, ast.Dict, ast.Set, ast.Tuple,
                                                      ast.ListComp, ast.DictComp)) or (
                                    isinstance(s.value, ast.Call)
                                    and isinstance(s.value.func, ast.Name)
                                    and s.value.func.id in ("defaultdict", "dict", "list", "set")):
                                self.field_types.setdefault(key, False)

    def _ctor_class(self, value, func):
        if isinstance(value, ast.Call):
            f = value.func
            name = f.id if isinstance(f, ast.Name) else (f.attr if isinstance(f, ast.Attribute) else None)
            if name and name[:1].isupper():
                return self.prog._resolve_class_name(func.module, name) or (
                    self.prog.classes.get(name) if isinstance(f, ast.Attribute) else None)
        return None

    # ------------------------------------------------------------ typing
    def _ann_class(self, ann, func):
        if ann is None:
            return None
        if isinstance(ann, ast.Constant) and isinstance(ann.value, str):
            name = ann.value.split(".")[-1]
            return self.prog.classes.get(name)
        if isinstance(ann, ast.Name):
            return self.prog._resolve_class_name(func.module, ann.id)
        if isinstance(ann, ast.Attribute):
            return self.prog.classes.get(ann.attr)
        if isinstance(ann, ast.Subscript):
            base = ast.unparse(ann.value)
            if base in ("Optional", "typing.Optional"):
                return self._ann_class(ann.slice, func)
            if base in ("Union", "typing.Union") and isinstance(ann.slice, ast.Tuple):
                for e in ann.slice.elts:
                    c = self._ann_class(e, func)
                    if c is not None:
                        return c
        return None

    def env(self, func):
        """flow-insensitive local environment: name -> ClassInfo | list of FuncInfo (method alias)."""
        key = id(func)
        if key in self._env_cache:
            return self._env_cache[key]
        env = {}
        self._env_cache[key] = env
        if func.cls is not None and not func.is_static and func.params:
            env[func.params[0]] = func.cls
        for p, ann in func.annotations.items():
            c = self._ann_class(ann, func)
            if c is not None:
                env[p] = c
        # two passes so that later assignments can use earlier ones
        for _ in range(2):
            for s in ast.walk(func.node):
                if isinstance(s, ast.Assign) and len(s.targets) == 1 and isinstance(s.targets[0], ast.Name):
                    name = s.targets[0].id
                    if name in func.params and name in env:
                        continue
                    c = self._ctor_class(s.value, func) or self.type_of(s.value, func, env)
                    if c is not None:
                        env.setdefault(name, c)
                    elif isinstance(s.value, ast.Attribute):
                        ms = self._method_refs(s.value, func, env)
                        if ms:
                            env.setdefault(name, [])
                            if isinstance(env[name], list):
                                for m in ms:
                                    if m not in env[name]:
                                        env[name].append(m)
                elif isinstance(s, (ast.With, ast.AsyncWith)):
                    for it in s.items:
                        if isinstance(it.optional_vars, ast.Name):
                            c = self.type_of(it.context_expr, func, env)
                            if c is not None:
                                env.setdefault(it.optional_vars.id, c)
        return env

    def _method_refs(self, attr, func, env):
        """`self.execute_place` used as a value -> the methods it denotes."""
        t = self.type_of(attr.value, func, env)
        if t is None:
            return []
        return self._dispatch(t, attr.attr)

    def type_of(self, expr, func, env=None):
        if env is None:
            env = self.env(func)
        if isinstance(expr, ast.Name):
            v = env.get(expr.id)
            if v is not None and not isinstance(v, list):
                return v
            if v is None and expr.id in NAMING_VARS:
                return self.prog.classes.get(NAMING_VARS[expr.id])
            return None
        if isinstance(expr, ast.Attribute):
            rt = self.type_of(expr.value, func, env)
            if rt is not None:
                for c in rt.mro():
                    ft = self.field_types.get((c.name, expr.attr))
                    if ft is False:
                        return None
                    if ft:
                        return self.prog.classes.get(ft)
                for c in [rt] + rt.all_subclasses():
                    m = c.find_method(expr.attr)
                    if m is not None and m.is_property:
                        r = self._ann_class(m.node.returns, m)
                        if r is not None:
                            return r
                        # untyped property: no naming fallback for containers/bools
                        if expr.attr not in NAMING_ATTRS:
                            return None
                        break
            if expr.attr in NAMING_ATTRS:
                return self.prog.classes.get(NAMING_ATTRS[expr.attr])
            return None
        if isinstance(expr, ast.Call):
            c = self._ctor_class(expr, func)
            if c is not None:
                return c
            callees, _ = self._resolve(expr, func, env)
            for f in callees:
                r = self._ann_class(f.node.returns, f)
                if r is not None:
                    return r
            return None
        if isinstance(expr, ast.Subscript):
            # markets.markets[market_id] -> Market ; blotter[...] -> BaseOrder
            rt = self.type_of(expr.value, func, env)
            if rt is not None and rt.name == "Blotter":
                return self.prog.classes.get("BaseOrder")
            if isinstance(expr.value, ast.Attribute) and expr.value.attr in ("markets", "_markets"):
                return self.prog.classes.get("Market")
            return None
        if isinstance(expr, ast.IfExp):
            return self.type_of(expr.body, func, env) or self.type_of(expr.orelse, func, env)
        return None

    # ------------------------------------------------------------ dispatch
    def _dispatch(self, cls, name):
        out = []
        base = cls.find_method(name)
        if base is not None:
            out.append(base)
        for sc in cls.all_subclasses():
            m = sc.methods.get(name)
            if m is not None and m not in out:
                out.append(m)
        concrete = [m for m in out if not m.is_abstract_stub]
        return concrete or out

    def _by_name(self, name):
        out = []
        for c in self.prog.all_classes():
            m = c.methods.get(name)
            if m is not None:
                out.append(m)
        concrete = [m for m in out if not m.is_abstract_stub]
        return concrete or out

    def _resolve(self, call, func, env=None):
        """-> (list of FuncInfo, confident)"""
        if env is None:
            env = self.env(func)
        f = call.func
        prog = self.prog
        if isinstance(f, ast.Name):
            v = env.get(f.id)
            if isinstance(v, list):
                return list(v), True
            if f.id in func.params:
                idx = func.params.index(f.id)
                return sorted(self._param_fn_args.get((id(func), idx), ()), key=lambda x: x.qual), True
            if f.id in func.module.functions:
                return [func.module.functions[f.id]], True
            if v is not None or (f.id in NAMING_VARS and f.id[:1].islower()):
                t = v if v is not None else prog.classes.get(NAMING_VARS[f.id])
                if t is not None and f.id not in func.module.imports:
                    return self._dispatch(t, "__call__"), True
            c = prog._resolve_class_name(func.module, f.id)
            if c is not None:
                init = c.find_method("__init__")
                return ([init] if init else []), True
            imp = func.module.imports.get(f.id)
            if imp and imp[0]:
                m = prog.modules.get(imp[0])
                if m is not None and imp[1] in m.functions:
                    return [m.functions[imp[1]]], True
            return [], True  # builtin or external
        if isinstance(f, ast.Attribute):
            name = f.attr
            recv = f.value
            # super().m / super(X, self).m
            if isinstance(recv, ast.Call) and isinstance(recv.func, ast.Name) and recv.func.id == "super":
                if func.cls is not None:
                    for b in func.cls.mro()[1:]:
                        if name in b.methods:
                            return [b.methods[name]], True
                return [], True
            # module attribute: utils.f / events.X(...)
            if isinstance(recv, ast.Name) and recv.id in func.module.imports and recv.id not in env:
                base, orig = func.module.imports[recv.id]
                cand = []
                if orig is None:
                    cand.append(base)
                else:
                    cand.append("%s.%s" % (base, orig) if base else orig)
                for mn in cand:
                    m = prog.modules.get(mn)
                    if m is not None:
                        if name in m.functions:
                            return [m.functions[name]], True
                        if name in m.classes:
                            init = m.classes[name].find_method("__init__")
                            return ([init] if init else []), True
                        c2 = prog._resolve_class_name(m, name)
                        if c2 is not None:
                            init = c2.find_method("__init__")
                            return ([init] if init else []), True
                        return [], True
                return [], True  # external module
            rn = recv
            while isinstance(rn, (ast.Attribute, ast.Subscript)):
                rn = rn.value
            if isinstance(rn, ast.Name) and rn.id in func.module.imports and rn.id not in env \
                    and rn.id not in func.params:
                base, orig = func.module.imports[rn.id]
                if not (base or "").startswith(prog.PKG):
                    return [], True  # attribute of an external module
            t = self.type_of(recv, func, env)
            if t is not None:
                ms = self._dispatch(t, name)
                if ms:
                    return ms, True
                # attribute holding a callable instance (order.simulated(...)) / external method
                ot = self.type_of(f, func, env)
                if ot is not None:
                    return self._dispatch(ot, "__call__"), True
                return [], True
            if name in BUILTIN_METHOD_NAMES:
                return [], True
            ms = self._by_name(name)
            return ms, False
        return [], True

    def resolve_call(self, call, func):
        return self._resolve(call, func)

    def resolve_property(self, attr, func):
        """property getters denoted by an attribute load (empty when not a property)."""
        if not isinstance(attr.ctx, ast.Load):
            return []
        t = self.type_of(attr.value, func)
        if t is None:
            return []
        return [m for m in self._dispatch(t, attr.attr) if m.is_property]

    # ------------------------------------------------------------ call graph
    def _build_callgraph(self):
        funcs = list(self.prog.all_functions())
        # first pass: function-valued arguments (self.place passed to _execution_helper, callbacks
        # passed to the error-handling wrappers, pool.submit(func, ...))
        for _ in range(2):
            for fn in funcs:
                env = self.env(fn)
                for call in walk_calls([fn.node]):
                    callees, _c = self._resolve(call, fn, env)
                    args = list(call.args)
                    if isinstance(call.func, ast.Attribute) and call.func.attr == "submit" and args:
                        continue
                    for cal in callees:
                        off = 0 if (cal.cls is None or cal.is_static) else 1
                        for i, a in enumerate(args):
                            refs = []
                            if isinstance(a, ast.Attribute):
                                refs = self._method_refs(a, fn, env)
                            elif isinstance(a, ast.Name) and isinstance(env.get(a.id), list):
                                refs = env[a.id]
                            elif isinstance(a, ast.Name) and a.id in fn.params:
                                refs = list(self._param_fn_args.get(
                                    (id(fn), fn.params.index(a.id)), ()))
                            for r in refs:
                                self._param_fn_args[(id(cal), i + off)].add(r)
        for fn in funcs:
            env = self.env(fn)
            lst = []
            for call in walk_calls([fn.node]):
                self.stats["calls"] += 1
                callees, conf = self._resolve(call, fn, env)
                # pool.submit(func, *args) calls func
                if isinstance(call.func, ast.Attribute) and call.func.attr == "submit" and call.args:
                    a = call.args[0]
                    if isinstance(a, ast.Name) and isinstance(env.get(a.id), list):
                        callees, conf = list(env[a.id]), True
                    elif isinstance(a, ast.Attribute):
                        callees, conf = self._method_refs(a, fn, env), True
                if callees:
                    self.stats["resolved" if conf else "by_name"] += 1
                else:
                    self.stats["external"] += 1
                cs = CallSite(fn, call, callees, conf)
                lst.append(cs)
                for c in callees:
                    self.callers[id(c)].append(cs)
            for attr in walk_nodes([fn.node], ast.Attribute):
                ps = self.resolve_property(attr, fn)
                if ps:
                    self.stats["property_loads"] += 1
                    cs = CallSite(fn, attr, ps, True, "property")
                    lst.append(cs)
                    for c in ps:
                        self.callers[id(c)].append(cs)
            self.sites[id(fn)] = lst
        self._site_by_node = {}
        for lst in self.sites.values():
            for cs in lst:
                self._site_by_node[id(cs.node)] = cs

    def site(self, node):
        return self._site_by_node.get(id(node))

    def callees_of(self, func):
        out = []
        for cs in self.sites.get(id(func), []):
            for c in cs.callees:
                if c not in out:
                    out.append(c)
        return out

    def call_sites_of(self, callee, confident_only=False):
        return [cs for cs in self.callers.get(id(callee), []) if cs.confident or not confident_only]

    def reachable_funcs(self, roots, confident_only=False, stop=None):
        seen, todo = [], list(roots)
        ids = set()
        while todo:
            f = todo.pop()
            if id(f) in ids:
                continue
            ids.add(id(f))
            seen.append(f)
            if stop is not None and stop(f):
                continue
            for cs in self.sites.get(id(f), []):
                if confident_only and not cs.confident:
                    continue
                for c in cs.callees:
                    if id(c) not in ids:
                        todo.append(c)
        return seen

    # ------------------------------------------------------------ raise summaries
    def exc_is_subclass(self, a, b):
        ca = self.prog.classes.get(a)
        if ca is not None:
            if ca.is_subclass_of(b):
                return True
            ext = [x.split(".")[-1] for x in ca.external_bases()]
            if b in ext:
                return True
            if self.prog.classes.get(b) is not None:
                return False
            import builtins
            for e in ext:
                be, bb = getattr(builtins, e, None), getattr(builtins, b, None)
                if isinstance(be, type) and isinstance(bb, type):
                    return issubclass(be, bb)
            return None
        return None

    def raises(self, exprs, func):
        out = set()
        for call in walk_calls(exprs):
            cs = self._site_by_node.get(id(call))
            if cs is None or not cs.confident:
                continue
            for c in cs.callees:
                out |= self.summaries.get(id(c), set())
        for attr in walk_nodes(exprs, ast.Attribute):
            cs = self._site_by_node.get(id(attr))
            if cs is not None and cs.kind == "property":
                for c in cs.callees:
                    out |= self.summaries.get(id(c), set())
        return out

    def _escaping(self, func):
        return set(CFG(func, self).escaping)

    def _compute_summaries(self):
        funcs = list(self.prog.all_functions())
        work = [f for f in funcs if any(isinstance(x, ast.Raise) for x in ast.walk(f.node))]
        inwork = {id(f) for f in work}
        n_iter = 0
        while work:
            f = work.pop()
            inwork.discard(id(f))
            n_iter += 1
            if n_iter > 20000:
                raise AnalysisError("raise-summary fixpoint did not converge")
            if f.is_abstract_stub:
                new = set()
            else:
                new = self._escaping(f)
            old = self.summaries.get(id(f), set())
            if new != old:
                self.summaries[id(f)] = new | old
                for cs in self.callers.get(id(f), []):
                    if cs.confident and id(cs.func) not in inwork:
                        inwork.add(id(cs.func))
                        work.append(cs.func)
        self.stats["summary_iterations"] = n_iter
        self.stats["raising_functions"] = sum(1 for v in self.summaries.values() if v)

    def may_raise(self, func):
        return self.summaries.get(id(func), set())
