"""Statement-level control-flow graphs with short-circuit expansion of branch conditions.

Node kinds
  entry / exit / raise_exit   function boundaries (normal return, escaping exception)
  stmt                        simple statement
  return / raise              as named
  cond                        one atom of a branch condition; edges 'T' and 'F'
  for_init / for              evaluation of the iterable / the loop head (edges 'iter', 'done')
  with_enter / with_exit      context manager entry / exit (one exit node per way of leaving)
  except                      handler entry
  join                        while-loop head, re-raise after finally
Edges carry labels: next, T, F, iter, done, exc, ret, brk, cont.
"""

import ast
import builtins
from collections import deque

from . import AnalysisError


class Node:
    __slots__ = ("id", "kind", "ast", "exprs", "succ", "pred", "variant")

    def __init__(self, id_, kind, node=None, exprs=None, variant=None):
        self.id = id_
        self.kind = kind
        self.ast = node
        self.exprs = exprs if exprs is not None else []
        self.succ = []  # (label, id)
        self.pred = []  # (label, id)
        self.variant = variant

    @property
    def lineno(self):
        for e in self.exprs:
            if hasattr(e, "lineno"):
                return e.lineno
        return getattr(self.ast, "lineno", 0)

    def text(self, limit=90):
        if self.kind in ("entry", "exit", "raise_exit"):
            return self.kind
        if self.kind == "cond":
            t = "cond " + ast.unparse(self.exprs[0])
        elif self.kind == "for_init":
            t = "iterate " + ast.unparse(self.ast.iter)
        elif self.kind == "for":
            t = "for " + ast.unparse(self.ast.target)
        elif self.kind.startswith("with"):
            t = self.kind + " " + ", ".join(ast.unparse(i.context_expr) for i in self.ast.items)
        elif self.kind == "except":
            t = "except " + (ast.unparse(self.ast.type) if self.ast.type else "")
        elif self.ast is not None:
            t = ast.unparse(self.ast)
        else:
            t = self.kind
        t = " ".join(t.split())
        return t if len(t) <= limit else t[: limit - 3] + "..."

    def __repr__(self):
        return "<%d %s L%s %s>" % (self.id, self.kind, self.lineno, self.text(50))


class _TryFrame:
    def __init__(self, handlers):
        self.handlers = handlers  # [(names or None, entry id)]


class _WithFrame:
    def __init__(self, stmt):
        self.stmt = stmt
        self.memo = {}


class _FinallyFrame:
    def __init__(self, finalbody, outer_ctx):
        self.finalbody = finalbody
        self.outer_ctx = outer_ctx
        self.memo = {}


class _Ctx:
    __slots__ = ("brk", "cont", "ret", "frames", "handler_types")

    def __init__(self, brk, cont, ret, frames, handler_types=None):
        self.brk, self.cont, self.ret, self.frames = brk, cont, ret, frames
        self.handler_types = handler_types


def _exc_name(node):
    if node is None:
        return None
    if isinstance(node, ast.Call):
        node = node.func
    if isinstance(node, ast.Attribute):
        return node.attr
    if isinstance(node, ast.Name):
        return node.id
    return "*"


def _handler_names(h):
    if h.type is None:
        return None
    if isinstance(h.type, ast.Tuple):
        return [_exc_name(e) for e in h.type.elts]
    return [_exc_name(h.type)]


def _strict_bool_locals(fn):
    """local names every binding of which assigns a real bool (True / False, a comparison, `not ...`,
    isinstance(...), and/or of such)"""
    def strict(e):
        if isinstance(e, ast.Constant):
            return isinstance(e.value, bool)
        if isinstance(e, ast.Compare):
            return True
        if isinstance(e, ast.UnaryOp) and isinstance(e.op, ast.Not):
            return True
        if isinstance(e, ast.BoolOp):
            return all(strict(v) for v in e.values)
        if isinstance(e, ast.Call) and isinstance(e.func, ast.Name) and e.func.id in ("isinstance", "bool", "hasattr", "callable", "issubclass"):
            return True
        return False
    good, bad = set(), set()
    a = fn.args
    params = {x.arg for x in a.posonlyargs + a.args + a.kwonlyargs}
    for n in ast.walk(fn):
        if isinstance(n, ast.Assign):
            for t in n.targets:
                if isinstance(t, ast.Name):
                    (good if strict(n.value) else bad).add(t.id)
                else:
                    for y in ast.walk(t):
                        if isinstance(y, ast.Name):
                            bad.add(y.id)
        elif isinstance(n, (ast.AugAssign, ast.AnnAssign, ast.NamedExpr)):
            t = n.target
            if isinstance(t, ast.Name):
                bad.add(t.id)
        elif isinstance(n, (ast.For, ast.comprehension)):
            for y in ast.walk(n.target):
                if isinstance(y, ast.Name):
                    bad.add(y.id)
        elif isinstance(n, ast.ExceptHandler) and n.name:
            bad.add(n.name)
        elif isinstance(n, (ast.With, ast.AsyncWith)):
            for it in n.items:
                if it.optional_vars is not None:
                    for y in ast.walk(it.optional_vars):
                        if isinstance(y, ast.Name):
                            bad.add(y.id)
    return good - bad - params


class CFG:
    def __init__(self, func, oracle=None):
        """func: FuncInfo.  oracle: object with .raises(expr_roots, func) -> set of exception
        names raised by calls in these expressions, and .exc_is_subclass(a, b) -> True/False/None."""
        self.func = func
        self.oracle = oracle
        self.bool_locals = _strict_bool_locals(func.node)
        self.nodes = []
        self.escaping = set()  # exception types that can leave the function
        self.entry = self._new("entry").id
        self.exit = self._new("exit").id
        self.raise_exit = self._new("raise_exit").id
        ctx = _Ctx(None, None, self.exit, ())
        first = self._seq(func.node.body, self.exit, ctx)
        self._edge(self.entry, "next", first)
        self._finish()

    # ---------------------------------------------------------------- building
    def _new(self, kind, node=None, exprs=None, variant=None):
        n = Node(len(self.nodes), kind, node, exprs, variant)
        self.nodes.append(n)
        return n

    def _edge(self, a, label, b):
        if (label, b) not in self.nodes[a].succ:
            self.nodes[a].succ.append((label, b))

    def _seq(self, stmts, follow, ctx):
        nxt = follow
        for s in reversed(stmts):
            nxt = self._stmt(s, nxt, ctx)
        return nxt

    def _raises_of(self, exprs):
        if self.oracle is None:
            return set()
        return self.oracle.raises(exprs, self.func)

    def _add_exc_edges(self, nid, types, ctx):
        self._implicit_exc(nid, ctx)
        if not types:
            return
        for t in self._raise_targets(frozenset(types), ctx.frames):
            self._edge(nid, "exc", t)

    def _implicit_exc(self, nid, ctx):
        """a statement that calls something inside a try body may raise anything: make the handlers
        of the enclosing try statements reachable (up to the first catch-all).  Implicit exceptions
        are modelled no further than that: they never reach raise_exit."""
        node = self.nodes[nid]
        if not any(isinstance(x, ast.Call) or (isinstance(x, ast.Subscript) and isinstance(x.ctx, ast.Load))
                   for e in node.exprs for x in ast.walk(e)):
            return   # (an item lookup may raise KeyError / IndexError just as a call may raise anything)
        for fr in reversed(ctx.frames):
            if isinstance(fr, _TryFrame):
                stop = False
                for hnames, hentry in fr.handlers:
                    self._edge(nid, "exc", hentry)
                    if hnames is None or "Exception" in hnames or "BaseException" in hnames:
                        stop = True
                        break
                if stop:
                    return

    def _match(self, t, hnames):
        """does a handler with these names catch exception type t: 'yes' / 'maybe' / 'no'."""
        if hnames is None:
            return "yes"
        res = "no"
        for hn in hnames:
            if hn in ("Exception", "BaseException"):
                return "yes"
            if t == "*":
                res = "maybe"
                continue
            if t == hn:
                return "yes"
            r = None
            if self.oracle is not None:
                r = self.oracle.exc_is_subclass(t, hn)
            if r is None:
                bt, bh = getattr(builtins, t, None), getattr(builtins, hn, None)
                if isinstance(bt, type) and isinstance(bh, type):
                    r = issubclass(bt, bh)
            if r is True:
                return "yes"
            if r is None:
                res = "maybe"
        return res

    def _raise_targets(self, types, frames):
        if not frames:
            self.escaping |= set(types)
            return [self.raise_exit]
        fr, outer = frames[-1], frames[:-1]
        if isinstance(fr, _TryFrame):
            res, remaining = [], set()
            for t in sorted(types):
                caught = False
                for hnames, hentry in fr.handlers:
                    m = self._match(t, hnames)
                    if m == "yes":
                        res.append(hentry)
                        caught = True
                        break
                    if m == "maybe":
                        res.append(hentry)
                if not caught:
                    remaining.add(t)
            if remaining:
                res += self._raise_targets(frozenset(remaining), outer)
            return res
        if isinstance(fr, _WithFrame):
            if types not in fr.memo:
                n = self._new("with_exit", fr.stmt, variant="exc")
                fr.memo[types] = n.id
                for t in self._raise_targets(types, outer):
                    self._edge(n.id, "exc", t)
            return [fr.memo[types]]
        if isinstance(fr, _FinallyFrame):
            if types not in fr.memo:
                rr = self._new("join", None, variant="reraise")
                for t in self._raise_targets(types, outer):
                    self._edge(rr.id, "exc", t)
                fr.memo[types] = self._seq(fr.finalbody, rr.id, fr.outer_ctx)
            return [fr.memo[types]]
        raise AnalysisError("unknown frame")

    def _cond(self, expr, t, f, ctx):
        if isinstance(expr, ast.BoolOp):
            vals = list(expr.values)
            if isinstance(expr.op, ast.And):
                nxt = t
                for v in reversed(vals):
                    nxt = self._cond(v, nxt, f, ctx)
                return nxt
            nxt = f
            for v in reversed(vals):
                nxt = self._cond(v, t, nxt, ctx)
            return nxt
        if isinstance(expr, ast.UnaryOp) and isinstance(expr.op, ast.Not):
            return self._cond(expr.operand, f, t, ctx)
        if isinstance(expr, ast.Constant):
            return t if expr.value else f
        if isinstance(expr, ast.Compare) and len(expr.ops) > 1 and all(
                isinstance(x, (ast.Name, ast.Attribute, ast.Constant, ast.Load)) for m in expr.comparators[:-1]
                for x in ast.walk(m)):
            # `a <= b < c` with a stable middle operand is `a <= b and b < c`
            operands = [expr.left] + list(expr.comparators)
            parts = [ast.copy_location(ast.Compare(left=operands[i], ops=[op], comparators=[operands[i + 1]]), expr)
                     for i, op in enumerate(expr.ops)]
            return self._cond(ast.copy_location(ast.BoolOp(op=ast.And(), values=parts), expr), t, f, ctx)
        if isinstance(expr, ast.Compare) and len(expr.ops) == 1 and isinstance(expr.left, ast.Constant) \
                and isinstance(expr.comparators[0], ast.Constant) and isinstance(expr.ops[0], (ast.Is, ast.IsNot, ast.Eq, ast.NotEq)):
            l, r = expr.left.value, expr.comparators[0].value
            same = (l is r) if isinstance(expr.ops[0], (ast.Is, ast.IsNot)) else (l == r)
            return t if same == isinstance(expr.ops[0], (ast.Is, ast.Eq)) else f
        from .astutil import positive
        pexpr, flipped = positive(expr)
        # a local that only ever holds a real bool: `flag is False` / `flag == False` is `not flag`
        if isinstance(pexpr, ast.Compare) and len(pexpr.ops) == 1 and isinstance(pexpr.ops[0], (ast.Is, ast.Eq)) \
                and isinstance(pexpr.left, ast.Name) and pexpr.left.id in self.bool_locals \
                and isinstance(pexpr.comparators[0], ast.Constant) and isinstance(pexpr.comparators[0].value, bool):
            if not pexpr.comparators[0].value:
                flipped = not flipped
            pexpr = pexpr.left
            expr = pexpr
        if flipped:
            # atoms are kept in positive form (`a != b` is the F edge of `a == b`): a guard reads the same
            # whether the source tests the condition or its negation
            expr, t, f = pexpr, f, t
        n = self._new("cond", expr, [expr])
        self._edge(n.id, "T", t)
        self._edge(n.id, "F", f)
        self._add_exc_edges(n.id, self._raises_of([expr]), ctx)
        return n.id

    def _stmt(self, s, follow, ctx):
        if isinstance(s, ast.If):
            t = self._seq(s.body, follow, ctx)
            f = self._seq(s.orelse, follow, ctx)
            return self._cond(s.test, t, f, ctx)
        if isinstance(s, (ast.For, ast.AsyncFor)):
            head = self._new("for", s, [])
            after = self._seq(s.orelse, follow, ctx)
            bctx = _Ctx(follow, head.id, ctx.ret, ctx.frames, ctx.handler_types)
            body = self._seq(s.body, head.id, bctx)
            self._edge(head.id, "iter", body)
            self._edge(head.id, "done", after)
            init = self._new("for_init", s, [s.iter])
            self._edge(init.id, "next", head.id)
            self._add_exc_edges(init.id, self._raises_of([s.iter]), ctx)
            return init.id
        if isinstance(s, ast.While):
            head = self._new("join", s, variant="while")
            after = self._seq(s.orelse, follow, ctx)
            bctx = _Ctx(follow, head.id, ctx.ret, ctx.frames, ctx.handler_types)
            body = self._seq(s.body, head.id, bctx)
            c = self._cond(s.test, body, after, ctx)
            self._edge(head.id, "next", c)
            return head.id
        if isinstance(s, ast.Try) or (hasattr(ast, "TryStar") and isinstance(s, ast.TryStar)):
            return self._try(s, follow, ctx)
        if isinstance(s, (ast.With, ast.AsyncWith)):
            x_norm = self._new("with_exit", s, variant="normal")
            self._edge(x_norm.id, "next", follow)
            x_ret = self._new("with_exit", s, variant="ret")
            self._edge(x_ret.id, "ret", ctx.ret)
            x_brk = x_cont = None
            if ctx.brk is not None:
                n = self._new("with_exit", s, variant="brk")
                self._edge(n.id, "brk", ctx.brk)
                x_brk = n.id
            if ctx.cont is not None:
                n = self._new("with_exit", s, variant="cont")
                self._edge(n.id, "cont", ctx.cont)
                x_cont = n.id
            bctx = _Ctx(x_brk, x_cont, x_ret.id, ctx.frames + (_WithFrame(s),), ctx.handler_types)
            body = self._seq(s.body, x_norm.id, bctx)
            exprs = [i.context_expr for i in s.items]
            enter = self._new("with_enter", s, exprs)
            self._edge(enter.id, "next", body)
            self._add_exc_edges(enter.id, self._raises_of(exprs), ctx)
            return enter.id
        if isinstance(s, ast.Return):
            n = self._new("return", s, [s.value] if s.value is not None else [])
            self._edge(n.id, "ret", ctx.ret)
            self._add_exc_edges(n.id, self._raises_of(n.exprs), ctx)
            return n.id
        if isinstance(s, ast.Raise):
            n = self._new("raise", s, [x for x in (s.exc, s.cause) if x is not None])
            if s.exc is None:
                types = set(ctx.handler_types or ["*"])
            else:
                types = {_exc_name(s.exc)}
                if isinstance(s.exc, ast.Name) and s.exc.id[:1].islower():
                    types = {"*"}  # a variable
            self._add_exc_edges(n.id, types, ctx)
            return n.id
        if isinstance(s, ast.Break):
            if ctx.brk is None:
                raise AnalysisError("break outside loop")
            n = self._new("stmt", s)
            self._edge(n.id, "brk", ctx.brk)
            return n.id
        if isinstance(s, ast.Continue):
            n = self._new("stmt", s)
            self._edge(n.id, "cont", ctx.cont)
            return n.id
        if hasattr(ast, "Match") and isinstance(s, ast.Match):
            raise AnalysisError("match statement not modelled (%s)" % self.func.qual)
        if isinstance(s, (ast.FunctionDef, ast.AsyncFunctionDef, ast.ClassDef)):
            n = self._new("stmt", s, [])
            self._edge(n.id, "next", follow)
            return n.id
        # pure logging statements are transparent: `logger.debug(...)` etc. change no state a
        # property talks about, and rules must not depend on their presence or position
        if is_logging_stmt(s):
            return follow
        # simple statement
        n = self._new("stmt", s, [s])
        self._edge(n.id, "next", follow)
        self._add_exc_edges(n.id, self._raises_of([s]), ctx)
        return n.id

    def _try(self, s, follow, ctx):
        inner = ctx
        after = follow
        if s.finalbody:
            after = self._seq(s.finalbody, follow, ctx)
            fin_ret = self._seq(s.finalbody, ctx.ret, ctx)
            fin_brk = self._seq(s.finalbody, ctx.brk, ctx) if ctx.brk is not None else None
            fin_cont = self._seq(s.finalbody, ctx.cont, ctx) if ctx.cont is not None else None
            inner = _Ctx(
                fin_brk, fin_cont, fin_ret, ctx.frames + (_FinallyFrame(s.finalbody, ctx),),
                ctx.handler_types,
            )
        handlers = []
        for h in s.handlers:
            names = _handler_names(h)
            hctx = _Ctx(inner.brk, inner.cont, inner.ret, inner.frames,
                        names if names and "Exception" not in names else ["*"])
            body = self._seq(h.body, after, hctx)
            hn = self._new("except", h, [h.type] if h.type is not None else [])
            self._edge(hn.id, "next", body)
            handlers.append((names, hn.id))
        else_entry = self._seq(s.orelse, after, inner)
        bctx = _Ctx(inner.brk, inner.cont, inner.ret, inner.frames + (_TryFrame(handlers),),
                    inner.handler_types)
        return self._seq(s.body, else_entry, bctx)

    def _finish(self):
        self.reach = self.reachable(self.entry)
        for n in self.nodes:
            if n.id in self.reach:
                for lab, m in n.succ:
                    self.nodes[m].pred.append((lab, n.id))
        self._dom_cache = {}

    # ---------------------------------------------------------------- queries
    def live_nodes(self):
        return [n for n in self.nodes if n.id in self.reach]

    def reachable(self, src, blocked_nodes=(), blocked_edges=(), include_src=True):
        """ids reachable from src (src itself included by default) without entering a blocked
        node or using a blocked edge (node id, label)."""
        bn, be = set(blocked_nodes), set(blocked_edges)
        seen = set()
        todo = deque()
        srcs = src if isinstance(src, (list, set, tuple, frozenset)) else [src]
        for s in srcs:
            if s in bn:
                continue
            if include_src:
                seen.add(s)
            todo.append(s)
        started = set(srcs)
        while todo:
            a = todo.popleft()
            for lab, b in self.nodes[a].succ:
                if (a, lab) in be or b in bn:
                    continue
                if b not in seen:
                    seen.add(b)
                    todo.append(b)
                elif b in started and not include_src:
                    pass
        return seen

    def reaches(self, src, dst, blocked_nodes=(), blocked_edges=()):
        """is there a non-empty path src -> dst."""
        r = self.reachable(src, blocked_nodes, blocked_edges, include_src=False)
        return dst in r

    def path(self, src, dst, blocked_nodes=(), blocked_edges=()):
        bn, be = set(blocked_nodes), set(blocked_edges)
        prev = {src: None}
        todo = deque([src])
        while todo:
            a = todo.popleft()
            for lab, b in self.nodes[a].succ:
                if (a, lab) in be or b in bn or b in prev:
                    continue
                prev[b] = (a, lab)
                if b == dst:
                    out = [(b, None)]
                    cur = b
                    while prev[cur] is not None:
                        a2, l2 = prev[cur]
                        out.append((a2, l2))
                        cur = a2
                    return list(reversed(out))
                todo.append(b)
        return None

    def fmt_path(self, path):
        if not path:
            return "(no path)"
        parts = []
        for nid, lab in path:
            n = self.nodes[nid]
            s = "L%s %s" % (n.lineno, n.text(60))
            if lab and lab != "next":
                s += " -[%s]->" % lab
            parts.append(s)
        return " ; ".join(parts)

    def assume(self, assumptions):
        """edges to block under assumptions {atom text: bool} (atom text as by ast.unparse)."""
        blocked = set()
        for n in self.nodes:
            if n.kind == "cond":
                from .astutil import utext as _ut, gp as _gp
                txt = _ut(n.exprs[0])
                norm = dict(_gp(k, v) for k, v in assumptions.items())
                if txt in norm:
                    blocked.add((n.id, "F" if norm[txt] else "T"))
        return blocked

    def dominates(self, a, b, blocked_edges=(), blocked_nodes=()):
        """every entry->b path passes through a (b reachable at all is not required)."""
        if a == b:
            return True
        r = self.reachable(self.entry, set(blocked_nodes) | {a}, blocked_edges)
        return b not in r

    def guards(self, nid, blocked_edges=()):
        """[(cond node, polarity)] such that nid is reachable from entry only through that edge."""
        out = []
        be = set(blocked_edges)
        base = self.reachable(self.entry, (), be)
        if nid not in base:
            return out
        for n in self.nodes:
            if n.kind != "cond" or n.id not in base:
                continue
            for lab, pol in (("T", True), ("F", False)):
                if (n.id, lab) in be:
                    continue
                r = self.reachable(self.entry, (), be | {(n.id, lab)})
                if nid not in r:
                    out.append((n, pol))
        return out

    def unconditional(self, nid, blocked_edges=()):
        """nid lies on every path from the entry to the normal exit: no single edge guards it and no
        combination of branches (`if a and b: return`) leads round it"""
        return not self.guards(nid, blocked_edges) and self.all_paths_pass(self.entry, self.exit, [nid], blocked_edges)

    def nodes_of(self, astnode):
        return [n for n in self.live_nodes() if n.ast is astnode or astnode in n.exprs]

    def find(self, pred):
        return [n for n in self.live_nodes() if pred(n)]

    def exits(self):
        return [self.exit, self.raise_exit]

    def all_paths_pass(self, src, dst, via, blocked_edges=(), blocked_nodes=()):
        """every path src -> dst passes through a node of `via` (strictly after src)."""
        via = set(via)
        r = self.reachable(src, via | set(blocked_nodes), blocked_edges, include_src=False)
        return dst not in r


def is_logging_stmt(s):
    """`logger.<level>(...)` / `logging.<level>(...)` as a statement, or a bare string / constant"""
    if isinstance(s, ast.Expr) and isinstance(s.value, ast.Constant):
        return True
    if isinstance(s, ast.Expr) and isinstance(s.value, ast.Call) and isinstance(s.value.func, ast.Attribute):
        f = s.value.func
        return isinstance(f.value, ast.Name) and f.value.id in ("logger", "logging") and f.attr in (
            "debug", "info", "warning", "error", "critical", "exception", "log")
    return False


def strip_logging(stmts):
    """statement list without docstrings / logging statements (for shape comparisons)"""
    return [s for s in stmts if not is_logging_stmt(s)]


def walk_calls(exprs):
    """ast.Call nodes inside the given expression/statement roots, excluding lambda bodies and
    nested function/class definitions; in source order."""
    out = []

    def visit(n, root=False):
        if not root and isinstance(
            n, (ast.Lambda, ast.FunctionDef, ast.AsyncFunctionDef, ast.ClassDef)
        ):
            return
        for c in ast.iter_child_nodes(n):
            visit(c)
        if isinstance(n, ast.Call):
            out.append(n)

    for e in exprs:
        if e is not None:
            visit(e, True)
    return out


def walk_nodes(exprs, types):
    out = []

    def visit(n, root=False):
        if not root and isinstance(
            n, (ast.Lambda, ast.FunctionDef, ast.AsyncFunctionDef, ast.ClassDef)
        ):
            return
        if isinstance(n, types):
            out.append(n)
        for c in ast.iter_child_nodes(n):
            visit(c)

    for e in exprs:
        if e is not None:
            visit(e, True)
    return out
