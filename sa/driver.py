"""Entry point used by ./check : builds the program model once and runs the property's rules."""

import argparse
import importlib
import json
import os
import sys
import time
import traceback

from . import AnalysisError
from .index import Program
from .resolve import Resolver
from .report import Report, VERIF

ALL = ["C%02d" % i for i in range(1, 21)]
NOT_APPLICABLE = {"C16"}


class Ctx:
    def __init__(self, root, overrides=None):
        self.root = root
        self.prog = Program(root, overrides)
        self.res = Resolver(self.prog)
        self.explanations = {}
        self.extra_assumptions = {}
        self._shared = {}

    def cfg(self, func):
        return self.prog.cfg(func, self.res)

    def shared(self, key, build):
        if key not in self._shared:
            self._shared[key] = build()
        return self._shared[key]


def load_rules(prop):
    return importlib.import_module("rules.%s" % prop.lower())


def run_property(prop, ctx, tier, emit=True, evidence=True, seed=0):
    mod = load_rules(prop)
    ctx.explanations[prop] = getattr(mod, "EXPLANATION", "")
    ctx.extra_assumptions[prop] = list(getattr(mod, "ASSUMPTIONS", []))
    rep = Report(prop, tier, ctx, emit=emit)
    try:
        mod.run(ctx, rep)
    except AnalysisError as e:
        # a later rule lost its anchor: violations already established stand (exit 1); with none, undecided
        if not rep.classify()[0]:
            raise
        rep.note("analysis_stopped", str(e)[:300])
        if emit:
            print("NOTE %s: analysis stopped after the violations above: %s" % (prop, str(e)[:200]))
    if tier == "thorough" and hasattr(mod, "thorough"):
        mod.thorough(ctx, rep)
    rep.check_floors()
    return rep


def main(argv=None):
    ap = argparse.ArgumentParser(prog="check")
    ap.add_argument("prop", help="property id (C01..C20) or 'all'")
    ap.add_argument("--tier", default=os.environ.get("VERIF_TIER", "quick"),
                    choices=["quick", "thorough"])
    ap.add_argument("--root", default=os.environ.get("VERIF_REPO", "/repo"))
    ap.add_argument("--no-evidence", action="store_true")
    ap.add_argument("--explain", metavar="REPLAY", help="re-evaluate one replay file")
    ap.add_argument("--replay", metavar="REPLAY", help="alias of --explain")
    args = ap.parse_args(argv)
    seed = int(os.environ.get("VERIF_SEED", "0") or 0)
    sys.path.insert(0, VERIF)
    props = [p for p in ALL if p not in NOT_APPLICABLE] if args.prop == "all" else [args.prop.upper()]
    replay = args.explain or args.replay
    t0 = time.time()
    try:
        ctx = Ctx(args.root)
    except AnalysisError as e:
        print("ANALYSIS-ERROR %s: %s" % (args.prop, e))
        return 2
    except Exception:
        traceback.print_exc()
        print("ANALYSIS-ERROR %s: internal error while building the program model" % args.prop)
        return 2
    worst = 0
    for prop in props:
        evp = None if args.no_evidence else os.path.join(VERIF, "evidence", "%s.json" % prop)
        try:
            rep = run_property(prop, ctx, args.tier, seed=seed)
            if args.tier == "thorough" and not rep.classify()[0]:
                # the corpus is a self-test of a checker that is quiet on this tree; when the tree
                # itself violates the property that verdict comes first
                from . import sensitivity
                sensitivity.run(prop, ctx, rep, seed)
            if replay:
                with open(replay) as fh:
                    want = json.load(fh)
                hits = [o for o in rep.obligations
                        if o["rule"] == want.get("rule") and o["key"] == want.get("key")]
                for o in hits:
                    print(json.dumps(o, indent=1))
                if not hits:
                    print("instance not present any more: rule=%s key=%s" % (
                        want.get("rule"), want.get("key")))
            code = rep.finish(evp, seed)
        except AnalysisError as e:
            print("ANALYSIS-ERROR %s: %s" % (prop, e))
            code = 2
        except Exception:
            traceback.print_exc()
            print("ANALYSIS-ERROR %s: internal error in the checker (not a verdict)" % prop)
            code = 2
        if code == 2:
            # keep an evidence file that says so rather than a stale one
            if evp:
                _write_error_evidence(evp, prop, args.tier, seed, time.time() - t0)
        worst = max(worst, code) if code != 1 else (1 if worst != 2 else 2)
        print("%s: %s (%.2fs)" % (prop, {0: "PASS", 1: "FAIL", 2: "UNDECIDED"}[code], time.time() - t0))
    return worst


def _write_error_evidence(path, prop, tier, seed, wall):
    os.makedirs(os.path.dirname(path), exist_ok=True)
    with open(path, "w") as fh:
        json.dump({
            "property_id": prop, "tier": tier, "seed": int(seed), "level": "other",
            "coverage": {"explanation": "ANALYSIS-ERROR: the check could not decide on this tree "
                                        "(see stdout); nothing is claimed by this run",
                         "obligations": 0, "discharged": 0},
            "wall_s": round(wall, 3), "violations": 0}, fh, indent=1)
