"""Order typestate: an inter-procedural forward dataflow over the status domain.

Abstract state of an order: NONE (constructed, never placed) or one of the OrderStatus members.
The analysis tracks, per function, the variables that denote orders (by resolved type) and computes
for every call of a status setter the set of statuses the order may have just before it, following
calls context-sensitively (memoised on callee, entry states and constant arguments), refining on
branch conditions over ``status`` / ``complete`` / blotter membership, and carrying states along
exception edges.  Entry states of the root functions (response handlers, stream processors ...)
come from `Roots`, where handler entries are closed under the interference of the asynchronous
actors of their mode.
"""

import ast

from . import AnalysisError
from .cfg import walk_calls
from .kinds import utext, call_name, key as mkkey

NONE = "NONE"
# calls at which the state of the first argument is recorded (consumers: C15-R4)
PROBE_CALLS = {"complete_order"}


class StatusModel:
    """everything read from flumine/order/order.py"""

    def __init__(self, ctx):
        prog = ctx.prog
        self.members = prog.enum_members("OrderStatus")
        if len(self.members) < 6:
            raise AnalysisError("OrderStatus has only %d members" % len(self.members))
        mod = "flumine.order.order"
        self.live = [x.split(".")[1] for x in prog.const_value(mod, "LIVE_STATUS")]
        self.complete = [x.split(".")[1] for x in prog.const_value(mod, "COMPLETE_STATUS")]
        self.all = frozenset(self.members) | {NONE}
        base = prog.cls("BaseOrder")
        self.setters = {}  # setter name -> status
        self.setter_funcs = {}
        for name, f in base.methods.items():
            posts = []
            for c in walk_calls(f.node.body):
                if call_name(c) == "_update_status" and c.args:
                    a = c.args[0]
                    if isinstance(a, ast.Attribute) and utext(a.value) == "OrderStatus":
                        posts.append(a.attr)
            if len(posts) == 1 and name != "_update_status":
                self.setters[name] = posts[0]
                self.setter_funcs[name] = f
        if len(self.setters) < 6:
            raise AnalysisError("status setters of BaseOrder not found (%s)" % sorted(self.setters))

    def module_status_list(self, prog, module, name):
        """LIVE_STATUS etc. as seen from `module` (the middleware has its own)."""
        if name in module.constants:
            v = prog.eval_const(module.constants[name], module)
            return [x.split(".")[1] for x in v]
        imp = module.imports.get(name)
        if imp and imp[0] in prog.modules and name in prog.modules[imp[0]].constants:
            m = prog.modules[imp[0]]
            return [x.split(".")[1] for x in prog.eval_const(m.constants[name], m)]
        return None


def legal_relation(model):
    """documented lifecycle (order.py comments, docs/trades.md, C03 statement)."""
    L = set()
    inflight = ["CANCELLING", "UPDATING", "REPLACING"]
    L.add((NONE, "PENDING"))
    L.add((NONE, "VIOLATION"))
    L.add(("VIOLATION", "PENDING"))  # a refused order was never sent; it may be submitted again
    L.add(("VIOLATION", "VIOLATION"))
    for t in ("EXECUTABLE", "EXECUTION_COMPLETE", "EXPIRED"):
        L.add(("PENDING", t))
    for t in inflight + ["EXECUTION_COMPLETE", "EXECUTABLE", "EXPIRED"]:
        L.add(("EXECUTABLE", t))
    for s in inflight:
        L.add((s, "EXECUTABLE"))
        L.add((s, "EXECUTION_COMPLETE"))
        L.add((s, "EXPIRED"))
    L.add(("EXECUTION_COMPLETE", "EXECUTION_COMPLETE"))
    L.add(("EXPIRED", "EXPIRED"))
    L.add(("EXPIRED", "EXECUTION_COMPLETE"))
    return L


class Site:
    def __init__(self, func, call, setter, post, recv):
        self.func, self.call, self.setter, self.post, self.recv = func, call, setter, post, recv
        self.pre = set()
        self.trans = set()  # (pre, post) transitions the setter really applies
        self.contexts = set()


class Typestate:
    def __init__(self, ctx, roots=None):
        self.ctx = ctx
        self.prog = ctx.prog
        self.res = ctx.res
        self.model = StatusModel(ctx)
        self.L = legal_relation(self.model)
        self.sites = {}  # id(call) -> Site
        self._memo = {}
        self.probes = {}  # id(call) -> (func, call, var text, set of states) for PROBE_CALLS
        self._setter_memo = {}
        self._prim_hit = False
        self._active = set()
        self._order_cls = self.prog.cls("BaseOrder")
        self._relevant = self._status_relevant()
        self.population = {}  # id(func) -> frozenset for orders obtained by iteration/lookup
        self.contexts_run = 0

    # ------------------------------------------------------------ helpers
    def _status_relevant(self):
        """functions from which a status setter is reachable"""
        res = self.res
        rel = set()
        base = self._order_cls
        seeds = [f for n, f in base.methods.items() if n in self.model.setters]
        todo = list(seeds)
        while todo:
            f = todo.pop()
            if id(f) in rel:
                continue
            rel.add(id(f))
            for cs in res.callers.get(id(f), []):
                if id(cs.func) not in rel:
                    todo.append(cs.func)
        return rel

    def is_order_type(self, t):
        return t is not None and t.is_subclass_of("BaseOrder")

    def tracked(self, func):
        vs = set()
        res = self.res
        if func.cls is not None and func.cls.is_subclass_of("BaseOrder") and not func.is_static:
            vs.add(func.params[0])
        if func.cls is not None and func.cls.name == "SimulatedOrder":
            vs.add("self.order")
        for n in ast.walk(func.node):
            if isinstance(n, ast.Name) and n.id not in vs:
                t = res.type_of(n, func)
                if self.is_order_type(t):
                    vs.add(n.id)
        return vs

    def recv_var(self, expr, tracked):
        """tracked variable denoted by a receiver expression, or None"""
        if isinstance(expr, ast.Name) and expr.id in tracked:
            return expr.id
        if isinstance(expr, ast.Attribute) and utext(expr) == "self.order" and "self.order" in tracked:
            return "self.order"
        return None

    # ------------------------------------------------------------ refinement
    def refine(self, func, atom, pol, state, tracked):
        """state refined by atom == pol; returns new state dict or None when infeasible"""
        m = self.model
        ALL = m.all

        def upd(var, allowed):
            cur = state.get(var, ALL)
            new = cur & allowed
            if not new:
                return None
            st = dict(state)
            st[var] = frozenset(new)
            return st

        from .astutil import canon
        e = canon(atom)
        if isinstance(e, ast.Compare) and len(e.ops) == 1:
            left, op, right = e.left, e.ops[0], e.comparators[0]
            # X.status == / != OrderStatus.S
            if isinstance(left, ast.Attribute) and left.attr == "status":
                var = self.recv_var(left.value, tracked)
                if var is not None:
                    if isinstance(right, ast.Attribute) and utext(right.value) == "OrderStatus" \
                            and isinstance(op, (ast.Eq, ast.NotEq, ast.Is, ast.IsNot)):
                        eq = isinstance(op, (ast.Eq, ast.Is)) == pol
                        return upd(var, {right.attr} if eq else ALL - {right.attr})
                    if isinstance(right, ast.Constant) and right.value is None \
                            and isinstance(op, (ast.Is, ast.IsNot, ast.Eq, ast.NotEq)):
                        eq = isinstance(op, (ast.Is, ast.Eq)) == pol
                        return upd(var, {NONE} if eq else ALL - {NONE})
                    if isinstance(op, (ast.In, ast.NotIn)):
                        lst = None
                        if isinstance(right, ast.Name):
                            lst = m.module_status_list(self.prog, func.module, right.id)
                        elif isinstance(right, (ast.List, ast.Tuple, ast.Set)):
                            lst = [x.attr for x in right.elts if isinstance(x, ast.Attribute)]
                        if lst is not None:
                            isin = isinstance(op, ast.In) == pol
                            return upd(var, set(lst) if isin else ALL - set(lst))
            # X.id in <...>blotter  (membership of the market's blotter)
            if isinstance(op, (ast.In, ast.NotIn)) and isinstance(left, ast.Attribute) and left.attr == "id" \
                    and utext(right).endswith("blotter"):
                var = self.recv_var(left.value, tracked)
                if var is not None:
                    isin = isinstance(op, ast.In) == pol
                    # not in the blotter <=> never placed (insertions directly follow order.place /
                    # adoption and nothing is ever removed from Blotter._orders: rule C15-R2/R3)
                    return upd(var, ALL - {NONE} if isin else {NONE, "VIOLATION"})
        if isinstance(e, ast.Attribute) and e.attr == "complete":
            var = self.recv_var(e.value, tracked)
            if var is not None:
                comp = set(m.complete)
                return upd(var, comp if pol else ALL - comp)
        return state

    # ------------------------------------------------------------ the dataflow
    def analyze(self, func, entry, consts=None, population=None):
        """entry: {var: frozenset}; returns (normal exit state, exceptional exit state)."""
        consts = consts or {}
        pop = population if population is not None else self.population.get(id(func))
        mkey = (id(func), frozenset(entry.items()), frozenset(consts.items()), pop)
        if mkey in self._memo:
            return self._memo[mkey]
        if mkey in self._active:
            return dict(entry), {}
        self._active.add(mkey)
        self.contexts_run += 1
        try:
            out = self._analyze(func, entry, consts, pop)
        finally:
            self._active.discard(mkey)
        self._memo[mkey] = out
        return out

    def _join(self, a, b):
        if a is None:
            return dict(b)
        out = dict(a)
        for k, v in b.items():
            out[k] = out[k] | v if k in out else v
        for k in list(out):
            if k not in b:
                # variable unknown on the other path: keep what we know (it is defined before use)
                pass
        return out

    def _analyze(self, func, entry, consts, pop):
        cfg = self.ctx.cfg(func)
        tracked = self.tracked(func)
        blocked = cfg.assume({k: v for k, v in consts.items() if isinstance(v, bool)})
        ALL = self.model.all
        default_pop = pop if pop is not None else frozenset(ALL - {NONE})
        instate = {cfg.entry: dict(entry)}
        work = [cfg.entry]
        exit_norm, exit_exc = None, None
        iters = 0
        while work:
            nid = work.pop()
            iters += 1
            if iters > 20000:
                raise AnalysisError("typestate dataflow did not converge in %s" % func.qual)
            node = cfg.nodes[nid]
            st = instate[nid]
            if nid == cfg.exit:
                exit_norm = self._join(exit_norm, st)
                continue
            if nid == cfg.raise_exit:
                exit_exc = self._join(exit_exc, st)
                continue
            norm, exc = self._transfer(func, cfg, node, st, tracked, consts, default_pop)
            for lab, m in node.succ:
                if (nid, lab) in blocked:
                    continue
                if lab == "exc":
                    s2 = exc if exc is not None else norm
                    if node.kind in ("with_exit", "join", "raise"):
                        s2 = norm
                elif node.kind == "cond" and lab in ("T", "F"):
                    s2 = self.refine(func, node.exprs[0], lab == "T", norm, tracked)
                    if s2 is None:
                        continue
                elif node.kind == "for" and lab == "iter":
                    s2 = dict(norm)
                    for nm in _target_names(node.ast.target):
                        if nm in tracked:
                            s2[nm] = self._iter_state(func, cfg, nid, node.ast.iter, norm, tracked, default_pop)
                else:
                    s2 = norm
                old = instate.get(m)
                new = self._join(old, s2)
                if old is None or new != old:
                    instate[m] = new
                    if m not in work:
                        work.append(m)
        return (exit_norm if exit_norm is not None else {}), (exit_exc if exit_exc is not None else {})

    def _reaching_def(self, cfg, name, at):
        """the unique assignment `name = ...` that reaches node `at` on every path, else None"""
        defs = [n for n in cfg.live_nodes() if n.kind == "stmt" and isinstance(n.ast, ast.Assign)
                and any(isinstance(t, ast.Name) and t.id == name for t in n.ast.targets)]
        dom = [d for d in defs if d.id != at and cfg.dominates(d.id, at)]
        if not dom:
            return None
        best = None
        for c in dom:
            if all(o is c or cfg.dominates(o.id, c.id) for o in dom):
                best = c
        if best is None:
            return None
        for d in defs:
            if d in dom:
                continue
            if cfg.reaches(best.id, d.id) and cfg.reaches(d.id, at):
                return None
        return best

    def _iter_state(self, func, cfg, at, it, st, tracked, default_pop):
        """state of the elements of an iterable: the population, refined by the filters of the list
        comprehension the iterable was built from (followed through at most 4 single assignments
        and pass-through calls such as sorted()/list()/self._sort_orders(x))."""
        cur = it
        for _ in range(5):
            if isinstance(cur, ast.ListComp):
                break
            if isinstance(cur, ast.Call) and cur.args and isinstance(cur.args[0], (ast.Name, ast.ListComp)) \
                    and call_name(cur) in ("sorted", "list", "iter", "reversed", "tuple", "_sort_orders"):
                cur = cur.args[0]
                continue
            if isinstance(cur, ast.Name):
                d = self._reaching_def(cfg, cur.id, at)
                if d is None:
                    return default_pop
                at = d.id
                cur = d.ast.value
                continue
            return default_pop
        if not isinstance(cur, ast.ListComp) or len(cur.generators) != 1:
            return default_pop
        g = cur.generators[0]
        if not isinstance(g.target, ast.Name) or not (isinstance(cur.elt, ast.Name) and cur.elt.id == g.target.id):
            return default_pop
        var = g.target.id
        state = {var: default_pop}
        atoms = []
        for c in g.ifs:
            if isinstance(c, ast.BoolOp) and isinstance(c.op, ast.And):
                atoms += list(c.values)
            else:
                atoms.append(c)
        for a in atoms:
            pol = True
            if isinstance(a, ast.UnaryOp) and isinstance(a.op, ast.Not):
                a, pol = a.operand, False
            if isinstance(a, ast.BoolOp):
                continue
            r = self.refine(func, a, pol, state, {var})
            if r is None:
                return frozenset()
            state = r
        return state[var]

    def _transfer(self, func, cfg, node, st, tracked, consts, default_pop):
        if node.kind in ("entry", "join", "for", "except", "with_exit"):
            return st, None
        st = dict(st)
        exc_acc = None
        m = self.model
        for call in walk_calls(node.exprs):
            nm = call_name(call)
            f = call.func
            # the primitive: self._update_status(OrderStatus.X) inside the order class
            if isinstance(f, ast.Attribute) and nm == "_update_status" and call.args \
                    and isinstance(call.args[0], ast.Attribute) and utext(call.args[0].value) == "OrderStatus":
                var = self.recv_var(f.value, tracked)
                if var is not None:
                    self._prim_hit = True
                    st[var] = frozenset({call.args[0].attr})
                    continue
            # status setter on a tracked receiver
            if isinstance(f, ast.Attribute) and nm in m.setters:
                var = self.recv_var(f.value, tracked)
                t = self.res.type_of(f.value, func) if var is None else None
                if var is not None or self.is_order_type(t):
                    site = self.sites.get(id(call))
                    if site is None:
                        site = self.sites[id(call)] = Site(func, call, nm, m.setters[nm],
                                                           var if var is not None else utext(f.value))
                    pre = set(st.get(var, m.all)) if var is not None else set(default_pop)
                    site.pre |= pre
                    after = set()
                    for p0 in pre:
                        applied, res = self.setter_effect(nm, p0)
                        after |= res
                        if applied:
                            site.trans.add((p0, m.setters[nm]))
                    if var is not None:
                        st[var] = frozenset(after)
                    continue
            if nm in PROBE_CALLS and call.args:
                pv = self.recv_var(call.args[0], tracked)
                rec = self.probes.setdefault(id(call), (func, call, utext(call.args[0]), set()))
                rec[3].update(st.get(pv, m.all) if pv is not None else m.all)
            cs = self.res.site(call)
            if cs is None or not cs.callees:
                continue
            callees = [c for c in cs.callees if id(c) in self._relevant]
            if not callees:
                continue
            norm_j, exc_j = None, None
            for cal in callees:
                bind, cconsts = self._bind(func, call, cal, st, tracked, consts)
                if not bind:
                    continue
                n_out, e_out = self.analyze(cal, {p: s for p, (v, s) in bind.items()}, cconsts, None)
                back_n, back_e = {}, {}
                for p, (v, s) in bind.items():
                    back_n[v] = n_out.get(p, frozenset()) if n_out else frozenset()
                    if e_out:
                        back_e[v] = e_out.get(p, frozenset())
                # a callee that never returns normally contributes nothing to the normal state
                if n_out:
                    norm_j = self._join(norm_j, back_n)
                if e_out:
                    exc_j = self._join(exc_j, back_e)
            if exc_j:
                es = dict(st)
                es.update(exc_j)
                exc_acc = self._join(exc_acc, es)
            if norm_j:
                for v, s in norm_j.items():
                    if s:
                        st[v] = s
        # assignments of tracked variables
        s = node.ast
        if node.kind == "stmt" and isinstance(s, ast.Assign):
            for t in s.targets:
                for nm in _target_names(t):
                    if nm in tracked:
                        st[nm] = self._value_state(func, s.value, st, tracked, default_pop)
        if node.kind == "with_enter":
            for it in s.items:
                if it.optional_vars is not None:
                    for nm in _target_names(it.optional_vars):
                        if nm in tracked:
                            st[nm] = default_pop
        return st, exc_acc

    def _value_state(self, func, v, st, tracked, default_pop):
        if isinstance(v, ast.Name) and v.id in st:
            return st[v.id]
        if isinstance(v, ast.Call):
            nm = call_name(v) or ""
            callees, conf = self.res.resolve_call(v, func)
            if any(c.name == "__init__" for c in callees) or nm.startswith("create_order") \
                    or nm.startswith("create_betdaq_order"):
                return frozenset({NONE})
        return default_pop

    def _bind(self, func, call, callee, st, tracked, consts):
        """{callee var: (caller var, state)} for tracked orders passed to the callee, and the
        constant arguments it receives."""
        bind, cconsts = {}, {}
        f = call.func
        params = list(callee.params)
        off = 0
        m = self.model
        if callee.cls is not None and not callee.is_static and params:
            off = 1
            if isinstance(f, ast.Attribute):
                v = self.recv_var(f.value, tracked)
                if v is not None and callee.cls.is_subclass_of("BaseOrder"):
                    bind[params[0]] = (v, st.get(v, m.all))
                # order.simulated.m(...) / order.simulated(...) -> callee's self.order
                if callee.cls.name == "SimulatedOrder":
                    r = f.value if callee.name != "__call__" else f
                    if callee.name == "__call__" and not (isinstance(r, ast.Attribute) and r.attr == "simulated"):
                        r = f.value
                    if isinstance(r, ast.Attribute) and r.attr == "simulated":
                        v = self.recv_var(r.value, tracked)
                        if v is not None:
                            bind["self.order"] = (v, st.get(v, m.all))
                    elif utext(r) == "self" and "self.order" in tracked:
                        bind["self.order"] = ("self.order", st.get("self.order", m.all))
        elif callee.is_static or callee.cls is None:
            off = 0
        if isinstance(f, ast.Attribute) and utext(f.value) == "self" and func.cls is not None \
                and func.cls.name == "SimulatedOrder" and "self.order" in tracked:
            bind.setdefault("self.order", ("self.order", st.get("self.order", m.all)))
        args = list(call.args)
        for i, a in enumerate(args):
            if isinstance(a, ast.Starred):
                break
            pi = i + off
            if pi >= len(params):
                break
            self._bind_arg(params[pi], a, bind, cconsts, st, tracked, consts)
        for kw in call.keywords:
            if kw.arg and kw.arg in params:
                self._bind_arg(kw.arg, kw.value, bind, cconsts, st, tracked, consts)
        return bind, cconsts

    def _bind_arg(self, p, a, bind, cconsts, st, tracked, consts):
        m = self.model
        v = self.recv_var(a, tracked)
        if v is not None:
            bind[p] = (v, st.get(v, m.all))
        elif isinstance(a, ast.Constant) and isinstance(a.value, bool):
            cconsts[p] = a.value
        elif isinstance(a, ast.Name) and a.id in consts:
            cconsts[p] = consts[a.id]

    # ------------------------------------------------------------ guarded setters
    def setter_effect(self, name, p0):
        """(applied, resulting states) of calling setter `name` on an order in state p0: the setter
        body is analysed like any function, `self._update_status(OrderStatus.X)` being the primitive
        (so a guard inside the setter, e.g. 'a completed order is never re-opened', is honoured)."""
        k = (name, p0)
        if k not in self._setter_memo:
            f = self.model.setter_funcs[name]
            self._prim_hit = False
            n_out, e_out = self._analyze(f, {f.params[0]: frozenset({p0})}, {}, None)
            res = set(n_out.get(f.params[0], ()))
            self._setter_memo[k] = (self._prim_hit, res or {p0})
        return self._setter_memo[k]

    # ------------------------------------------------------------ driver
    def run_root(self, func, entry=None, population=None, consts=None):
        tracked = self.tracked(func)
        e = {}
        for v in tracked:
            if v in func.params or v == "self.order":
                e[v] = frozenset(entry) if entry is not None else frozenset(self.model.all)
        if population is not None:
            self.population[id(func)] = frozenset(population)
        return self.analyze(func, e, consts or {}, frozenset(population) if population is not None else None)

    def site_key(self, site):
        cfg = self.ctx.cfg(site.func)
        nodes = [n for n in cfg.live_nodes() if site.call in walk_calls(n.exprs)]
        conds = []
        for n in nodes[:1]:
            for g, pol in cfg.guards(n.id):
                conds.append("%s=%s" % (utext(g.exprs[0]), "T" if pol else "F"))
        return "%s :: %s.%s() :: [%s]" % (site.func.qual, site.recv, site.setter, ", ".join(sorted(conds)))

    def illegal(self, site):
        return sorted(t for t in site.trans if t not in self.L)


def _target_names(t):
    if isinstance(t, ast.Name):
        return [t.id]
    if isinstance(t, (ast.Tuple, ast.List)):
        out = []
        for e in t.elts:
            out += _target_names(e)
        return out
    return []
