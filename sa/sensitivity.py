"""Sensitivity corpus (thorough tier): single edits of the *current* tree that break a property.

Each rule module may define MUTANTS = [dict(id, file, func=None, old, new, expect=[rule ids],
nth=None, why)].  The edit is computed against today's source (scoped to the named function when
given), the variant must still compile (compile() only - never executed), and is analysed from
memory through Program(overrides=...): nothing is written under /repo or /verif.  The property's
rules must report a violation that the unedited tree does not have, under one of the expected
rules.  An operator whose anchor text no longer exists is skipped and listed.  A mutant that
applies and is not reported makes the run fail as ANALYSIS-ERROR (a blind checker must not be
believed).  The corpus never influences the verdict on /repo itself.
"""

import os
import random
from concurrent.futures import ProcessPoolExecutor

from . import AnalysisError


def _apply(prog, m):
    rel = m["file"]
    mod = None
    for x in prog.modules.values():
        if x.relpath == rel:
            mod = x
    if mod is None:
        return None, "file not found"
    src = mod.source
    lo, hi = 0, len(src)
    if m.get("func"):
        try:
            f = prog.func(m["func"], required=False)
        except Exception:
            f = None
        if f is None or f.module is not mod:
            # own method lookup by class
            cn, _, fn = m["func"].rpartition(".")
            c = mod.classes.get(cn)
            f = c.methods.get(fn) if c else mod.functions.get(fn)
        if f is None:
            return None, "function %s not found" % m["func"]
        lines = src.splitlines(keepends=True)
        start = f.node.lineno - 1
        if f.node.decorator_list:
            start = min(d.lineno for d in f.node.decorator_list) - 1
        lo = sum(len(x) for x in lines[:start])
        hi = sum(len(x) for x in lines[: f.node.end_lineno])
    seg = src[lo:hi]
    n = seg.count(m["old"])
    nth = m.get("nth")
    if n == 0:
        return None, "anchor text not found"
    if nth is None and n != 1:
        return None, "anchor text ambiguous (%d matches)" % n
    if nth is not None:
        if nth >= n:
            return None, "anchor occurrence %d not found" % nth
        idx = -1
        for _ in range(nth + 1):
            idx = seg.index(m["old"], idx + 1)
        seg2 = seg[:idx] + m["new"] + seg[idx + len(m["old"]):]
    else:
        seg2 = seg.replace(m["old"], m["new"])
    new_src = src[:lo] + seg2 + src[hi:]
    try:
        compile(new_src, rel, "exec")
    except SyntaxError as e:
        return None, "variant does not compile: %s" % e
    return {rel: new_src}, None


def _run_one(args):
    prop, root, overrides, base_keys, expect = args
    from .driver import Ctx, run_property
    try:
        ctx = Ctx(root, overrides)
        rep = run_property(prop, ctx, "quick", emit=False)
        viol, kf = rep.classify()
        new = [o for o in viol if (o["rule"], o["key"]) not in base_keys]
        hit = [o for o in new if not expect or any(o["rule"].startswith(e) for e in expect)]
        return {"status": "detected" if hit else ("other-rule" if new else "missed"),
                "rules": sorted({o["rule"] for o in new}),
                "first": (hit or new or [None])[0] and {
                    k: (hit or new)[0][k] for k in ("rule", "key", "where")}}
    except AnalysisError as e:
        return {"status": "undecided", "error": str(e)}
    except Exception as e:  # pragma: no cover
        import traceback
        return {"status": "error", "error": traceback.format_exc(limit=3)}


def run(prop, ctx, rep, seed=0, jobs=None):
    from .driver import load_rules
    mod = load_rules(prop)
    muts = getattr(mod, "MUTANTS", [])
    if callable(muts):
        muts = muts(ctx)
    muts = list(muts)
    if not muts:
        rep.sensitivity = {"operators": 0}
        return
    random.Random(seed).shuffle(muts)
    viol, kf = rep.classify()
    base_keys = {(o["rule"], o["key"]) for o in rep.obligations if o["verdict"] == "violation"}
    tasks, skipped = [], []
    for m in muts:
        ov, why = _apply(ctx.prog, m)
        if ov is None:
            skipped.append({"id": m["id"], "reason": why})
            continue
        tasks.append((m, (prop, ctx.root, ov, base_keys, m.get("expect", []))))
    results = []
    jobs = jobs or min(16, os.cpu_count() or 4, max(1, len(tasks)))
    if tasks:
        with ProcessPoolExecutor(max_workers=jobs) as ex:
            for (m, _a), r in zip(tasks, ex.map(_run_one, [a for _m, a in tasks])):
                r["id"] = m["id"]
                r["why"] = m.get("why", "")
                results.append(r)
    detected = [r for r in results if r["status"] == "detected"]
    bad = [r for r in results if r["status"] != "detected"]
    rep.sensitivity = {
        "operators": len(muts), "applied": len(tasks), "detected": len(detected),
        "skipped": skipped, "not_detected": bad,
        "samples": [{"id": r["id"], "reported": r.get("first")} for r in detected[:12]],
        "rule": "each operator is one edit of the current tree that breaks the property while still "
                "compiling; detection = a violation absent from the unedited tree under an expected rule",
    }
    print("%s sensitivity: %d operators, %d applied, %d detected, %d skipped" % (
        prop, len(muts), len(tasks), len(detected), len(skipped)))
    for s in skipped:
        print("  skipped %s: %s" % (s["id"], s["reason"]))
    if bad:
        for r in bad:
            print("  NOT DETECTED %s: %s %s" % (r["id"], r["status"], r.get("error") or r.get("rules")))
        raise AnalysisError("%s: %d sensitivity operator(s) applied but were not reported: %s" % (
            prop, len(bad), ", ".join(r["id"] for r in bad)))
