"""Canonical spelling of expressions, so that no rule depends on how a comparison was written.

canon(node) returns a copy of the expression in which every single-operator comparison is oriented
deterministically:
  * a constant-like operand (literal, None/True/False, CapWords.MEMBER enum member, UPPER_CASE name)
    goes to the right:  `OrderStatus.X == order.status` -> `order.status == OrderStatus.X`,
    `0 < size` -> `size > 0`;
  * otherwise the operand whose source text is smaller goes to the left, the operator being
    mirrored (`b > a` -> `a < b`).
`in` / `not in` / `is` / `is not` are left alone (their operands are not interchangeable, except
that `None is x` is turned into `x is None`).  utext(node) is the whitespace-normalised source of
canon(node); every rule compares and reports expressions through it.
"""

import ast
import copy

_MIRROR = {ast.Lt: ast.Gt, ast.Gt: ast.Lt, ast.LtE: ast.GtE, ast.GtE: ast.LtE, ast.Eq: ast.Eq, ast.NotEq: ast.NotEq,
           ast.Is: ast.Is, ast.IsNot: ast.IsNot}
_CACHE = {}
_TXT = {}


def _constant_like(n):
    if isinstance(n, ast.Constant):
        return True
    if isinstance(n, ast.UnaryOp) and isinstance(n.op, ast.USub) and isinstance(n.operand, ast.Constant):
        return True
    if isinstance(n, ast.Name):
        return n.id.isupper() and len(n.id) > 1
    if isinstance(n, ast.Attribute):
        r = n
        while isinstance(r, ast.Attribute):
            r = r.value
        if isinstance(r, ast.Name) and r.id[:1].isupper() and not r.id.isupper() and n.attr.isupper():
            return True  # OrderStatus.EXECUTABLE, ExchangeType.BETFAIR ...
        if isinstance(n.value, ast.Name) and n.attr.isupper() and len(n.attr) > 1 and n.value.id in ("utils", "config"):
            return True
    if isinstance(n, (ast.Tuple, ast.List, ast.Set)):
        return all(_constant_like(e) for e in n.elts)
    return False


class _Canon(ast.NodeTransformer):
    def visit_Compare(self, n):
        self.generic_visit(n)
        if len(n.ops) != 1 or type(n.ops[0]) not in _MIRROR:
            return n
        l, r = n.left, n.comparators[0]
        op = type(n.ops[0])
        swap = False
        if op in (ast.Is, ast.IsNot):
            swap = _constant_like(l) and not _constant_like(r)
        elif _constant_like(l) and not _constant_like(r):
            swap = True
        elif not _constant_like(l) and not _constant_like(r):
            swap = ast.unparse(l) > ast.unparse(r)
        elif _constant_like(l) and _constant_like(r):
            swap = ast.unparse(l) > ast.unparse(r)
        if swap:
            return ast.copy_location(ast.Compare(left=r, ops=[_MIRROR[op]()], comparators=[l]), n)
        return n


def canon(node):
    k = id(node)
    hit = _CACHE.get(k)
    if hit is not None and hit[0] is node:
        return hit[1]
    c = _Canon().visit(copy.deepcopy(node))
    _CACHE[k] = (node, c)
    return c


def utext(node):
    k = id(node)
    hit = _TXT.get(k)
    if hit is not None and hit[0] is node:
        return hit[1]
    t = " ".join(ast.unparse(canon(node)).split())
    _TXT[k] = (node, t)
    return t


def canon_text(src):
    """canonical text of an expression given as source (for tables written by hand)"""
    return " ".join(ast.unparse(_Canon().visit(ast.parse(src, mode="eval").body)).split())


_NEG = {ast.NotEq: ast.Eq, ast.NotIn: ast.In, ast.IsNot: ast.Is}


def positive(expr):
    """(expr', flipped): the condition without its outer negation - `not x` -> x, `a != b` -> `a == b`,
    `a not in b` -> `a in b`, `a is not b` -> `a is b` - and whether the truth value was flipped.  Operand
    nodes are shared with the original (identity of calls inside is kept)."""
    flipped = False
    while True:
        if isinstance(expr, ast.UnaryOp) and isinstance(expr.op, ast.Not):
            expr, flipped = expr.operand, not flipped
            continue
        if isinstance(expr, ast.Compare) and len(expr.ops) == 1 and type(expr.ops[0]) in _NEG:
            expr = ast.copy_location(ast.Compare(left=expr.left, ops=[_NEG[type(expr.ops[0])]()],
                                                 comparators=list(expr.comparators)), expr)
            flipped = not flipped
            continue
        return expr, flipped


def gp(src, pol=True):
    """canonical (atom text, polarity) of a hand-written guard: gp("a != b", True) == ("a == b", False)"""
    e, fl = positive(ast.parse(src, mode="eval").body)
    return " ".join(ast.unparse(_Canon().visit(copy.deepcopy(e))).split()), (pol != fl)
