"""Reference-relative normal form of the analysed tree (applied at load time, before alpha-normalisation).

The rules anchor in the functions that existed when they were written (`sa/functions_ref.json`, generated
by tools/gen_locals_ref.py).  Two refactorings that leave behaviour unchanged move the statements a rule
looks at to a place it cannot know:

  * *extract helper*: a block becomes a new private function/method and a call.  Every function that is NOT
    in the reference ("new helper") is expanded in place at its call sites - parameters replaced by the
    argument expressions, `return v` turned into the assignment the call site makes - so that the callers
    are analysed with the same statements as before the extraction.  A helper all of whose call sites could
    be expanded is dropped from the program; one that could not be expanded everywhere (generator, recursion,
    *args, a `return` inside a loop of a helper whose result is used mid-function, a call in a position that
    cannot be hoisted) stays as it is, and the rules see the call.

  * *cache an attribute chain in a local*: `x = a.b.c` followed by uses of `x`.  A local that is not in the
    reference naming of its function (`sa/locals_ref.json`), is bound exactly once to a plain attribute chain
    and is only read afterwards, is replaced by the chain - provided no attribute of that name is assigned
    anywhere in the package outside `__init__` (so nothing can change it between the binding and a use).

Both are exact program equivalences under the stated side conditions; both are no-ops on the tree the rules
were written against.
"""

import ast
import copy
import json
import os

from . import alpha

FUNC_REF_FILE = os.path.join(os.path.dirname(os.path.abspath(__file__)), "functions_ref.json")
_FREF = None
MAX_ROUNDS = 4


def load_func_ref():
    """{function key: [parameter names]} of the reference tree (a set-like mapping: `key in ref`)"""
    global _FREF
    if _FREF is None:
        try:
            with open(FUNC_REF_FILE) as fh:
                d = json.load(fh)
            _FREF = d if isinstance(d, dict) else {k: None for k in d}
        except Exception:
            _FREF = None
    return _FREF


def _all_params(fn):
    a = fn.args
    out = [x.arg for x in a.posonlyargs + a.args + a.kwonlyargs]
    if a.vararg:
        out.append("*" + a.vararg.arg)
    if a.kwarg:
        out.append("**" + a.kwarg.arg)
    return out


def build_function_reference(root, pkg="flumine"):
    out = {}
    pkgdir = os.path.join(root, pkg)
    for dp, dn, fns in sorted(os.walk(pkgdir)):
        dn.sort()
        for f in sorted(fns):
            if f.endswith(".py"):
                path = os.path.join(dp, f)
                rel = os.path.relpath(path, root)
                tree = ast.parse(open(path, encoding="utf-8").read())
                for parts, fn in alpha.walk_functions(tree):
                    out[alpha.function_key(rel, parts)] = _all_params(fn)
    return out


# --------------------------------------------------------------------------------------------- helpers
def _decorators(fn):
    return {ast.unparse(d) for d in fn.decorator_list}


def _own(fn, types=None):
    """nodes of fn's body, nested function / class definitions excluded"""
    out = []

    def visit(n):
        if isinstance(n, (ast.FunctionDef, ast.AsyncFunctionDef, ast.ClassDef, ast.Lambda)):
            return
        if types is None or isinstance(n, types):
            out.append(n)
        for c in ast.iter_child_nodes(n):
            visit(c)

    for s in fn.body:
        visit(s)
    return out


def _stable(e):
    """an expression that can be repeated in place of a parameter: names, attribute chains, constants"""
    if isinstance(e, (ast.Name, ast.Constant)):
        return True
    if isinstance(e, ast.Attribute):
        return _stable(e.value)
    return False


class _Helper:
    def __init__(self, rel, parts, node, cls_node):
        self.rel, self.parts, self.node, self.cls_node = rel, parts, node, cls_node
        self.name = node.name
        deco = _decorators(node)
        self.static = "staticmethod" in deco
        self.classmethod = "classmethod" in deco
        self.is_method = cls_node is not None
        # a memoising decorator on a pure helper does not change what a call returns
        transparent = {d for d in deco if d.split("(")[0] in ("lru_cache", "functools.lru_cache", "cache", "functools.cache")}
        self.is_property = "property" in deco
        self.other_deco = bool(deco - {"staticmethod", "classmethod", "property"} - transparent)
        a = node.args
        self.params = [x.arg for x in a.posonlyargs + a.args]
        self.kwonly = [x.arg for x in a.kwonlyargs]
        self.defaults = {}
        pos = a.posonlyargs + a.args
        for p, d in zip(pos[len(pos) - len(a.defaults):], a.defaults):
            self.defaults[p.arg] = d
        for p, d in zip(a.kwonlyargs, a.kw_defaults):
            if d is not None:
                self.defaults[p.arg] = d
        self.varargs = a.vararg is not None or a.kwarg is not None

    def expandable(self):
        n = self.node
        if isinstance(n, ast.AsyncFunctionDef) or self.other_deco or self.varargs:
            return False
        for x in ast.walk(n):
            if isinstance(x, (ast.Yield, ast.YieldFrom, ast.Await, ast.Global, ast.Nonlocal)):
                return False
            if x is not n and isinstance(x, (ast.FunctionDef, ast.AsyncFunctionDef, ast.ClassDef)):
                return False
        # recursion
        for c in ast.walk(n):
            if isinstance(c, ast.Call):
                f = c.func
                if (isinstance(f, ast.Attribute) and f.attr == self.name) or (isinstance(f, ast.Name) and f.id == self.name):
                    return False
        return True

    def body(self):
        b = list(self.node.body)
        if b and isinstance(b[0], ast.Expr) and isinstance(b[0].value, ast.Constant) and isinstance(b[0].value.value, str):
            b = b[1:]
        if b and _has_return(b) and not _always_returns(b):
            # falling off the end after some branches returned a value is `return None`
            b = b + [ast.copy_location(ast.Return(value=ast.Constant(value=None)), b[-1])]
            ast.fix_missing_locations(b[-1])
        return b

    def single_expression(self):
        b = self.body()
        if len(b) == 1 and isinstance(b[0], ast.Return) and b[0].value is not None:
            return b[0].value
        return None

    def membership_fallback(self):
        """`try: return x in S` / `except TypeError: return x in L` (x, S, L parameters): (x, S, L), else None.
        With S a hashed copy of L this is `x in L` (the set is only a faster way to the same answer; an
        unhashable x takes the list test)"""
        b = [st for st in self.node.body if not (isinstance(st, ast.Expr) and isinstance(st.value, ast.Constant))]
        if len(b) != 1 or not isinstance(b[0], ast.Try) or b[0].orelse or b[0].finalbody or len(b[0].handlers) != 1:
            return None
        t = b[0]
        h = t.handlers[0]
        if not (isinstance(h.type, ast.Name) and h.type.id == "TypeError") or len(t.body) != 1 or len(h.body) != 1:
            return None
        ra, rb = t.body[0], h.body[0]

        def memb(r):
            if isinstance(r, ast.Return) and isinstance(r.value, ast.Compare) and len(r.value.ops) == 1 and \
                    isinstance(r.value.ops[0], ast.In) and isinstance(r.value.left, ast.Name) and \
                    isinstance(r.value.comparators[0], ast.Name):
                return r.value.left.id, r.value.comparators[0].id
            return None
        a, c = memb(ra), memb(rb)
        if a and c and a[0] == c[0] and {a[0], a[1], c[1]} <= set(self.params) and len({a[0], a[1], c[1]}) == 3:
            return a[0], a[1], c[1]
        return None


class _SubstNames(ast.NodeTransformer):
    def __init__(self, mapping, renames):
        self.mapping, self.renames = mapping, renames

    def visit_Name(self, n):
        if n.id in self.mapping and isinstance(n.ctx, ast.Load):
            return ast.copy_location(copy.deepcopy(self.mapping[n.id]), n)
        if n.id in self.renames:
            return ast.copy_location(ast.Name(id=self.renames[n.id], ctx=n.ctx), n)
        return n

    def visit_ExceptHandler(self, n):
        self.generic_visit(n)
        if n.name in self.renames:
            n.name = self.renames[n.name]
        return n


def _always_returns(stmts):
    """every path through the statement list ends in return / raise"""
    for s in stmts:
        if isinstance(s, (ast.Return, ast.Raise)):
            return True
        if isinstance(s, ast.If) and s.orelse and _always_returns(s.body) and _always_returns(s.orelse):
            return True
        if isinstance(s, (ast.With, ast.AsyncWith)) and _always_returns(s.body):
            return True
    return False


def _has_return(stmts):
    for s in stmts:
        for x in ast.walk(s):
            if isinstance(x, ast.Return):
                return True
    return False


class _CannotExpand(Exception):
    pass


def _single_exit(stmts, make_result):
    """statement list with every `return v` replaced by make_result(v) (a list of statements) and the code
    that followed it on the same path moved into the branch that does not return.  Raises _CannotExpand when
    a return sits where that cannot be expressed (inside a loop / try, or a branch that only sometimes
    returns)."""
    out = []
    for i, s in enumerate(stmts):
        rest = stmts[i + 1:]
        if isinstance(s, ast.Return):
            out.extend(make_result(s.value))
            return out  # what follows is dead
        if not _has_return([s]):
            out.append(s)
            continue
        if isinstance(s, ast.If):
            b_ret, o_ret = _always_returns(s.body), _always_returns(s.orelse)
            b_has, o_has = _has_return(s.body), _has_return(s.orelse)
            if b_has and not b_ret and not _raises_only(s.body) or o_has and not o_ret and not _raises_only(s.orelse):
                # a branch that returns on some of its paths only: push the rest into it recursively
                pass
            new = ast.If(test=s.test, body=None, orelse=None)
            ast.copy_location(new, s)
            if b_ret and o_ret:
                new.body = _single_exit(s.body, make_result)
                new.orelse = _single_exit(s.orelse, make_result)
                out.append(new)
                return out
            if b_ret:
                new.body = _single_exit(s.body, make_result)
                new.orelse = _single_exit(list(s.orelse) + rest, make_result)
                if not new.orelse:
                    new.orelse = []
                out.append(new)
                return out
            if o_ret:
                new.body = _single_exit(list(s.body) + rest, make_result) or [ast.Pass()]
                new.orelse = _single_exit(s.orelse, make_result)
                out.append(new)
                return out
            # returns on some paths of a branch: the rest is duplicated into both continuations
            new.body = _single_exit(list(s.body) + rest, make_result) or [ast.Pass()]
            new.orelse = _single_exit(list(s.orelse) + rest, make_result)
            out.append(new)
            return out
        if isinstance(s, (ast.With, ast.AsyncWith)) and _always_returns(s.body) and not rest:
            new = copy.copy(s)
            new.body = _single_exit(s.body, make_result)
            out.append(new)
            return out
        raise _CannotExpand("return inside %s" % type(s).__name__)
    return out


def _raises_only(stmts):
    return bool(stmts) and all(isinstance(s, ast.Raise) for s in stmts[-1:])


class _Expander:
    def __init__(self, trees, ref):
        self.trees = trees
        self.ref = ref
        self.counter = 0
        self.report = {}   # helper key -> {"expanded": n, "left": n}

    # ---- discovery
    def new_helpers(self):
        found = {}
        for rel, tree in self.trees.items():
            for parts, fn in alpha.walk_functions(tree):
                k = alpha.function_key(rel, parts)
                if k in self.ref or len(parts) > 2:
                    continue
                if parts[-1].endswith(".setter") or (fn.name.startswith("__") and fn.name.endswith("__")):
                    continue
                cls_node = None
                if len(parts) == 2:
                    for c in ast.walk(tree):
                        if isinstance(c, ast.ClassDef) and c.name == parts[0] and fn in c.body:
                            cls_node = c
                    if cls_node is None:
                        continue
                found.setdefault(fn.name, []).append(_Helper(rel, parts, fn, cls_node))
        existing = {}
        for k in self.ref:
            q = k.split("::")[1].split(".")
            existing.setdefault(q[-1], set()).add(q[0] if len(q) > 1 else None)
        out = {}
        classes = None
        for name, hs in found.items():
            if len(hs) != 1 or not hs[0].expandable():
                continue
            h = hs[0]
            h.scoped = False
            if name in existing:
                # the name is also an existing function's: only reads / calls through `self` inside the helper's own
                # class can be resolved, and only if the other owners are classes unrelated to it
                if not h.is_method or h.static or h.classmethod or None in existing[name]:
                    continue
                if classes is None:
                    classes = _mutable_attrs(self.trees)[2]
                fam = _family(classes, h.cls_node.name) if h.cls_node.name in classes else {h.cls_node.name}
                if existing[name] & set(fam):
                    continue
                h.scoped = True
            out[name] = h
        return out

    # ---- one call site
    def _bind(self, h, call, caller_names):
        """(mapping param -> expression to substitute, prologue assignments, renames of the helper's locals)"""
        params = list(h.params)
        recv = None
        f = call.func
        if h.is_method and not h.static:
            if not isinstance(f, ast.Attribute):
                raise _CannotExpand("method called without a receiver")
            recv = f.value
            if isinstance(recv, ast.Name) and recv.id[:1].isupper() and not h.classmethod:
                raise _CannotExpand("unbound method call")
            first = params.pop(0) if params else None
        else:
            first = None
        if any(isinstance(a, ast.Starred) for a in call.args) or any(k.arg is None for k in call.keywords):
            raise _CannotExpand("star arguments")
        if len(call.args) > len(params):
            raise _CannotExpand("too many arguments")
        actual = {}
        for p, a in zip(params, call.args):
            actual[p] = a
        for k in call.keywords:
            if k.arg in actual or k.arg not in params + h.kwonly:
                raise _CannotExpand("keyword mismatch")
            actual[k.arg] = k.value
        for p in params + h.kwonly:
            if p not in actual:
                if p not in h.defaults:
                    raise _CannotExpand("missing argument %s" % p)
                actual[p] = h.defaults[p]
        if first is not None:
            actual[first] = recv
        stored = {n.id for n in _own(h.node, ast.Name) if isinstance(n.ctx, ast.Store)}
        for x in _own(h.node, ast.ExceptHandler):
            if x.name:
                stored.add(x.name)
        mapping, prologue, renames = {}, [], {}
        for p, a in actual.items():
            if p not in stored and _stable(a):
                mapping[p] = a
            else:
                target = p
                if p in caller_names and not (isinstance(a, ast.Name) and a.id == p):
                    self.counter += 1
                    target = "%s_h%d" % (p, self.counter)
                    renames[p] = target
                if not (isinstance(a, ast.Name) and a.id == target):
                    prologue.append(ast.Assign(targets=[ast.Name(id=target, ctx=ast.Store())], value=copy.deepcopy(a)))
        for v in sorted(stored - set(actual)):
            if v in caller_names:
                self.counter += 1
                renames[v] = "%s_h%d" % (v, self.counter)
        return mapping, prologue, renames

    def _instantiate(self, h, call, caller_names, make_result, keep_returns=False, result_name=None):
        mapping, prologue, renames = self._bind(h, call, caller_names)
        if result_name is not None:
            # `T = helper(..)` where the helper ends in `return V` (V a local of its own): V simply is T;
            # likewise `T1, T2 = helper(..)` with `return V1, V2`
            rets = [x for x in _own(h.node, ast.Return)]
            hb = h.body()
            tnames = result_name if isinstance(result_name, list) else [result_name]
            if len(rets) == 1 and hb and hb[-1] is rets[0]:
                rv = rets[0].value
                vals = [rv] if not isinstance(result_name, list) else (list(rv.elts) if isinstance(rv, ast.Tuple) else [])
                stored = {n.id for n in _own(h.node, ast.Name) if isinstance(n.ctx, ast.Store)}
                if len(vals) == len(tnames):
                    for tn, v in zip(tnames, vals):
                        if not isinstance(v, ast.Name):
                            continue
                        if v.id == tn:
                            if v.id in stored and v.id not in (set(h.params) | set(h.kwonly)):
                                renames.pop(v.id, None)  # the helper's local and the target are one variable
                            continue
                        v = v.id
                        if v in stored and v not in mapping and tn not in (stored - {v}) and tn not in mapping \
                                and tn not in (set(h.params) | set(h.kwonly)) and tn not in renames.values():
                            renames[v] = tn
        body = [copy.deepcopy(s) for s in h.body()]
        sub = _SubstNames(mapping, renames)
        body = [sub.visit(s) for s in body]
        if not keep_returns:
            body = _single_exit(body, make_result)
        stmts = prologue + body
        for s in stmts:
            for x in ast.walk(s):
                ast.copy_location(x, call) if not hasattr(x, "lineno") else None
            ast.copy_location(s, call) if not hasattr(s, "lineno") else None
        return stmts or [ast.copy_location(ast.Pass(), call)]

    def _helper_call(self, node, helpers):
        if isinstance(node, ast.Call):
            f = node.func
            nm = f.attr if isinstance(f, ast.Attribute) else (f.id if isinstance(f, ast.Name) else None)
            if nm in helpers:
                h = helpers[nm]
                if getattr(h, "scoped", False) and not self._scoped_ok(h, f):
                    return None
                return h
        return None

    def _scoped_ok(self, h, f):
        parts = getattr(self, "_cur_parts", None)
        return (isinstance(f, ast.Attribute) and isinstance(f.value, ast.Name) and f.value.id == "self"
                and parts is not None and len(parts) == 2 and parts[0] == h.cls_node.name)

    def _hashed_copy(self, s_arg, l_arg):
        """is `s_arg` a module constant bound once to frozenset(<l_arg>) / set(<l_arg>) ?"""
        if s_arg is None or l_arg is None:
            return False
        last = lambda e: e.attr if isinstance(e, ast.Attribute) else (e.id if isinstance(e, ast.Name) else None)
        sn, ln = last(s_arg), last(l_arg)
        if not sn or not ln:
            return False
        defs = []
        for tree in self.trees.values():
            for st in tree.body:
                if isinstance(st, ast.Assign) and len(st.targets) == 1 and isinstance(st.targets[0], ast.Name) and st.targets[0].id == sn:
                    defs.append(st.value)
        if len(defs) != 1:
            return False
        v = defs[0]
        return isinstance(v, ast.Call) and isinstance(v.func, ast.Name) and v.func.id in ("frozenset", "set") and \
            len(v.args) == 1 and not v.keywords and last(v.args[0]) == ln

    def _caller_names(self, fn):
        names = set(alpha.params_of(fn))
        for n in _own(fn, ast.Name):
            names.add(n.id)
        return names

    def expand_in_function(self, fn, helpers):
        changed = False
        names = self._caller_names(fn)

        def expr_level(s):
            """replace calls of single-expression helpers anywhere inside statement s"""
            nonlocal changed
            exp = self

            class R(ast.NodeTransformer):
                def visit_FunctionDef(self, n):
                    return n
                visit_AsyncFunctionDef = visit_ClassDef = visit_FunctionDef

                def visit_Call(self, c):
                    self.generic_visit(c)
                    h = exp._helper_call(c, helpers)
                    if h is None:
                        return c
                    e = h.single_expression()
                    if e is None:
                        mf = h.membership_fallback()
                        if mf is None:
                            return c
                        # positional binding is enough here: x is evaluated once before the test in the helper and
                        # once in `x in L`, the two collection arguments are stable names
                        ps = [p_ for p_ in h.params if not (h.is_method and not h.static and p_ in ("self", "cls"))]
                        if c.keywords or len(c.args) != len(ps) or any(isinstance(a_, ast.Starred) for a_ in c.args):
                            return c
                        mapping = dict(zip(ps, c.args))
                        if not (_stable(mapping[mf[1]]) and _stable(mapping[mf[2]])) or \
                                not exp._hashed_copy(mapping.get(mf[1]), mapping.get(mf[2])):
                            return c
                        nonlocal_changed[0] = True
                        exp._count(h, True)
                        return ast.copy_location(ast.Compare(left=copy.deepcopy(mapping[mf[0]]), ops=[ast.In()],
                                                             comparators=[copy.deepcopy(mapping[mf[2]])]), c)
                    try:
                        mapping, prologue, renames = exp._bind(h, c, names)
                    except _CannotExpand:
                        return c
                    if prologue or renames:
                        return c
                    nonlocal_changed[0] = True
                    exp._count(h, True)
                    return ast.copy_location(_SubstNames(mapping, {}).visit(copy.deepcopy(e)), c)
            nonlocal_changed = [False]
            # only the statement's own expressions (sub-statements are handled when their list is processed)
            for fld, val in ast.iter_fields(s):
                if fld in ("body", "orelse", "finalbody", "handlers"):
                    continue
                if isinstance(val, ast.AST):
                    setattr(s, fld, R().visit(val))
                elif isinstance(val, list):
                    setattr(s, fld, [R().visit(v) if isinstance(v, ast.AST) else v for v in val])
            if nonlocal_changed[0]:
                changed = True

        def hoistable_call(s):
            """(call, setter) for a helper call that is evaluated first in statement s and may be hoisted"""
            def first_call(e):
                # leftmost-innermost evaluation: accept the call if everything evaluated before it is stable
                if isinstance(e, ast.Call):
                    h = self._helper_call(e, helpers)
                    if h is not None:
                        return e
                    if not _stable(e.func) and not (isinstance(e.func, ast.Attribute) and _stable(e.func.value)):
                        return first_call(e.func)
                    for a in e.args:
                        if _stable(a):
                            continue
                        return first_call(a)
                    for k in e.keywords:
                        if _stable(k.value):
                            continue
                        return first_call(k.value)
                    return None
                if isinstance(e, ast.UnaryOp):
                    return first_call(e.operand)
                if isinstance(e, ast.BinOp):
                    return first_call(e.left) if not _stable(e.left) else first_call(e.right)
                if isinstance(e, ast.Compare):
                    if not _stable(e.left):
                        return first_call(e.left)
                    for c in e.comparators[:1]:
                        return first_call(c)
                if isinstance(e, ast.BoolOp):
                    return first_call(e.values[0])
                if isinstance(e, ast.Subscript):
                    return first_call(e.value) if not _stable(e.value) else first_call(e.slice)
                if isinstance(e, (ast.Tuple, ast.List)):
                    for x in e.elts:
                        if _stable(x):
                            continue
                        return first_call(x)
                if isinstance(e, ast.Attribute):
                    return first_call(e.value)
                return None
            if isinstance(s, ast.Expr):
                return first_call(s.value)
            if isinstance(s, (ast.Assign, ast.AugAssign, ast.Return)) and s.value is not None:
                return first_call(s.value)
            if isinstance(s, ast.If):
                return first_call(s.test)
            if isinstance(s, ast.For):
                return first_call(s.iter)
            return None

        def replace_node(s, old, new):
            class R(ast.NodeTransformer):
                def visit_Call(self, c):
                    if c is old:
                        return new
                    return self.generic_visit(c)
            for fld, val in ast.iter_fields(s):
                if fld in ("body", "orelse", "finalbody", "handlers"):
                    continue
                if isinstance(val, ast.AST):
                    setattr(s, fld, R().visit(val))
                elif isinstance(val, list):
                    setattr(s, fld, [R().visit(v) if isinstance(v, ast.AST) else v for v in val])

        def process(stmts):
            nonlocal changed
            out = []
            for s in stmts:
                expr_level(s)
                produced = None
                try:
                    if isinstance(s, ast.Expr) and self._helper_call(s.value, helpers):
                        h = self._helper_call(s.value, helpers)

                        def mk(v):
                            if v is None or _stable(v):
                                return []
                            return [ast.copy_location(ast.Expr(value=v), s)]
                        produced = self._instantiate(h, s.value, names, mk)
                    elif isinstance(s, ast.Assign) and self._helper_call(s.value, helpers):
                        h = self._helper_call(s.value, helpers)
                        targets = s.targets

                        def mk(v, targets=targets, s=s):
                            val = v if v is not None else ast.Constant(value=None)
                            return [ast.copy_location(ast.Assign(targets=copy.deepcopy(targets), value=val), s)]
                        rn = None
                        if len(targets) == 1 and isinstance(targets[0], ast.Name):
                            rn = targets[0].id
                        elif len(targets) == 1 and isinstance(targets[0], ast.Tuple) and all(isinstance(e, ast.Name) for e in targets[0].elts):
                            rn = [e.id for e in targets[0].elts]
                        produced = self._instantiate(h, s.value, names, mk, result_name=rn)

                        def self_assign(p_):
                            if not (isinstance(p_, ast.Assign) and len(p_.targets) == 1):
                                return False
                            t_, v_ = p_.targets[0], p_.value
                            if isinstance(t_, ast.Name) and isinstance(v_, ast.Name):
                                return t_.id == v_.id
                            if isinstance(t_, ast.Tuple) and isinstance(v_, ast.Tuple) and len(t_.elts) == len(v_.elts):
                                return all(isinstance(a, ast.Name) and isinstance(b, ast.Name) and a.id == b.id
                                           for a, b in zip(t_.elts, v_.elts))
                            return False
                        produced = [p_ for p_ in produced if not self_assign(p_)]
                        if not _always_returns(h.body()):
                            # falling off the end returns None
                            if _has_return(h.body()):
                                raise _CannotExpand("implicit None result on some paths")
                            produced = produced + mk(None)
                    elif isinstance(s, ast.Return) and s.value is not None and self._helper_call(s.value, helpers):
                        h = self._helper_call(s.value, helpers)
                        produced = self._instantiate(h, s.value, names, None, keep_returns=True)
                        if not _always_returns(h.body()):
                            produced.append(ast.copy_location(ast.Return(value=None), s))
                    elif isinstance(s, ast.Return) and isinstance(s.value, ast.UnaryOp) and isinstance(s.value.op, ast.Not) \
                            and self._helper_call(s.value.operand, helpers):
                        # `return not helper(...)`: the helper's body with every result negated
                        h = self._helper_call(s.value.operand, helpers)
                        if not _always_returns(h.body()):
                            raise _CannotExpand("negated result not returned on every path")
                        produced = self._instantiate(h, s.value.operand, names, None, keep_returns=True)

                        class _NegRet(ast.NodeTransformer):
                            def visit_FunctionDef(self, n):
                                return n
                            visit_AsyncFunctionDef = visit_ClassDef = visit_Lambda = visit_FunctionDef

                            def visit_Return(self, r):
                                v = r.value if r.value is not None else ast.Constant(value=None)
                                if isinstance(v, ast.Constant):
                                    nv = ast.Constant(value=not v.value)
                                else:
                                    nv = ast.UnaryOp(op=ast.Not(), operand=v)
                                return ast.copy_location(ast.Return(value=ast.copy_location(nv, r)), r)
                        produced = [_NegRet().visit(p_) for p_ in produced]
                    else:
                        c = hoistable_call(s)
                        if c is not None:
                            h = self._helper_call(c, helpers)
                            if not _always_returns(h.body()):
                                raise _CannotExpand("result used but not returned on every path")
                            self.counter += 1
                            tmp = "%s_r%d" % (h.name.strip("_"), self.counter)

                            def mk(v, tmp=tmp, s=s):
                                val = v if v is not None else ast.Constant(value=None)
                                return [ast.copy_location(ast.Assign(targets=[ast.Name(id=tmp, ctx=ast.Store())], value=val), s)]
                            pre = self._instantiate(h, c, names, mk)
                            replace_node(s, c, ast.copy_location(ast.Name(id=tmp, ctx=ast.Load()), c))
                            names.add(tmp)
                            produced = pre + [s]
                            self._count(h, True)
                            changed = True
                            # sub-blocks of s still need processing
                            for fld in ("body", "orelse", "finalbody"):
                                b = getattr(s, fld, None)
                                if isinstance(b, list) and b and isinstance(b[0], ast.stmt):
                                    setattr(s, fld, process(b))
                            out.extend(produced)
                            continue
                except _CannotExpand:
                    produced = None
                if produced is not None:
                    self._count(h, True)
                    changed = True
                    for p in produced:
                        for x in ast.walk(p):
                            if isinstance(x, ast.Name):
                                names.add(x.id)
                    out.extend(process(produced) if False else produced)
                    continue
                for fld in ("body", "orelse", "finalbody"):
                    b = getattr(s, fld, None)
                    if isinstance(b, list) and b and isinstance(b[0], ast.stmt):
                        setattr(s, fld, process(b))
                for hd in getattr(s, "handlers", []) or []:
                    hd.body = process(hd.body)
                out.append(s)
            return out

        fn.body = process(fn.body)
        return changed

    def _count(self, h, ok):
        k = alpha.function_key(h.rel, h.parts)
        d = self.report.setdefault(k, {"expanded": 0, "left": 0})
        d["expanded" if ok else "left"] += 1

    def run(self):
        helpers = self.new_helpers()
        if not helpers:
            return {}
        # a read of a new property is the call of its getter
        props = {n for n, h in helpers.items() if h.is_property}
        synthetic = []
        if props:
            exp_ = self

            class P(ast.NodeTransformer):
                def visit_Attribute(self, a):
                    self.generic_visit(a)
                    if a.attr in props and isinstance(a.ctx, ast.Load):
                        if getattr(helpers[a.attr], "scoped", False) and not exp_._scoped_ok(helpers[a.attr], a):
                            return a
                        if isinstance(a.value, ast.Name) and a.value.id in exp_._imported:
                            return a   # `module.name`: a module attribute that happens to share the property's name
                        c = ast.copy_location(ast.Call(func=a, args=[], keywords=[]), a)
                        synthetic.append(c)
                        return c
                    return a
            for rel, tree in self.trees.items():
                self._imported = set()
                for st in tree.body:
                    if isinstance(st, (ast.Import, ast.ImportFrom)):
                        for al in st.names:
                            self._imported.add((al.asname or al.name).split(".")[0])
                for parts, fn in alpha.walk_functions(tree):
                    if fn.name in props:
                        continue
                    self._cur_parts = parts
                    fn.body = [P().visit(st) for st in fn.body]
        for _ in range(MAX_ROUNDS):
            any_change = False
            for rel, tree in self.trees.items():
                for parts, fn in alpha.walk_functions(tree):
                    self._cur_parts = parts
                    if self.expand_in_function(fn, helpers):
                        any_change = True
            if not any_change:
                break
        # property reads that could not be expanded are reads again
        if synthetic:
            left = {id(c) for c in synthetic}

            class U(ast.NodeTransformer):
                def visit_Call(self, c):
                    self.generic_visit(c)
                    if id(c) in left:
                        return c.func
                    return c
            for rel, tree in self.trees.items():
                for parts, fn in alpha.walk_functions(tree):
                    fn.body = [U().visit(st) for st in fn.body]
        # drop helpers that are referenced nowhere any more
        for name, h in helpers.items():
            refs = 0
            for rel, tree in self.trees.items():
                for n in ast.walk(tree):
                    if isinstance(n, ast.Attribute) and n.attr == name:
                        refs += 1
                    elif isinstance(n, ast.Name) and n.id == name:
                        refs += 1
            k = alpha.function_key(h.rel, h.parts)
            self.report.setdefault(k, {"expanded": 0, "left": 0})["left"] = refs
            if refs == 0 and self.report[k]["expanded"]:
                owner = h.cls_node.body if h.cls_node is not None else self.trees[h.rel].body
                if h.node in owner:
                    owner.remove(h.node)
                    if not owner:
                        owner.append(ast.Pass())
                self.report[k]["dropped"] = True
        for tree in self.trees.values():
            ast.fix_missing_locations(tree)
        return self.report


def expand_new_helpers(trees):
    """trees: {relpath: module ast}.  Returns {helper key: {"expanded": n, "left": n, "dropped": bool}}"""
    ref = load_func_ref()
    if ref is None:
        return {}
    return _Expander(trees, ref).run()


# --------------------------------------------------------------------------------------------- new alias locals
def _chain(e):
    """attribute chain rooted in a name (a.b.c), else None"""
    if isinstance(e, ast.Attribute):
        r = e
        names = []
        while isinstance(r, ast.Attribute):
            names.append(r.attr)
            r = r.value
        if isinstance(r, ast.Name):
            return r.id, list(reversed(names))
    return None


def _mutable_attrs(trees):
    """(stored, computed, classes): attribute names assigned / deleted / aug-assigned anywhere outside an
    __init__; names of properties and methods (reading them runs code); and per class name its bases, the
    attributes its __init__ assigns on self and its properties / methods"""
    stored, computed, classes = {}, set(), {}
    from .resolve import NAMING_VARS
    for rel, tree in trees.items():
        for c in ast.walk(tree):
            if isinstance(c, ast.ClassDef):
                info = classes.setdefault(c.name, {"bases": [], "plain": set(), "computed": set()})
                info["bases"] += [ast.unparse(b).split(".")[-1] for b in c.bases]
                for m in c.body:
                    if isinstance(m, (ast.FunctionDef, ast.AsyncFunctionDef)):
                        if m.name == "__init__":
                            for n in ast.walk(m):
                                if isinstance(n, ast.Attribute) and isinstance(n.ctx, ast.Store) and \
                                        isinstance(n.value, ast.Name) and n.value.id == "self":
                                    info["plain"].add(n.attr)
                        else:
                            info["computed"].add(m.name)
                    elif isinstance(m, ast.Assign):
                        for t in m.targets:
                            if isinstance(t, ast.Name):
                                info["plain"].add(t.id)
        imported = set()
        for st in tree.body:
            if isinstance(st, ast.Import):
                imported |= {(a.asname or a.name).split(".")[0] for a in st.names}
            elif isinstance(st, ast.ImportFrom):
                imported |= {a.asname or a.name for a in st.names}
        for parts, fn in alpha.walk_functions(tree):
            deco = _decorators(fn)
            if "property" in deco or any(d.endswith(".setter") for d in deco) or len(parts) == 2:
                computed.add(fn.name)
            if fn.name == "__init__":
                continue
            for n in ast.walk(fn):
                if isinstance(n, ast.Attribute) and isinstance(n.ctx, (ast.Store, ast.Del)):
                    if isinstance(n.value, ast.Name) and n.value.id in imported:
                        continue  # a module global (config.simulated), not an instance attribute
                    r = n.value
                    while isinstance(r, (ast.Attribute, ast.Subscript)):
                        r = r.value
                    owner = parts[0] if len(parts) == 2 else None
                    if isinstance(r, ast.Name) and r is n.value:
                        rc = owner if r.id == "self" else NAMING_VARS.get(r.id)
                    else:
                        rc = None
                    # (class of the receiver if its name tells, class whose method contains the store)
                    stored.setdefault(n.attr, set()).add((rc, owner))
    return stored, computed, classes


def _family(classes, name):
    """the class, its ancestors and all descendants (by name)"""
    fam, todo = set(), [name]
    while todo:
        c = todo.pop()
        if c in fam or c not in classes:
            continue
        fam.add(c)
        todo += classes[c]["bases"]
    changed = True
    while changed:
        changed = False
        for c, info in classes.items():
            if c not in fam and any(b in fam for b in info["bases"]):
                # descendants of the class itself (not of its ancestors) - approximated by one closure
                fam.add(c)
                changed = True
    return fam


# locals that, by the naming used throughout the package, hold betfairlightweight / betdaq resource objects
# (plain data records built by the client library): their attributes are plain reads
EXTERNAL_ROOTS = {"current_order", "market_book", "market_catalogue", "runner", "instruction_report", "cleared_order",
                  "cleared_orders", "current_orders", "response", "simulated_response", "cancel_instruction_report",
                  "place_instruction_report", "market_definition", "avail"}


def _plain_chain(root_cls, attrs, stored, computed, classes):
    """every hop of the chain reads a plain attribute that nothing assigns outside a constructor"""
    from .resolve import NAMING_ATTRS
    cls = root_cls
    for a in attrs:
        if cls is not None and cls in classes:
            fam = _family(classes, cls)
            # a store through a receiver of this family, or through an unknown receiver inside the family's own code
            if any((rc in fam) or (rc is None and owner in fam) for rc, owner in stored.get(a, ())):
                return False
            if any(a in classes[c]["computed"] for c in fam):
                return False
            if not any(a in classes[c]["plain"] for c in fam):
                return False
        elif a in computed or a in stored:
            return False
        cls = NAMING_ATTRS.get(a)
    return True


def _external_field_stored(trees, root, attr):
    """does the package assign `.attr` through a chain that starts at a name `root`"""
    for tree in trees.values():
        for n in ast.walk(tree):
            if isinstance(n, ast.Attribute) and isinstance(n.ctx, (ast.Store, ast.Del)) and n.attr == attr:
                b = n.value
                while isinstance(b, ast.Attribute):
                    b = b.value
                if isinstance(b, ast.Name) and b.id == root:
                    return True
    return False


def propagate_new_aliases(trees):
    """replace locals that are new (not in the reference naming), bound once to a plain attribute chain and
    only read, by the chain.  Returns {function key: {local: chain text}}"""
    ref = alpha.load_ref()
    fref = load_func_ref()
    if fref is None:
        return {}
    stored_attrs, computed_attrs, classes = _mutable_attrs(trees)
    from .resolve import NAMING_VARS
    applied = {}
    for rel, tree in trees.items():
        for parts, fn in alpha.walk_functions(tree):
            k = alpha.function_key(rel, parts)
            if k not in fref:
                continue
            known = set((ref.get(k) or {}).values())
            params = alpha.params_of(fn)
            stores = {}
            for n in _own(fn):
                if isinstance(n, ast.Name) and isinstance(n.ctx, (ast.Store, ast.Del)):
                    stores.setdefault(n.id, []).append(n)
                elif isinstance(n, ast.ExceptHandler) and n.name:
                    stores.setdefault(n.name, []).append(n)
            cands = {}
            def chain_ok(e):
                ch = _chain(e)
                if ch is None:
                    return False
                root, attrs = ch
                root_cls = parts[0] if (root == "self" and len(parts) == 2) else NAMING_VARS.get(root)
                if root in EXTERNAL_ROOTS and root_cls is None and 1 <= len(attrs) <= 3:
                    # a field of a client-library record (or of a record nested in it): plain, unless the package
                    # assigns one of these fields through this name
                    if not any(_external_field_stored(trees, root, a) for a in attrs):
                        return name_ok(root)
                if not _plain_chain(root_cls, attrs, stored_attrs, computed_attrs, classes):
                    return False
                return name_ok(root)

            def name_ok(root):
                # the root must not be rebound after the binding: at most one binding in the function, or a
                # parameter that is never assigned
                if root != "self" and len(stores.get(root, [])) > 1:
                    return False
                if root in params and stores.get(root):
                    return False
                return True

            def value_ok(e):
                if isinstance(e, ast.Tuple) and e.elts:
                    return all(isinstance(x, ast.Constant) or (isinstance(x, ast.Name) and name_ok(x.id)) or chain_ok(x)
                               for x in e.elts)
                return chain_ok(e)

            for s in _own(fn, ast.Assign):
                if len(s.targets) == 1 and isinstance(s.targets[0], ast.Name):
                    v = s.targets[0].id
                    if v in known or v in params or len(stores.get(v, [])) != 1:
                        continue
                    if not value_ok(s.value):
                        continue
                    cands[v] = (s, s.value)
            if not cands:
                continue
            # chains may refer to other aliases: resolve in definition order
            mapping = {}
            for v, (s, val) in sorted(cands.items(), key=lambda x: (x[1][0].lineno, x[1][0].col_offset)):
                mapping[v] = _SubstNames(dict(mapping), {}).visit(copy.deepcopy(val))

            class Drop(ast.NodeTransformer):
                def visit_FunctionDef(self, n):
                    return n
                visit_AsyncFunctionDef = visit_ClassDef = visit_FunctionDef

                def visit_Assign(self, n):
                    if any(n is s for s, _ in cands.values()):
                        return None
                    return self.generic_visit(n)
            sub = _SubstNames(mapping, {})
            new_body = []
            for st in fn.body:
                st = Drop().visit(st)
                if st is None:
                    continue
                new_body.append(sub.visit(st))
            fn.body = new_body or [ast.Pass()]
            _fill_empty_blocks(fn)
            applied[k] = {v: ast.unparse(e) for v, e in mapping.items()}
    for tree in trees.values():
        ast.fix_missing_locations(tree)
    return applied


def _fill_empty_blocks(fn):
    for n in ast.walk(fn):
        for fld in ("body", "orelse", "finalbody"):
            b = getattr(n, fld, None)
            if isinstance(b, list) and fld == "body" and not b and isinstance(n, (ast.If, ast.For, ast.While, ast.With, ast.Try, ast.ExceptHandler)):
                b.append(ast.Pass())


# --------------------------------------------------------------------------------------------- quantifiers
def desugar_quantifiers(trees):
    """`return all(E for x in IT if C)` is the loop `for x in IT: if C: if not E: return False` + `return True`
    (and dually for any): one shape for the rules that walk the loop.  Only the statement form `return all(..)` /
    `return any(..)` with a single generator is rewritten."""
    n = 0

    def rewrite(stmts):
        nonlocal n
        out = []
        for s in stmts:
            for fld in ("body", "orelse", "finalbody"):
                b = getattr(s, fld, None)
                if isinstance(b, list) and b and isinstance(b[0], ast.stmt):
                    setattr(s, fld, rewrite(b))
            for h in getattr(s, "handlers", []) or []:
                h.body = rewrite(h.body)
            v = s.value if isinstance(s, ast.Return) else None
            if (isinstance(v, ast.Call) and isinstance(v.func, ast.Name) and v.func.id in ("all", "any") and len(v.args) == 1
                    and not v.keywords and isinstance(v.args[0], (ast.GeneratorExp, ast.ListComp)) and len(v.args[0].generators) == 1
                    and not v.args[0].generators[0].is_async):
                g = v.args[0].generators[0]
                is_all = v.func.id == "all"
                test = ast.UnaryOp(op=ast.Not(), operand=v.args[0].elt) if is_all else v.args[0].elt
                inner = [ast.If(test=test, body=[ast.Return(value=ast.Constant(value=not is_all))], orelse=[])]
                for c in reversed(g.ifs):
                    inner = [ast.If(test=c, body=inner, orelse=[])]
                loop = ast.For(target=g.target, iter=g.iter, body=inner, orelse=[], type_comment=None)
                for x in [loop, ast.Return(value=ast.Constant(value=is_all))]:
                    for y in ast.walk(x):
                        if not hasattr(y, "lineno"):
                            ast.copy_location(y, s)
                    out.append(ast.copy_location(x, s))
                # the loop target is stored now
                for y in ast.walk(loop.target):
                    if isinstance(y, ast.Name):
                        y.ctx = ast.Store()
                n += 1
                continue
            out.append(s)
        return out
    for tree in trees.values():
        for parts, fn in alpha.walk_functions(tree):
            fn.body = rewrite(fn.body)
        ast.fix_missing_locations(tree)
    return n


# --------------------------------------------------------------------------------------------- accumulator loops
def comprehension_form(trees):
    """`x = []` directly followed by `for T in IT:` whose body only filters (`if c: continue`, nested `if c:`)
    and ends in the single statement `x.append(E)` is the comprehension `x = [E for T in IT if ...]`; likewise
    `x = {}` / `x[K] = V` is a dict comprehension.  The loop variable must not be used after the loop (in a
    comprehension it does not leak).  One shape for code that builds a filtered list, whichever way it is
    written."""
    n = 0

    def pieces(body):
        """([conditions], final statement) or None"""
        conds = []
        from .cfg import is_logging_stmt
        while True:
            body = [b for b in body if not isinstance(b, ast.Pass) and not is_logging_stmt(b)]
            if len(body) == 1 and isinstance(body[0], ast.If) and not body[0].orelse:
                conds.append(body[0].test)
                body = body[0].body
                continue
            if len(body) >= 2 and isinstance(body[0], ast.If) and not body[0].orelse and len(body[0].body) == 1 \
                    and isinstance(body[0].body[0], ast.Continue):
                conds.append(_negate(body[0].test))
                body = body[1:]
                continue
            if len(body) == 1:
                return conds, body[0]
            return None

    def names_in(t):
        return {x.id for x in ast.walk(t) if isinstance(x, ast.Name)}

    def rewrite(stmts, fn):
        nonlocal n
        out = []
        i = 0
        while i < len(stmts):
            s = stmts[i]
            for fld in ("body", "orelse", "finalbody"):
                b = getattr(s, fld, None)
                if isinstance(b, list) and b and isinstance(b[0], ast.stmt):
                    setattr(s, fld, rewrite(b, fn))
            for h in getattr(s, "handlers", []) or []:
                h.body = rewrite(h.body, fn)
            nxt = stmts[i + 1] if i + 1 < len(stmts) else None
            if (isinstance(s, ast.Assign) and len(s.targets) == 1 and isinstance(s.targets[0], ast.Name)
                    and isinstance(nxt, ast.For) and not nxt.orelse
                    and ((isinstance(s.value, ast.List) and not s.value.elts) or (isinstance(s.value, ast.Dict) and not s.value.keys)
                         or (isinstance(s.value, ast.Constant) and s.value.value == 0 and not isinstance(s.value.value, bool)))):
                x = s.targets[0].id
                pc = pieces(nxt.body)
                tnames = names_in(nxt.target)
                ok = pc is not None and x not in names_in(nxt.iter) and x not in tnames
                comp = None
                if ok:
                    conds, fin = pc
                    if any(x in names_in(c) for c in conds):
                        ok = False
                    elif isinstance(s.value, ast.List) and isinstance(fin, ast.Expr) and isinstance(fin.value, ast.Call) \
                            and isinstance(fin.value.func, ast.Attribute) and fin.value.func.attr == "append" \
                            and isinstance(fin.value.func.value, ast.Name) and fin.value.func.value.id == x \
                            and len(fin.value.args) == 1 and not fin.value.keywords and x not in names_in(fin.value.args[0]):
                        comp = ast.ListComp(elt=fin.value.args[0], generators=[
                            ast.comprehension(target=nxt.target, iter=nxt.iter, ifs=conds, is_async=0)])
                    elif isinstance(s.value, ast.Constant) and isinstance(fin, ast.AugAssign) and isinstance(fin.op, ast.Add) \
                            and isinstance(fin.target, ast.Name) and fin.target.id == x and isinstance(fin.value, ast.Constant) \
                            and fin.value.value == 1:
                        # a counting loop: x = 0 ... x += 1  is  len([... for T in IT if ...])
                        elt = copy.deepcopy(nxt.target)
                        for y in ast.walk(elt):
                            if isinstance(y, ast.Name):
                                y.ctx = ast.Load()
                        comp = ast.Call(func=ast.Name(id="len", ctx=ast.Load()), args=[ast.ListComp(elt=elt, generators=[
                            ast.comprehension(target=nxt.target, iter=nxt.iter, ifs=conds, is_async=0)])], keywords=[])
                    elif isinstance(s.value, ast.Dict) and isinstance(fin, ast.Assign) and len(fin.targets) == 1 \
                            and isinstance(fin.targets[0], ast.Subscript) and isinstance(fin.targets[0].value, ast.Name) \
                            and fin.targets[0].value.id == x and x not in names_in(fin.targets[0].slice) | names_in(fin.value):
                        comp = ast.DictComp(key=fin.targets[0].slice, value=fin.value, generators=[
                            ast.comprehension(target=nxt.target, iter=nxt.iter, ifs=conds, is_async=0)])
                if ok and comp is not None:
                    # the loop variable must be dead after the loop
                    if _enclosing_uses_ok(fn, nxt, tnames):
                        new = ast.copy_location(ast.Assign(targets=[ast.Name(id=x, ctx=ast.Store())], value=comp), nxt)
                        ast.fix_missing_locations(new)
                        out.append(new)
                        n += 1
                        i += 2
                        continue
            out.append(s)
            i += 1
        return out

    for tree in trees.values():
        for parts, fn in alpha.walk_functions(tree):
            fn.body = rewrite(fn.body, fn)
        ast.fix_missing_locations(tree)
    return n


def _negate(test):
    """the negation of a condition, written without a double negative where there is one"""
    from .astutil import positive
    e, flipped = positive(test)
    if flipped:
        return e
    if isinstance(test, ast.Compare) and len(test.ops) == 1:
        inv = {ast.Eq: ast.NotEq, ast.In: ast.NotIn, ast.Is: ast.IsNot}.get(type(test.ops[0]))
        if inv is not None:
            return ast.copy_location(ast.Compare(left=test.left, ops=[inv()], comparators=list(test.comparators)), test)
    if isinstance(test, ast.BoolOp) and isinstance(test.op, ast.Or):
        return ast.copy_location(ast.BoolOp(op=ast.And(), values=[_negate(v) for v in test.values]), test)
    return ast.copy_location(ast.UnaryOp(op=ast.Not(), operand=test), test)


def _enclosing_uses_ok(fn, loop, tnames):
    """outside the loop the target names are only used under another binding of their own (a later `for` over
    the same name, a comprehension): the value the loop leaves in them is never read"""
    inside = {id(y) for y in ast.walk(loop)}
    covered = set()
    for n in _own(fn):
        binds = set()
        if isinstance(n, (ast.For, ast.AsyncFor)) and n is not loop:
            binds = {y.id for y in ast.walk(n.target) if isinstance(y, ast.Name)}
        elif isinstance(n, (ast.ListComp, ast.SetComp, ast.DictComp, ast.GeneratorExp)):
            binds = {y.id for g in n.generators for y in ast.walk(g.target) if isinstance(y, ast.Name)}
        if binds & tnames:
            for y in ast.walk(n):
                if isinstance(y, ast.Name) and y.id in binds:
                    covered.add(id(y))
    for y in _own(fn, ast.Name):
        if y.id in tnames and id(y) not in inside and id(y) not in covered:
            return False
    return True


# --------------------------------------------------------------------------------------------- single-use temporaries
def inline_new_temporaries(trees):
    """`x = E` directly followed by the only use of x (`return x`, `yield x`, `t = x`, or x as the first
    operand evaluated in the next simple statement) is that statement with E in place of x - for locals
    that are new relative to the reference naming.  Nothing can happen between the two statements."""
    ref = alpha.load_ref()
    fref = load_func_ref()
    if fref is None:
        return 0
    n = 0

    def leftmost(v, name):
        """the load of `name` is the first thing the expression evaluates that is not a plain name / chain"""
        if isinstance(v, ast.Name):
            return v.id == name
        if isinstance(v, ast.Compare):
            return leftmost(v.left, name) or (_stable(v.left) and leftmost(v.comparators[0], name))
        if isinstance(v, ast.BoolOp):
            return leftmost(v.values[0], name)
        if isinstance(v, ast.UnaryOp):
            return leftmost(v.operand, name)
        if isinstance(v, ast.BinOp):
            return leftmost(v.left, name) or (_stable(v.left) and leftmost(v.right, name))
        if isinstance(v, ast.Call):
            parts = [v.func] + list(v.args) + [k.value for k in v.keywords]
            for p_ in parts:
                if isinstance(p_, ast.Name) and p_.id == name:
                    return True
                if not _stable(p_) and not (isinstance(p_, ast.Attribute) and _stable(p_.value)):
                    return False
        return False

    def first_evaluated(stmt, name):
        """is the (single) load of `name` evaluated before anything that could have an effect?"""
        v = None
        if isinstance(stmt, ast.If):
            return leftmost(stmt.test, name)
        if isinstance(stmt, ast.Return):
            v = stmt.value
        elif isinstance(stmt, ast.Expr):
            v = stmt.value.value if isinstance(stmt.value, (ast.Yield, ast.YieldFrom, ast.Await)) else stmt.value
        elif isinstance(stmt, ast.Assign):
            v = stmt.value
        if v is None:
            return False
        return leftmost(v, name)

    for rel, tree in trees.items():
        for parts, fn in alpha.walk_functions(tree):
            k = alpha.function_key(rel, parts)
            if k not in fref:
                continue
            known = set((ref.get(k) or {}).values())
            params = alpha.params_of(fn)
            counts = {}
            for y in _own(fn, ast.Name):
                d = counts.setdefault(y.id, [0, 0])
                d[0 if isinstance(y.ctx, ast.Store) else 1] += 1

            def rewrite(stmts):
                nonlocal n
                out = []
                i = 0
                while i < len(stmts):
                    s = stmts[i]
                    for fld in ("body", "orelse", "finalbody"):
                        b = getattr(s, fld, None)
                        if isinstance(b, list) and b and isinstance(b[0], ast.stmt):
                            setattr(s, fld, rewrite(b))
                    for h in getattr(s, "handlers", []) or []:
                        h.body = rewrite(h.body)
                    nxt = stmts[i + 1] if i + 1 < len(stmts) else None
                    if (isinstance(s, ast.Assign) and len(s.targets) == 1 and isinstance(s.targets[0], ast.Name) and nxt is not None):
                        x = s.targets[0].id
                        if x not in known and x not in params and counts.get(x) == [1, 1] and first_evaluated(nxt, x):
                            if isinstance(nxt, ast.If):
                                nxt.test = _SubstNames({x: s.value}, {}).visit(nxt.test)
                                new = nxt
                            else:
                                new = _SubstNames({x: s.value}, {}).visit(nxt)
                            out.append(new)
                            n += 1
                            i += 2
                            continue
                    out.append(s)
                    i += 1
                return out
            fn.body = rewrite(fn.body)
        ast.fix_missing_locations(tree)
    return n


# --------------------------------------------------------------------------------------------- flags
def thread_new_flags(trees):
    """A new local that is assigned as the last statement of every branch of an if-chain and only tested by the
    `if flag:` (no else) that follows the chain is a merged tail: the tested body is put back into each branch
    under the branch's own expression (`flag = E` -> `if E: BODY`; `flag = False` -> nothing)."""
    ref = alpha.load_ref()
    fref = load_func_ref()
    if fref is None:
        return 0
    n = 0

    def terminal_blocks(block):
        """the statement lists in which control can leave `block` at its end (an if/else as last statement is
        descended into); None if some way out has no block of its own (an `if` without else)"""
        if not block:
            return None
        last = block[-1]
        if isinstance(last, ast.If):
            if not last.orelse:
                return None
            a, b = terminal_blocks(last.body), terminal_blocks(last.orelse)
            if a is None or b is None:
                return None
            return a + b
        return [block]

    def leaves(chain):
        return terminal_blocks([chain])

    for rel, tree in trees.items():
        for parts, fn in alpha.walk_functions(tree):
            k = alpha.function_key(rel, parts)
            if k not in fref:
                continue
            known = set((ref.get(k) or {}).values())
            params = alpha.params_of(fn)
            counts = {}
            for y in _own(fn, ast.Name):
                d = counts.setdefault(y.id, [0, 0])
                d[0 if isinstance(y.ctx, ast.Store) else 1] += 1

            def rewrite(stmts):
                nonlocal n
                out = []
                i = 0
                while i < len(stmts):
                    s = stmts[i]
                    for fld in ("body", "orelse", "finalbody"):
                        b = getattr(s, fld, None)
                        if isinstance(b, list) and b and isinstance(b[0], ast.stmt):
                            setattr(s, fld, rewrite(b))
                    for h in getattr(s, "handlers", []) or []:
                        h.body = rewrite(h.body)
                    nxt = stmts[i + 1] if i + 1 < len(stmts) else None
                    if isinstance(s, ast.If) and isinstance(nxt, (ast.Expr, ast.Assign, ast.Return, ast.AugAssign)):
                        # a new local chosen in the branches and used once, first thing, by the next statement:
                        # that statement goes into the branches with the chosen value in place
                        lv = leaves(s)
                        v_ = getattr(nxt, "value", None)
                        use = _leftmost(v_, lambda x: isinstance(x, ast.Name) and isinstance(x.ctx, ast.Load)
                                        and counts.get(x.id, [0, 0])[1] == 1 and x.id not in known and x.id not in params) if v_ is not None else None
                        if use is None and isinstance(v_, ast.Call) and isinstance(v_.func, ast.Name):
                            use = v_.func if (counts.get(v_.func.id, [0, 0])[1] == 1 and v_.func.id not in known and v_.func.id not in params) else None
                        if use is not None and lv and counts.get(use.id) == [len(lv), 1] and \
                                all(isinstance(b[-1], ast.Assign) and len(b[-1].targets) == 1 and isinstance(b[-1].targets[0], ast.Name)
                                    and b[-1].targets[0].id == use.id for b in lv):
                            idx = [i for i, x in enumerate(ast.walk(nxt)) if x is use][0]
                            for b in lv:
                                c = copy.deepcopy(nxt)
                                tgt = list(ast.walk(c))[idx]
                                b[-1] = ast.copy_location(_ReplaceNode(tgt, b[-1].value).visit(c), b[-1])
                            out.append(s)
                            n += 1
                            i += 2
                            continue
                    flag_test = None
                    if isinstance(s, ast.If) and isinstance(nxt, ast.If):
                        if isinstance(nxt.test, ast.Name):
                            flag_test = (nxt.test.id, True)
                        elif isinstance(nxt.test, ast.UnaryOp) and isinstance(nxt.test.op, ast.Not) and isinstance(nxt.test.operand, ast.Name):
                            flag_test = (nxt.test.operand.id, False)
                    if flag_test is not None:
                        f, pol = flag_test
                        lv = leaves(s)
                        if (lv and f not in known and f not in params and counts.get(f) == [len(lv), 1]
                                and all(isinstance(b[-1], ast.Assign) and len(b[-1].targets) == 1 and isinstance(b[-1].targets[0], ast.Name)
                                        and b[-1].targets[0].id == f for b in lv)):
                            for b in lv:
                                e = b[-1].value
                                if isinstance(e, ast.Constant):
                                    chosen = nxt.body if bool(e.value) == pol else nxt.orelse
                                    repl = copy.deepcopy(chosen)
                                    b[-1:] = repl if (repl or len(b) > 1) else [ast.copy_location(ast.Pass(), b[-1])]
                                else:
                                    test = e if pol else _negate(e)
                                    b[-1] = ast.copy_location(ast.If(test=test, body=copy.deepcopy(nxt.body) or [ast.Pass()],
                                                                     orelse=copy.deepcopy(nxt.orelse)), b[-1])
                            out.append(s)
                            n += 1
                            i += 2
                            continue
                    out.append(s)
                    i += 1
                return out
            fn.body = rewrite(fn.body)
        ast.fix_missing_locations(tree)
    return n


# --------------------------------------------------------------------------------------------- new module constants
CONST_REF_FILE = os.path.join(os.path.dirname(os.path.abspath(__file__)), "constants_ref.json")
_CREF = None


def load_const_ref():
    global _CREF
    if _CREF is None:
        try:
            with open(CONST_REF_FILE) as fh:
                _CREF = {k: set(v) for k, v in json.load(fh).items()}
        except Exception:
            _CREF = None
    return _CREF


def _module_constants(tree):
    out = {}
    for s in tree.body:
        if isinstance(s, ast.Assign) and len(s.targets) == 1 and isinstance(s.targets[0], ast.Name):
            out.setdefault(s.targets[0].id, []).append(s)
    return out


def build_constant_reference(root, pkg="flumine"):
    out = {}
    pkgdir = os.path.join(root, pkg)
    for dp, dn, fns in sorted(os.walk(pkgdir)):
        dn.sort()
        for f in sorted(fns):
            if f.endswith(".py"):
                path = os.path.join(dp, f)
                rel = os.path.relpath(path, root)
                out[rel] = sorted(_module_constants(ast.parse(open(path, encoding="utf-8").read())))
    return out


def _literal(e):
    if isinstance(e, ast.Constant):
        return True
    if isinstance(e, (ast.List, ast.Tuple, ast.Set)):
        return all(_literal(x) for x in e.elts)
    if isinstance(e, ast.Attribute):   # OrderStatus.EXECUTABLE and the like
        return _stable(e)
    if isinstance(e, ast.Call) and not e.keywords and ast.unparse(e.func) in (
            "itemgetter", "operator.itemgetter", "attrgetter", "operator.attrgetter", "frozenset", "tuple"):
        return all(_literal(x) for x in e.args)     # stateless key functions / immutable collections of literals
    if isinstance(e, ast.Lambda):                   # a stateless key function: reads only its own parameters
        own = {a.arg for a in e.args.args}
        return not e.args.defaults and all(n.id in own for n in ast.walk(e.body) if isinstance(n, ast.Name))
    return False


def inline_new_constants(trees):
    """a module-level name that is new relative to the reference, bound once to a literal (constants, enum
    members, lists / tuples / sets of them) and never written or mutated, is replaced by the literal where the
    module's functions read it (a duplicated literal hoisted to a constant reads as the literal again)"""
    cref = load_const_ref()
    if cref is None:
        return {}
    applied = {}
    mut = {"append", "extend", "insert", "pop", "remove", "clear", "update", "add", "discard", "sort", "reverse"}
    for rel, tree in trees.items():
        known = cref.get(rel, set())
        consts = _module_constants(tree)
        for name, defs in consts.items():
            if name in known or len(defs) != 1 or not _literal(defs[0].value):
                continue
            bad = False
            for n in ast.walk(tree):
                if isinstance(n, ast.Name) and n.id == name and isinstance(n.ctx, (ast.Store, ast.Del)) and n is not defs[0].targets[0]:
                    bad = True
                if isinstance(n, ast.Call) and isinstance(n.func, ast.Attribute) and n.func.attr in mut \
                        and isinstance(n.func.value, ast.Name) and n.func.value.id == name:
                    bad = True
                if isinstance(n, (ast.Global, ast.Nonlocal)) and name in n.names:
                    bad = True
            if bad:
                continue
            for parts, fn in alpha.walk_functions(tree):
                if name in alpha.params_of(fn) or name in alpha.local_names(fn):
                    continue
                sub = _SubstNames({name: defs[0].value}, {})
                fn.body = [sub.visit(st) for st in fn.body]
            applied.setdefault(rel, []).append(name)
        ast.fix_missing_locations(tree)
    return applied


# --------------------------------------------------------------------------------------------- conditional expressions, walrus
def _map_blocks(fn_or_stmt_list, f):
    """apply f(list of statements) -> list to every statement list, innermost first"""
    def rec(stmts):
        for s in stmts:
            if isinstance(s, (ast.FunctionDef, ast.AsyncFunctionDef, ast.ClassDef)):
                continue
            for fld in ("body", "orelse", "finalbody"):
                b = getattr(s, fld, None)
                if isinstance(b, list) and b and isinstance(b[0], ast.stmt):
                    setattr(s, fld, rec(b))
            for h in getattr(s, "handlers", []) or []:
                h.body = rec(h.body)
        return f(stmts)
    return rec(fn_or_stmt_list)


def _leftmost(e, pred):
    """the first sub-expression satisfying pred that the evaluation of e reaches while everything evaluated
    before it is a stable read (names, attribute chains, constants); None if something else comes first"""
    if pred(e):
        return e
    if _stable(e):
        return None
    if isinstance(e, ast.UnaryOp):
        return _leftmost(e.operand, pred)
    if isinstance(e, ast.BinOp):
        return _leftmost(e.left, pred) or (_leftmost(e.right, pred) if _stable(e.left) else None)
    if isinstance(e, ast.Compare):
        seq = [e.left] + list(e.comparators)
        for x in seq:
            r = _leftmost(x, pred)
            if r is not None:
                return r
            if not _stable(x):
                return None
        return None
    if isinstance(e, ast.BoolOp):
        return _leftmost(e.values[0], pred)
    if isinstance(e, ast.Subscript):
        return _leftmost(e.value, pred) or (_leftmost(e.slice, pred) if _stable(e.value) else None)
    if isinstance(e, ast.Attribute):
        return _leftmost(e.value, pred)
    if isinstance(e, (ast.Tuple, ast.List)):
        for x in e.elts:
            r = _leftmost(x, pred)
            if r is not None:
                return r
            if not _stable(x):
                return None
        return None
    if isinstance(e, ast.Call):
        f = e.func
        if not _stable(f) and not (isinstance(f, ast.Attribute) and _stable(f.value)):
            return _leftmost(f, pred)
        for x in list(e.args) + [k.value for k in e.keywords]:
            r = _leftmost(x, pred)
            if r is not None:
                return r
            if not _stable(x):
                return None
        return None
    return None


class _ReplaceNode(ast.NodeTransformer):
    def __init__(self, old, new):
        self.old, self.new = old, new

    def visit(self, node):
        if node is self.old:
            return self.new
        return self.generic_visit(node)


def desugar_conditional_expressions(trees):
    """`T = A if C else B` is `if C: T = A else: T = B`; `return A if C else B` likewise (statement level only:
    a conditional expression nested inside a larger expression stays)."""
    n = 0

    def f(stmts):
        nonlocal n
        out = []
        for s in stmts:
            v = getattr(s, "value", None) if isinstance(s, (ast.Assign, ast.Return, ast.AugAssign, ast.Expr)) else None
            ie = _leftmost(v, lambda x: isinstance(x, ast.IfExp)) if v is not None else None
            simple_targets = not isinstance(s, ast.Assign) or all(isinstance(t, (ast.Name, ast.Attribute)) for t in s.targets)
            if ie is not None and simple_targets:
                def mk(arm):
                    c = copy.deepcopy(s) if arm is ie.orelse else s
                    # the copy for the else-arm must not share nodes with the statement that is rewritten in place
                    return c
                then_s = copy.deepcopy(s)
                else_s = copy.deepcopy(s)
                # locate the conditional expression in the copies by position in the walk
                idx = [i for i, x in enumerate(ast.walk(s)) if x is ie][0]
                ie_then = list(ast.walk(then_s))[idx]
                ie_else = list(ast.walk(else_s))[idx]
                then_s = _ReplaceNode(ie_then, ie_then.body).visit(then_s)
                else_s = _ReplaceNode(ie_else, ie_else.orelse).visit(else_s)
                new = ast.copy_location(ast.If(test=ie.test, body=f([then_s]), orelse=f([else_s])), s)
                out.append(new)
                n += 1
            else:
                out.append(s)
        return out
    for tree in trees.values():
        for parts, fn in alpha.walk_functions(tree):
            fn.body = _map_blocks(fn.body, f)
        ast.fix_missing_locations(tree)
    return n


def desugar_walrus(trees):
    """`if (x := E) is None:` is `x = E` followed by `if x is None:`; a walrus in a later conjunct of an `and`
    splits the test (`if A and (x := E) ...: B else: C` is `if A: x = E; if x ...: B else: C else: C`)."""
    n = 0

    def leftmost_walrus(e):
        """the NamedExpr evaluated first in e (nothing but stable reads before it), else None"""
        if isinstance(e, ast.NamedExpr):
            return e
        if isinstance(e, ast.Compare):
            return leftmost_walrus(e.left) or (leftmost_walrus(e.comparators[0]) if _stable(e.left) else None)
        if isinstance(e, ast.UnaryOp):
            return leftmost_walrus(e.operand)
        if isinstance(e, ast.BoolOp):
            return leftmost_walrus(e.values[0])
        if isinstance(e, ast.Call):
            for p_ in [e.func] + list(e.args):
                w = leftmost_walrus(p_)
                if w is not None:
                    return w
                if not _stable(p_) and not (isinstance(p_, ast.Attribute) and _stable(p_.value)):
                    return None
        if isinstance(e, ast.Attribute):
            return leftmost_walrus(e.value)
        return None

    class Repl(ast.NodeTransformer):
        def __init__(self, w):
            self.w = w

        def visit_NamedExpr(self, x):
            if x is self.w:
                return ast.copy_location(ast.Name(id=x.target.id, ctx=ast.Load()), x)
            return self.generic_visit(x)

    def has_walrus(e):
        return any(isinstance(x, ast.NamedExpr) for x in ast.walk(e))

    def f(stmts):
        nonlocal n
        out = []
        for s in stmts:
            if isinstance(s, ast.If) and has_walrus(s.test):
                done = False
                for _ in range(4):
                    w = leftmost_walrus(s.test)
                    if w is not None:
                        out.append(ast.copy_location(ast.Assign(targets=[ast.Name(id=w.target.id, ctx=ast.Store())], value=w.value), s))
                        s.test = Repl(w).visit(s.test)
                        n += 1
                        done = True
                        continue
                    t = s.test
                    if isinstance(t, ast.BoolOp) and isinstance(t.op, ast.And) and has_walrus(t) and not has_walrus(t.values[0]):
                        rest = t.values[1:]
                        inner_test = rest[0] if len(rest) == 1 else ast.copy_location(ast.BoolOp(op=ast.And(), values=rest), t)
                        inner = ast.copy_location(ast.If(test=inner_test, body=s.body, orelse=copy.deepcopy(s.orelse)), s)
                        s.test, s.body = t.values[0], f([inner])
                        n += 1
                        done = True
                    break
                out.append(s)
                continue
            if isinstance(s, (ast.Assign, ast.Expr, ast.Return)) and s.value is not None and has_walrus(s.value):
                w = leftmost_walrus(s.value)
                if w is not None:
                    out.append(ast.copy_location(ast.Assign(targets=[ast.Name(id=w.target.id, ctx=ast.Store())], value=w.value), s))
                    s.value = Repl(w).visit(s.value)
                    n += 1
            out.append(s)
        return out
    for tree in trees.values():
        for parts, fn in alpha.walk_functions(tree):
            fn.body = _map_blocks(fn.body, f)
        ast.fix_missing_locations(tree)
    return n


# --------------------------------------------------------------------------------------------- boolean returns
def _strict_bool(e):
    """an expression whose value is a real bool: comparisons, `not`, and/or of such, True/False"""
    if isinstance(e, ast.Compare):
        return True
    if isinstance(e, ast.UnaryOp) and isinstance(e.op, ast.Not):
        return True
    if isinstance(e, ast.BoolOp):
        return all(_strict_bool(v) for v in e.values)
    if isinstance(e, ast.Constant) and isinstance(e.value, bool):
        return True
    return False


def desugar_boolean_returns(trees):
    """`return <and/or/not combination of comparisons>` is `if <it>: return True else: return False` (only
    for expressions whose value is a real bool, so the rewrite is exact): the branch structure the CFG-based
    rules read is the same whether a predicate is written as a chain of early returns or as one expression."""
    n = 0

    def f(stmts):
        nonlocal n
        out = []
        for s in stmts:
            if isinstance(s, ast.Return) and isinstance(s.value, (ast.BoolOp,)) and _strict_bool(s.value):
                new = ast.copy_location(ast.If(test=s.value,
                                               body=[ast.copy_location(ast.Return(value=ast.Constant(value=True)), s)],
                                               orelse=[ast.copy_location(ast.Return(value=ast.Constant(value=False)), s)]), s)
                out.append(new)
                n += 1
            else:
                out.append(s)
        return out
    for tree in trees.values():
        for parts, fn in alpha.walk_functions(tree):
            fn.body = _map_blocks(fn.body, f)
        ast.fix_missing_locations(tree)
    return n


# --------------------------------------------------------------------------------------------- chained assignment
def split_chained_assignments(trees):
    """`a = b = V` with a constant / stable V is `a = V` followed by `b = V` (same left-to-right order of stores)"""
    n = 0

    def f(stmts):
        nonlocal n
        out = []
        for s in stmts:
            pure_item = isinstance(s.value, ast.Subscript) and _stable(s.value.value) and isinstance(s.value.slice, ast.Constant) \
                if isinstance(s, ast.Assign) else False
            if isinstance(s, ast.Assign) and len(s.targets) > 1 and (_stable(s.value) or pure_item):
                for t in s.targets:
                    out.append(ast.copy_location(ast.Assign(targets=[t], value=copy.deepcopy(s.value)), s))
                n += 1
            else:
                out.append(s)
        return out
    for tree in trees.values():
        for parts, fn in alpha.walk_functions(tree):
            fn.body = _map_blocks(fn.body, f)
        ast.fix_missing_locations(tree)
    return n


# --------------------------------------------------------------------------------------------- append loops
def extend_form(trees):
    """`for T in IT: L.append(T)` (nothing else in the body, T a plain name not used afterwards) is `L.extend(IT)`"""
    n = 0

    def f(stmts, fn):
        nonlocal n
        out = []
        for s in stmts:
            if isinstance(s, ast.For) and not s.orelse and isinstance(s.target, ast.Name) and len(s.body) == 1 \
                    and isinstance(s.body[0], ast.Expr) and isinstance(s.body[0].value, ast.Call):
                c = s.body[0].value
                if isinstance(c.func, ast.Attribute) and c.func.attr == "append" and len(c.args) == 1 and not c.keywords \
                        and isinstance(c.args[0], ast.Name) and c.args[0].id == s.target.id and _stable(c.func.value) \
                        and _enclosing_uses_ok(fn, s, {s.target.id}):
                    new = ast.Expr(value=ast.Call(func=ast.Attribute(value=c.func.value, attr="extend", ctx=ast.Load()),
                                                  args=[s.iter], keywords=[]))
                    out.append(ast.copy_location(new, s))
                    ast.fix_missing_locations(out[-1])
                    n += 1
                    continue
            out.append(s)
        return out
    for tree in trees.values():
        for parts, fn in alpha.walk_functions(tree):
            fn.body = _map_blocks(fn.body, lambda st, fn=fn: f(st, fn))
        ast.fix_missing_locations(tree)
    return n


# --------------------------------------------------------------------------------------------- parallel assignment, tested flags
def split_parallel_assignments(trees):
    """`a, b = X, Y` (plain names, Y not reading a) is `a = X` followed by `b = Y`"""
    n = 0

    def f(stmts):
        nonlocal n
        out = []
        for s in stmts:
            if isinstance(s, ast.Assign) and len(s.targets) == 1 and isinstance(s.targets[0], ast.Tuple) \
                    and isinstance(s.value, ast.Tuple) and len(s.targets[0].elts) == len(s.value.elts) \
                    and all(isinstance(t, ast.Name) for t in s.targets[0].elts):
                names = [t.id for t in s.targets[0].elts]
                ok = True
                for i, v in enumerate(s.value.elts):
                    used = {y.id for y in ast.walk(v) if isinstance(y, ast.Name)}
                    if used & set(names[:i]) or isinstance(v, ast.Starred):
                        ok = False
                if ok:
                    for t, v in zip(s.targets[0].elts, s.value.elts):
                        out.append(ast.copy_location(ast.Assign(targets=[t], value=v), s))
                    n += 1
                    continue
            out.append(s)
        return out
    for tree in trees.values():
        for parts, fn in alpha.walk_functions(tree):
            fn.body = _map_blocks(fn.body, f)
        ast.fix_missing_locations(tree)
    return n


def branch_on_condition(trees):
    """`f = C` directly followed by `if f:` / `if not f:` (C a comparison, `not`, isinstance(..) - a real bool)
    is `if C: f = True; ... else: f = False; ...`: the flag is set in the branches it selects"""
    n = 0

    def strict(e):
        return _strict_bool(e) or (isinstance(e, ast.Call) and isinstance(e.func, ast.Name) and e.func.id in ("isinstance", "hasattr", "callable", "issubclass"))

    def f(stmts):
        nonlocal n
        out = []
        i = 0
        while i < len(stmts):
            s = stmts[i]
            nxt = stmts[i + 1] if i + 1 < len(stmts) else None
            if isinstance(s, ast.Assign) and len(s.targets) == 1 and isinstance(s.targets[0], ast.Name) and strict(s.value) \
                    and not isinstance(s.value, ast.Constant) and isinstance(nxt, ast.If):
                x = s.targets[0].id
                t = nxt.test
                pol = None
                if isinstance(t, ast.Name) and t.id == x:
                    pol = True
                elif isinstance(t, ast.UnaryOp) and isinstance(t.op, ast.Not) and isinstance(t.operand, ast.Name) and t.operand.id == x:
                    pol = False
                if pol is not None:
                    def setf(v):
                        return ast.copy_location(ast.Assign(targets=[ast.Name(id=x, ctx=ast.Store())], value=ast.Constant(value=v)), s)
                    nxt.test = s.value if pol else _negate(s.value)
                    nxt.body = [setf(pol)] + nxt.body
                    nxt.orelse = [setf(not pol)] + nxt.orelse
                    out.append(nxt)
                    n += 1
                    i += 2
                    continue
            out.append(s)
            i += 1
        return out
    for tree in trees.values():
        for parts, fn in alpha.walk_functions(tree):
            fn.body = _map_blocks(fn.body, f)
        ast.fix_missing_locations(tree)
    return n


# --------------------------------------------------------------------------------------------- pipeline
def sugar_passes(trees):
    """the rewrites applied to every tree (reference and analysed alike)"""
    desugar_walrus(trees)
    split_chained_assignments(trees)
    split_parallel_assignments(trees)
    branch_on_condition(trees)
    desugar_conditional_expressions(trees)
    desugar_quantifiers(trees)
    desugar_boolean_returns(trees)


def drop_self_assignments(trees):
    def f(stmts):
        out = [s for s in stmts if not (isinstance(s, ast.Assign) and len(s.targets) == 1 and isinstance(s.targets[0], ast.Name)
                                        and isinstance(s.value, ast.Name) and s.value.id == s.targets[0].id)]
        return out or [ast.Pass()]
    for tree in trees.values():
        for parts, fn in alpha.walk_functions(tree):
            fn.body = _map_blocks(fn.body, f)
        ast.fix_missing_locations(tree)


def shape_passes(trees):
    # expansion of helpers may have produced new parallel / chained assignments
    split_chained_assignments(trees)
    split_parallel_assignments(trees)
    drop_self_assignments(trees)
    n = comprehension_form(trees)
    extend_form(trees)
    return n


# --------------------------------------------------------------------------------------------- new optional parameters
def specialise_new_parameters(trees):
    """A parameter that the reference signature of a function does not have, that has a constant default, is
    never assigned in the body and is passed by no call site in the package, has its default value on every
    call the package makes: its reads are replaced by the default (the paths that only a new caller can switch
    on are not part of the behaviour the properties speak about).  Returns {function key: {param: default}}."""
    fref = load_func_ref()
    if not fref:
        return {}
    applied = {}
    # keyword names passed anywhere, and the largest number of positional arguments per callee name
    kw_used, pos_used = {}, {}
    star_used = set()
    for tree in trees.values():
        for c in ast.walk(tree):
            if isinstance(c, ast.Call):
                nm = c.func.attr if isinstance(c.func, ast.Attribute) else (c.func.id if isinstance(c.func, ast.Name) else None)
                for k in c.keywords:
                    kw_used.setdefault(nm, set()).add(k.arg if k.arg is not None else "**")
                if nm:
                    # a starred argument was written against the reference signature (more elements than that
                    # had parameters would have been a TypeError): it fills old parameters only
                    n_pos = len([a for a in c.args if not isinstance(a, ast.Starred)])
                    pos_used[nm] = max(pos_used.get(nm, 0), n_pos)
                    if any(isinstance(a, ast.Starred) for a in c.args):
                        star_used.add(nm)
    for rel, tree in trees.items():
        for parts, fn in alpha.walk_functions(tree):
            k = alpha.function_key(rel, parts)
            old = fref.get(k)
            if old is None:
                continue
            a = fn.args
            pos = a.posonlyargs + a.args
            defaults = {}
            for p_, d in zip(pos[len(pos) - len(a.defaults):], a.defaults):
                defaults[p_.arg] = d
            for p_, d in zip(a.kwonlyargs, a.kw_defaults):
                if d is not None:
                    defaults[p_.arg] = d
            stored = {n.id for n in _own(fn, ast.Name) if isinstance(n.ctx, (ast.Store, ast.Del))}
            is_method = len(parts) == 2 and "staticmethod" not in _decorators(fn)
            mapping = {}
            for idx, p_ in enumerate(pos + a.kwonlyargs):
                nm = p_.arg
                if nm in old or nm not in defaults or nm in stored:
                    continue
                d = defaults[nm]
                if not (isinstance(d, ast.Constant) and (d.value is None or isinstance(d.value, (bool, int, float, str)))):
                    continue
                callee_names = {fn.name} | ({parts[0]} if fn.name == "__init__" and len(parts) == 2 else set())
                used = set().union(*[kw_used.get(cn, set()) for cn in callee_names]) | kw_used.get(None, set())
                if nm in used or "**" in used:
                    continue
                if p_ in pos:
                    n_before = idx - (1 if is_method else 0)
                    if max(pos_used.get(cn, 0) for cn in callee_names) > n_before:
                        continue
                    if callee_names & star_used and any(q.arg in old for q in pos[idx:]):
                        continue   # an old parameter follows: a starred call may reach this position
                mapping[nm] = d
            if mapping:
                sub = _SubstNames(mapping, {})
                fn.body = [sub.visit(st) for st in fn.body]
                applied[k] = {n_: ast.unparse(v) for n_, v in mapping.items()}
        ast.fix_missing_locations(tree)
    return applied


def _const_test(e):
    """truth of a test built from constants only (None if not decided)"""
    if isinstance(e, ast.Constant):
        return bool(e.value)
    if isinstance(e, ast.UnaryOp) and isinstance(e.op, ast.Not):
        v = _const_test(e.operand)
        return None if v is None else not v
    if isinstance(e, ast.Compare) and len(e.ops) == 1 and isinstance(e.left, ast.Constant) and isinstance(e.comparators[0], ast.Constant):
        l, r = e.left.value, e.comparators[0].value
        op = e.ops[0]
        if isinstance(op, ast.Is):
            return l is r
        if isinstance(op, ast.IsNot):
            return l is not r
        if isinstance(op, ast.Eq):
            return l == r
        if isinstance(op, ast.NotEq):
            return l != r
    if isinstance(e, ast.BoolOp):
        vals = [_const_test(v) for v in e.values]
        if isinstance(e.op, ast.And):
            for v in vals:
                if v is False:
                    return False
                if v is None:
                    return None
            return True
        for v in vals:
            if v is True:
                return True
            if v is None:
                return None
        return False
    return None


def prune_constant_branches(trees, only=None):
    """`if <test decided by constants>:` keeps the branch taken (used after a new parameter has been replaced by
    its default: the code only a new caller can reach disappears from the analysed function)"""
    n = 0

    def f(stmts):
        nonlocal n
        out = []
        for s in stmts:
            if isinstance(s, ast.If):
                v = _const_test(s.test)
                if v is not None:
                    out.extend(s.body if v else s.orelse)
                    n += 1
                    continue
            out.append(s)
        return out or [ast.Pass()]
    for rel, tree in trees.items():
        for parts, fn in alpha.walk_functions(tree):
            if only is not None and alpha.function_key(rel, parts) not in only:
                continue
            fn.body = _map_blocks(fn.body, f)
        ast.fix_missing_locations(tree)
    return n
