"""Static-analysis engine for the flumine property checks (stdlib only)."""


class AnalysisError(Exception):
    """The analysis cannot decide (vanished anchor, unknown shape): exit 2, never a VIOLATION."""
