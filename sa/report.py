"""Obligations, findings, known-findings matching, evidence and exit codes."""

import json
import os
import time

from . import AnalysisError

VERIF = os.path.dirname(os.path.dirname(os.path.abspath(__file__)))
KNOWN_FILE = os.path.join(VERIF, "known_findings.json")

ASSUMPTIONS = [
    "the verdict is computed from the source text of /repo/flumine/**/*.py as it is when the check starts; nothing in /repo is imported or executed",
    "trusted base: this checker's CFG construction, callee resolution (annotations, __init__ field types, the frozen naming table in sa/resolve.py) and the frozen tables of each rule module",
    "implicit exceptions (AttributeError, KeyError, TypeError ...) inside the analysed regions are not modelled; only explicit raise statements and calls whose resolved callee may raise",
    "framework classes are not monkey-patched by user code and user strategies reach the framework only through its public API",
    "third-party behaviour is taken from documentation (betfairlightweight wraps transport errors in BetfairError; instruction report statuses are SUCCESS/FAILURE/TIMEOUT)",
]


def load_known():
    if not os.path.exists(KNOWN_FILE):
        return {"findings": [], "fixed": []}
    with open(KNOWN_FILE) as fh:
        return json.load(fh)


class Report:
    def __init__(self, prop_id, tier, ctx, emit=True):
        self.prop = prop_id
        self.tier = tier
        self.ctx = ctx
        self.t0 = time.time()
        self.obligations = []  # dicts
        self.remarks = []
        self.notes = {}
        self.floors = []
        self.floor_failures = []
        self.emit = emit
        self.sensitivity = None

    # ---------------------------------------------------------------- recording
    def _where(self, func, node):
        if func is None:
            return str(node) if node is not None else ""
        if node is None:
            return func.loc()
        return func.loc(node)

    def ok(self, rule, key, func=None, node=None, detail=""):
        self.obligations.append(
            {"rule": rule, "key": key, "where": self._where(func, node), "verdict": "ok",
             "detail": detail})

    def violation(self, rule, key, func=None, node=None, detail="", path=None):
        self.obligations.append(
            {"rule": rule, "key": key, "where": self._where(func, node), "verdict": "violation",
             "detail": detail, "path": path})

    def check(self, cond, rule, key, func=None, node=None, detail="", path=None):
        if cond:
            self.ok(rule, key, func, node, detail)
        else:
            self.violation(rule, key, func, node, detail, path)
        return bool(cond)

    def remark(self, rule, key, func=None, node=None, detail=""):
        self.remarks.append(
            {"rule": rule, "key": key, "where": self._where(func, node), "detail": detail})

    def floor(self, rule, what, found, minimum):
        """fail closed when a rule matched fewer instances than were confirmed by hand."""
        self.floors.append({"rule": rule, "what": what, "found": found, "minimum": minimum})
        if found < minimum:
            self.floor_failures.append(
                "%s %s: only %d instance(s) of '%s' found, at least %d confirmed by hand - "
                "the rule would pass vacuously" % (self.prop, rule, found, what, minimum))

    def check_floors(self):
        """a run that found no violation but matched too few instances is undecided, not a pass"""
        if self.floor_failures:
            viol, _ = self.classify()
            if not viol:
                raise AnalysisError("; ".join(self.floor_failures))

    def note(self, k, v):
        self.notes[k] = v

    # ---------------------------------------------------------------- verdict
    def classify(self):
        known = load_known()
        table = {}
        for f in known.get("findings", []):
            if f["property"] == self.prop:
                table[(f["rule"], f["key"])] = f
        viol, kf = [], []
        for o in self.obligations:
            if o["verdict"] != "violation":
                continue
            f = table.get((o["rule"], o["key"]))
            if f is not None:
                kf.append((o, f))
            else:
                viol.append(o)
        return viol, kf

    def finish(self, evidence_path=None, seed=0):
        viol, kf = self.classify()
        rep_paths = []
        if self.emit:
            ctx = self.ctx
            print("%s [%s] analysed %d files, %d lines, %d functions; calls: %s" % (
                self.prop, self.tier, ctx.prog.nfiles, ctx.prog.nlines,
                len(list(ctx.prog.all_functions())), json.dumps(ctx.res.stats)))
            byrule = {}
            for o in self.obligations:
                d = byrule.setdefault(o["rule"], [0, 0])
                d[0] += 1
                d[1] += o["verdict"] == "ok"
            for r in sorted(byrule):
                print("  rule %-4s obligations %3d discharged %3d" % (r, byrule[r][0], byrule[r][1]))
            for rm in self.remarks:
                print("REMARK property=%s rule=%s %s — %s [%s]" % (
                    self.prop, rm["rule"], rm["key"], rm["detail"], rm["where"]))
            seen = set()
            for o, f in kf:
                tag = (f.get("id"), o["rule"], o["key"])
                if tag in seen:
                    continue
                seen.add(tag)
                print("KNOWN-FINDING: property=%s %s rule=%s %s — %s [%s]" % (
                    self.prop, f.get("id", ""), o["rule"], o["key"], f.get("what", o["detail"]),
                    o["where"]))
        if viol:
            rdir = os.path.join(VERIF, "evidence", "replay")
            os.makedirs(rdir, exist_ok=True)
            for i, o in enumerate(viol, 1):
                p = os.path.join(rdir, "%s-%d.json" % (self.prop, i))
                with open(p, "w") as fh:
                    json.dump({"property": self.prop, "tier": self.tier, **o,
                               "root": self.ctx.prog.root}, fh, indent=1)
                rep_paths.append(p)
                if self.emit:
                    print("  %s rule %s: %s\n      at %s\n      %s%s" % (
                        self.prop, o["rule"], o["key"], o["where"], o["detail"],
                        ("\n      path: " + o["path"]) if o.get("path") else ""))
                    print("VIOLATION property=%s replay=%s" % (self.prop, p))
        if evidence_path:
            self.write_evidence(evidence_path, viol, kf, seed)
        return 1 if viol else 0

    def write_evidence(self, path, viol, kf, seed):
        ctx = self.ctx
        obs = self.obligations
        distinct = {(o["rule"], o["key"]) for o in obs}
        samples = []
        seen_rules = set()
        for o in obs:
            if o["rule"] not in seen_rules or o["verdict"] == "violation":
                seen_rules.add(o["rule"])
                samples.append({k: o[k] for k in ("rule", "key", "where", "verdict", "detail")})
        cov = {
            "explanation": ctx.explanations.get(self.prop, ""),
            "obligations": len(obs),
            "discharged": sum(1 for o in obs if o["verdict"] == "ok"),
            "evaluations": len(obs),
            "distinct_nontrivial": len(distinct),
            "rule": "one obligation per (rule, construct) instance matched in the syntax tree / CFG / "
                    "call graph of the current /repo; distinct = distinct (rule, construct key) pairs; "
                    "every counted instance matched a real construct (vacuous matches are excluded by "
                    "the instance floors)",
            "samples": samples[:60],
            "exhaustive": True,
            "analysed": {
                "root": ctx.prog.root,
                "source_digest": ctx.prog.digest,
                "files": ctx.prog.nfiles,
                "lines": ctx.prog.nlines,
                "functions": len(list(ctx.prog.all_functions())),
                "classes": len(list(ctx.prog.all_classes())),
                "call_resolution": ctx.res.stats,
            },
            "instance_floors": self.floors,
            "known_findings_reported": [
                {"id": f.get("id"), "rule": o["rule"], "key": o["key"], "where": o["where"]}
                for o, f in kf],
            "remarks": self.remarks,
            "notes": self.notes,
            "checker_cmd": "./check %s --tier %s" % (self.prop, self.tier),
            "trusted_base": ["sa/ (CFG, resolution, dominance)", "rules/%s.py frozen tables" % self.prop.lower()],
        }
        if self.sensitivity is not None:
            cov["sensitivity"] = self.sensitivity
        ev = {
            "property_id": self.prop,
            "tier": self.tier,
            "seed": int(seed),
            "level": "other",
            "coverage": cov,
            "assumptions": ASSUMPTIONS + ctx.extra_assumptions.get(self.prop, []),
            "wall_s": round(time.time() - self.t0, 3),
            "violations": len(viol),
        }
        os.makedirs(os.path.dirname(path), exist_ok=True)
        tmp = path + ".tmp"
        with open(tmp, "w") as fh:
            json.dump(ev, fh, indent=1, default=str)
        os.replace(tmp, path)
