"""Shared helpers for the rule modules: keys, writes/effects, call matching, comparators."""

import ast

from . import AnalysisError
from .cfg import walk_calls, walk_nodes

MUTATORS = {
    "append", "extend", "insert", "pop", "remove", "clear", "update", "add", "discard",
    "setdefault", "put", "sort", "reverse", "popitem", "appendleft", "popleft",
}


def short(txt, n=110):
    txt = " ".join(txt.split())
    return txt if len(txt) <= n else txt[: n - 3] + "..."


from .astutil import utext, canon, canon_text, gp, positive  # noqa: E402,F401  (canonical spelling, see astutil)


def key(func, node=None, extra=None):
    k = func.qual if func is not None else ""
    if node is not None:
        k += " :: " + short(utext(node), 140)
    if extra:
        k += " :: " + extra
    return k


def sbody(stmts):
    """statements without docstrings and pure logging calls"""
    from .cfg import strip_logging
    return strip_logging(stmts)


class _Clean(ast.NodeTransformer):
    def _strip(self, node):
        from .cfg import is_logging_stmt
        for fld in ("body", "orelse", "finalbody"):
            b = getattr(node, fld, None)
            if isinstance(b, list):
                nb = [x for x in b if not is_logging_stmt(x)]
                if fld == "body" and not nb:
                    nb = [ast.Pass()]
                setattr(node, fld, nb)
        return node

    def generic_visit(self, node):
        super().generic_visit(node)
        if isinstance(node, (ast.If, ast.For, ast.While, ast.With, ast.Try, ast.FunctionDef, ast.ExceptHandler)):
            self._strip(node)
        return node


def ctext(node):
    """canonical text of a statement with logging statements removed at every depth"""
    import copy
    n = _Clean().visit(copy.deepcopy(node))
    ast.fix_missing_locations(n)
    return utext(n)


def resolve_local(func, expr):
    """the defining expression of a local name assigned exactly once (copy propagation), else expr"""
    if isinstance(expr, ast.Name) and expr.id not in func.params:
        d = [x for x in walk_nodes(func.node.body, ast.Assign)
             if len(x.targets) == 1 and isinstance(x.targets[0], ast.Name) and x.targets[0].id == expr.id]
        if len(d) == 1:
            return d[0].value
    return expr


def enclosing_iterations(func_node, node):
    """the iterations a node sits in, outermost first, whether written as `for` statements or as comprehension
    generators: [(target ast, iterable ast, [filter asts], carrier)] - carrier is the For statement or the
    comprehension"""
    path = []

    def visit(n, stack):
        if n is node:
            path.extend(stack)
            return True
        if isinstance(n, (ast.For, ast.AsyncFor)):
            if visit(n.target, stack) or visit(n.iter, stack):
                return True
            inner = stack + [(n.target, n.iter, [], n)]
            for c in n.body:
                if visit(c, inner):
                    return True
            for c in n.orelse:
                if visit(c, stack):
                    return True
            return False
        if isinstance(n, (ast.ListComp, ast.SetComp, ast.GeneratorExp, ast.DictComp)):
            cur = list(stack)
            for g in n.generators:
                if visit(g.iter, cur):
                    return True
                cur = cur + [(g.target, g.iter, list(g.ifs), n)]
                for c in g.ifs:
                    if visit(c, cur):
                        return True
            elts = [n.key, n.value] if isinstance(n, ast.DictComp) else [n.elt]
            for e in elts:
                if visit(e, cur):
                    return True
            return False
        for c in ast.iter_child_nodes(n):
            if visit(c, stack):
                return True
        return False

    for st in func_node.body:
        if visit(st, []):
            break
    return path


def unsorted_groupby(func_node):
    """calls of itertools.groupby whose iterable is not `sorted(..)` by the same key: groupby only merges
    *consecutive* equal keys, so a key that comes back later starts a new group -> [call]"""
    out = []
    for c in walk_calls(func_node.body):
        nm = call_name(c)
        if nm != "groupby" or not c.args:
            continue
        it = c.args[0]
        keyf = {k.arg: k.value for k in c.keywords}.get("key") or (c.args[1] if len(c.args) > 1 else None)
        ok = False
        if isinstance(it, ast.Call) and call_name(it) == "sorted":
            skey = {k.arg: k.value for k in it.keywords}.get("key")
            ok = (skey is None and keyf is None) or (skey is not None and keyf is not None and utext(skey) == utext(keyf))
        if not ok:
            out.append(c)
    return out


def counted(expr):
    """`len([.. for v in IT if C..])`, `sum(1 for v in IT if C..)`, `sum([1 for ..])`: (target text, iterable
    text, [condition texts]); None for anything else"""
    comp = None
    if isinstance(expr, ast.Call) and isinstance(expr.func, ast.Name) and len(expr.args) == 1 and not expr.keywords:
        a = expr.args[0]
        if expr.func.id == "len" and isinstance(a, ast.ListComp):
            comp = a
        elif expr.func.id == "sum" and isinstance(a, (ast.GeneratorExp, ast.ListComp)) and \
                isinstance(a.elt, ast.Constant) and a.elt.value == 1:
            comp = a
    if comp is None or len(comp.generators) != 1:
        return None
    g = comp.generators[0]
    conds = []
    for c in g.ifs:
        conds += [utext(v) for v in c.values] if isinstance(c, ast.BoolOp) and isinstance(c.op, ast.And) else [utext(c)]
    return utext(g.target), utext(g.iter), conds


def key_removals(func_node, container):
    """statements / calls that remove one key from the mapping `container` (canonical text):
    `del C[K]`, `C.pop(K)`, `C.pop(K, default)`  ->  [(ast node, key text)]"""
    out = []
    for s in walk_nodes(func_node.body, ast.Delete):
        for t in s.targets:
            if isinstance(t, ast.Subscript) and utext(t.value) == container:
                out.append((s, utext(t.slice)))
    for c in walk_calls(func_node.body):
        if isinstance(c.func, ast.Attribute) and c.func.attr == "pop" and utext(c.func.value) == container and c.args:
            out.append((c, utext(c.args[0])))
    return out


_ORDER_NEG = {"<": ">=", "<=": ">", ">": "<=", ">=": "<"}


def holds(gs, src, total_order=False):
    """does the guard set (pairs of canonical atom text and polarity) contain the condition `src`?  With
    total_order (operands known to be ints / non-NaN numbers) `a < b` is also recognised as the false edge of
    `a >= b`."""
    want = gp(src)
    gs = set(gs)
    if want in gs:
        return True
    if total_order:
        e = ast.parse(src, mode="eval").body
        if isinstance(e, ast.Compare) and len(e.ops) == 1:
            sym = {ast.Lt: "<", ast.LtE: "<=", ast.Gt: ">", ast.GtE: ">="}.get(type(e.ops[0]))
            if sym:
                neg = "%s %s %s" % (ast.unparse(e.left), _ORDER_NEG[sym], ast.unparse(e.comparators[0]))
                t, pol = gp(neg)
                return (t, not pol) in gs
    return False


def guard_pairs(cfg, nid, blocked_edges=()):
    """{(canonical positive atom text, polarity)} guarding a node"""
    return {(utext(g.exprs[0]), pol) for g, pol in cfg.guards(nid, blocked_edges)}


class _Expand(ast.NodeTransformer):
    def __init__(self, func, depth=4):
        self.func, self.depth = func, depth

    def visit_Name(self, n):
        if isinstance(n.ctx, ast.Load) and self.depth > 0:
            d = resolve_local(self.func, n)
            if d is not n and all(isinstance(x, (ast.Name, ast.Attribute, ast.Subscript, ast.Constant, ast.Load, ast.Tuple))
                                  for x in ast.walk(d)):
                import copy as _copy
                return _Expand(self.func, self.depth - 1).visit(_copy.deepcopy(d))
        return n


def expanded(func, expr):
    """canonical text of an expression with the function's single-assignment locals that merely name an
    attribute chain / item lookup replaced by what they name (`blotter` -> `markets.markets[order.market_id].blotter`)"""
    import copy as _copy
    return utext(_Expand(func).visit(_copy.deepcopy(expr)))


def call_name(call):
    f = getattr(call, "func", None)
    if isinstance(f, ast.Attribute):
        return f.attr
    if isinstance(f, ast.Name):
        return f.id
    return None


def recv_text(call):
    f = getattr(call, "func", None)
    if isinstance(f, ast.Attribute):
        return utext(f.value)
    return None


def root_name(expr):
    while isinstance(expr, (ast.Attribute, ast.Subscript, ast.Call)):
        expr = expr.value if not isinstance(expr, ast.Call) else expr.func
    if isinstance(expr, ast.Name):
        return expr.id
    return None


def calls_in(node, name=None):
    cs = walk_calls(node.exprs)
    if name is None:
        return cs
    return [c for c in cs if call_name(c) == name]


def node_calls(cfg, name, recv=None):
    """[(cfg node, call)] for calls of attribute/function `name` (optionally receiver text)."""
    out = []
    for n in cfg.live_nodes():
        for c in calls_in(n, name):
            if recv is None or recv_text(c) == recv:
                out.append((n, c))
    return out


def is_name(node, id_):
    return isinstance(node, ast.Name) and node.id == id_


def is_attr(node, attr, recv=None):
    return (isinstance(node, ast.Attribute) and node.attr == attr
            and (recv is None or utext(node.value) == recv))


def const_is(node, value):
    return isinstance(node, ast.Constant) and node.value is value or (
        isinstance(node, ast.Constant) and not isinstance(value, bool) and value is not None
        and node.value == value and type(node.value) is type(value))


# ---------------------------------------------------------------------------- comparators
_FLIP = {ast.Lt: ast.Gt, ast.Gt: ast.Lt, ast.LtE: ast.GtE, ast.GtE: ast.LtE, ast.Eq: ast.Eq,
         ast.NotEq: ast.NotEq}
_NEG = {ast.Lt: ast.GtE, ast.GtE: ast.Lt, ast.Gt: ast.LtE, ast.LtE: ast.Gt, ast.Eq: ast.NotEq,
        ast.NotEq: ast.Eq, ast.Is: ast.IsNot, ast.IsNot: ast.Is, ast.In: ast.NotIn,
        ast.NotIn: ast.In}
_SYM = {ast.Lt: "<", ast.Gt: ">", ast.LtE: "<=", ast.GtE: ">=", ast.Eq: "==", ast.NotEq: "!=",
        ast.Is: "is", ast.IsNot: "is not", ast.In: "in", ast.NotIn: "not in"}


def canon_compare(expr, polarity=True):
    """(left text, op symbol, right text) of a single comparison under the given polarity, or
    None.  `not (a < b)` is handled by the CFG (polarity False)."""
    expr = canon(expr)
    if not isinstance(expr, ast.Compare) or len(expr.ops) != 1:
        return None
    op = type(expr.ops[0])
    if not polarity:
        op = _NEG.get(op)
        if op is None:
            return None
    return utext(expr.left), _SYM[op], utext(expr.comparators[0])


def oriented(cmp, left):
    """re-orient a canonical comparison so that `left` is on the left; None if absent."""
    if cmp is None:
        return None
    a, op, b = cmp
    if a == left:
        return cmp
    if b == left:
        flip = {"<": ">", ">": "<", "<=": ">=", ">=": "<=", "==": "==", "!=": "!="}
        if op in flip:
            return b, flip[op], a
    return None


# ---------------------------------------------------------------------------- stores
def store_targets(stmt):
    """attribute / subscript store targets of a simple statement: [(target node, 'assign'|'aug'|'del')]"""
    out = []

    def flat(t, kind):
        if isinstance(t, (ast.Tuple, ast.List)):
            for e in t.elts:
                flat(e, kind)
        elif isinstance(t, ast.Starred):
            flat(t.value, kind)
        elif isinstance(t, (ast.Attribute, ast.Subscript)):
            out.append((t, kind))

    if isinstance(stmt, ast.Assign):
        for t in stmt.targets:
            flat(t, "assign")
    elif isinstance(stmt, ast.AugAssign):
        flat(stmt.target, "aug")
    elif isinstance(stmt, ast.AnnAssign) and stmt.value is not None:
        flat(stmt.target, "assign")
    elif isinstance(stmt, ast.Delete):
        for t in stmt.targets:
            flat(t, "del")
    return out


def all_stores(prog, attr):
    """every store to an attribute named `attr` in the package:
    [(FuncInfo, stmt, target node, kind)] (kind: assign/aug/del)"""
    out = []
    for f in prog.all_functions():
        for s in walk_nodes(f.node.body, (ast.Assign, ast.AugAssign, ast.AnnAssign, ast.Delete)):
            for t, kind in store_targets(s):
                if isinstance(t, ast.Attribute) and t.attr == attr:
                    out.append((f, s, t, kind))
    return out


def all_mutator_calls(prog, attr):
    """calls recv.<attr>.<mutator>(...) or recv.<attr>[..].<mutator>() anywhere:
    [(FuncInfo, call, mutator)]"""
    out = []
    for f in prog.all_functions():
        for c in walk_calls(f.node.body):
            if isinstance(c.func, ast.Attribute) and c.func.attr in MUTATORS:
                r = c.func.value
                while isinstance(r, ast.Subscript):
                    r = r.value
                if isinstance(r, ast.Attribute) and r.attr == attr:
                    out.append((f, c, c.func.attr))
    return out


# ---------------------------------------------------------------------------- effects
class Effects:
    """Which statements change state that outlives the function (attribute / subscript stores and
    container mutators on objects reachable from parameters, or calls of functions that do)."""

    def __init__(self, ctx):
        self.ctx = ctx
        self.res = ctx.res
        self.prog = ctx.prog
        self._outer = {}
        self._effectful = {}
        self._fix()

    def outer_names(self, func):
        """names bound to objects that exist outside the call: parameters and locals derived from
        them (for-targets, aliases)."""
        k = id(func)
        if k in self._outer:
            return self._outer[k]
        names = set(func.params)
        glob = set()
        for s in ast.walk(func.node):
            if isinstance(s, ast.Global):
                glob |= set(s.names)
        names |= glob
        fresh_ctor = set()
        for _ in range(3):
            for s in ast.walk(func.node):
                if isinstance(s, ast.Assign):
                    v = s.value
                    derived = self._derived(v, names, func)
                    for t in s.targets:
                        for nm in _names_in_target(t):
                            if derived:
                                names.add(nm)
                elif isinstance(s, (ast.For, ast.comprehension)):
                    if self._derived(s.iter, names, func):
                        for nm in _names_in_target(s.target):
                            names.add(nm)
                elif isinstance(s, (ast.With, ast.AsyncWith)):
                    for it in s.items:
                        if it.optional_vars is not None and self._derived(it.context_expr, names, func):
                            for nm in _names_in_target(it.optional_vars):
                                names.add(nm)
        # module-level names (config, datetime ...) are outer objects as well
        names |= set(func.module.imports) | set(func.module.constants)
        self._outer[k] = names
        return names

    def _derived(self, v, names, func):
        """does value expression v denote (part of) an outer object?"""
        if isinstance(v, (ast.Attribute, ast.Subscript)):
            r = root_name(v)
            return r in names
        if isinstance(v, ast.Name):
            return v.id in names
        if isinstance(v, ast.Call):
            # a call result is outer when it is a lookup on an outer object
            # (dict.get / get_runner_context / markets.get / list(...) of outer / iter)
            f = v.func
            if isinstance(f, ast.Attribute):
                if f.attr[:1].isupper():
                    return False
                callees, conf = self.res.resolve_call(v, func)
                if callees and all(c.name == "__init__" for c in callees):
                    return False
                return root_name(f.value) in names
            if isinstance(f, ast.Name):
                if f.id in ("list", "iter", "sorted", "zip", "enumerate", "reversed", "tuple"):
                    return any(self._derived(a, names, func) for a in v.args)
                return False
        if isinstance(v, ast.IfExp):
            return self._derived(v.body, names, func) or self._derived(v.orelse, names, func)
        if isinstance(v, (ast.Tuple, ast.List)):
            return any(self._derived(e, names, func) for e in v.elts)
        if isinstance(v, ast.BoolOp):
            return any(self._derived(e, names, func) for e in v.values)
        return False

    def own_effects(self, func, roots):
        """effects written directly in these expression/statement roots:
        [(node, description)]"""
        outer = self.outer_names(func)
        out = []
        for s in walk_nodes(roots, (ast.Assign, ast.AugAssign, ast.AnnAssign, ast.Delete)):
            for t, kind in store_targets(s):
                r = root_name(t)
                if r in outer:
                    out.append((s, "store %s" % utext(t)))
        for c in walk_calls(roots):
            if isinstance(c.func, ast.Attribute) and c.func.attr in MUTATORS:
                callees, conf = self.res.resolve_call(c, func)
                if callees and conf:
                    continue  # a package method of that name: judged by its own summary
                r = root_name(c.func.value)
                if r in outer:
                    out.append((c, "mutate %s.%s()" % (utext(c.func.value), c.func.attr)))
        return out

    def call_effects(self, func, roots):
        out = []
        for c in walk_calls(roots):
            cs = self.res.site(c)
            if cs is None:
                continue
            for cal in cs.callees:
                if cal.name == "__init__":
                    continue
                if self._effectful.get(id(cal)):
                    out.append((c, "call %s" % cal.qual))
                    break
        for a in walk_nodes(roots, ast.Attribute):
            cs = self.res.site(a)
            if cs is not None and cs.kind == "property":
                for cal in cs.callees:
                    if self._effectful.get(id(cal)):
                        out.append((a, "property %s" % cal.qual))
                        break
        return out

    def effects_of(self, func, roots):
        return self.own_effects(func, roots) + self.call_effects(func, roots)

    def _fix(self):
        funcs = list(self.prog.all_functions())
        for f in funcs:
            self._effectful[id(f)] = bool(self.own_effects(f, f.node.body)) and f.name != "__init__"
        changed = True
        n = 0
        while changed:
            changed = False
            n += 1
            if n > 200:
                raise AnalysisError("effect fixpoint did not converge")
            for f in funcs:
                if self._effectful[id(f)] or f.name == "__init__":
                    continue
                for cs in self.res.sites.get(id(f), []):
                    if any(self._effectful.get(id(c)) and c.name != "__init__" for c in cs.callees):
                        self._effectful[id(f)] = True
                        changed = True
                        break

    def effectful(self, func):
        return bool(self._effectful.get(id(func)))

    def node_effects(self, func, node):
        """effects of one CFG node"""
        if node.kind in ("entry", "exit", "raise_exit", "join", "for", "except"):
            return []
        if node.kind == "with_exit":
            return []  # __exit__ of the trade scope etc. are modelled by the rules that care
        return self.effects_of(func, node.exprs)


def _names_in_target(t):
    if isinstance(t, ast.Name):
        return [t.id]
    if isinstance(t, (ast.Tuple, ast.List)):
        out = []
        for e in t.elts:
            out += _names_in_target(e)
        return out
    if isinstance(t, ast.Starred):
        return _names_in_target(t.value)
    return []


def get_effects(ctx):
    return ctx.shared("effects", lambda: Effects(ctx))


# ---------------------------------------------------------------------------- loops
def loop_body_exits_early(loop):
    """does a for/while body contain break / return (at any depth outside nested functions)?"""
    for s in walk_nodes(loop.body, (ast.Break, ast.Return)):
        if isinstance(s, ast.Return):
            return True
        # a break that belongs to this loop (not to a nested loop)
        if _break_belongs(loop, s):
            return True
    return False


def _break_belongs(loop, brk):
    def search(stmts, depth):
        for s in stmts:
            if s is brk:
                return depth == 0
            for fld in ("body", "orelse", "finalbody", "handlers"):
                sub = getattr(s, fld, None)
                if not sub:
                    continue
                if fld == "handlers":
                    for h in sub:
                        r = search(h.body, depth)
                        if r is not None:
                            return r
                    continue
                d = depth + 1 if isinstance(s, (ast.For, ast.While)) and fld == "body" else depth
                r = search(sub, d)
                if r is not None:
                    return r
        return None

    return bool(search(loop.body, 0))


def find_loops(func, over_text=None):
    out = []
    for s in walk_nodes(func.node.body, (ast.For,)):
        if over_text is None or utext(s.iter) == over_text:
            out.append(s)
    return out


# ---------------------------------------------------------------------------- folding evaluation of paths
class _Fold(ast.NodeTransformer):
    """substitute known locals and fold lookups in module-level literal tables, getattr with a constant name,
    and tuple indexing"""

    def __init__(self, env, tables, subst=None):
        self.env, self.tables, self.subst = env, tables, subst or {}

    def visit_Attribute(self, a):
        if self.subst and utext(a) in self.subst:
            return ast.parse(self.subst[utext(a)], mode="eval").body
        return self.generic_visit(a)

    def visit_Name(self, n):
        if isinstance(n.ctx, ast.Load) and n.id in self.env:
            import copy as _c
            return _c.deepcopy(self.env[n.id])
        return n

    def _table(self, e):
        if isinstance(e, ast.Name) and e.id in self.tables and isinstance(self.tables[e.id], ast.Dict):
            return self.tables[e.id]
        return None

    def _lookup(self, table, k, default):
        kt = utext(k)
        for kk, vv in zip(table.keys, table.values):
            if kk is not None and utext(kk) == kt:
                import copy as _c
                return _c.deepcopy(vv)
        return default

    def visit_Call(self, c):
        self.generic_visit(c)
        f = c.func
        if isinstance(f, ast.Attribute) and f.attr == "get" and self._table(f.value) is not None and c.args:
            default = c.args[1] if len(c.args) > 1 else ast.Constant(value=None)
            return self._lookup(self._table(f.value), c.args[0], default)
        if isinstance(f, ast.Name) and f.id == "getattr" and len(c.args) == 2 and isinstance(c.args[1], ast.Constant) \
                and isinstance(c.args[1].value, str):
            return ast.Attribute(value=c.args[0], attr=c.args[1].value, ctx=ast.Load())
        return c

    def visit_Subscript(self, n):
        self.generic_visit(n)
        t = self._table(n.value)
        if t is not None:
            r = self._lookup(t, n.slice, None)
            if r is not None:
                return r
        if isinstance(n.value, ast.Tuple) and isinstance(n.slice, ast.Constant) and isinstance(n.slice.value, int) \
                and -len(n.value.elts) <= n.slice.value < len(n.value.elts):
            return n.value.elts[n.slice.value]
        return n


def _const_truth(e):
    """truth value of a folded expression if it is decided, else None"""
    if isinstance(e, ast.Constant):
        return bool(e.value)
    if isinstance(e, (ast.Tuple, ast.List, ast.Dict, ast.Set)):
        return bool(getattr(e, "elts", None) or getattr(e, "keys", None))
    if isinstance(e, ast.Compare) and len(e.ops) == 1 and isinstance(e.ops[0], (ast.Is, ast.IsNot)):
        l, r = e.left, e.comparators[0]
        if isinstance(r, ast.Constant) and r.value is None:
            if isinstance(l, ast.Constant):
                return (l.value is None) == isinstance(e.ops[0], ast.Is)
            if isinstance(l, (ast.Tuple, ast.List, ast.Dict, ast.Attribute)):
                return isinstance(e.ops[0], ast.IsNot)
    if isinstance(e, ast.UnaryOp) and isinstance(e.op, ast.Not):
        v = _const_truth(e.operand)
        return None if v is None else not v
    return None


def folded_returns(cfg, func, atom_eval, limit=4000, subst=None, follow_exc=False, tag_exc=False):
    """the return expressions reachable when branch atoms are decided by atom_eval (None = both ways) and, where
    that says nothing, by folding: locals are substituted by the expressions assigned to them along the path,
    lookups in module-level literal tables (`T.get(k)`, `T[k]`), `getattr(x, "name")` and tuple unpacking are
    evaluated.  Returns the set of canonical texts (an if-chain and a table-driven dispatch give the same)."""
    tables = dict(func.module.constants)
    out = set()
    stack = [(cfg.entry, {})]
    steps = 0
    seen_states = set()
    while stack:
        nid, env = stack.pop()
        st_key = (nid, tuple(sorted((k, utext(v)) for k, v in env.items())))
        if st_key in seen_states:
            continue
        seen_states.add(st_key)
        steps += 1
        if steps > limit:
            raise AnalysisError("%s: path enumeration did not terminate" % func.qual)
        n = cfg.nodes[nid]
        if follow_exc:
            # an exception leaves the statement before its effect: the handler sees the environment as it was
            env_exc = dict(env)
            if tag_exc:
                env_exc["__exc__"] = ast.Constant(value=True)
            stack += [(m, env_exc) for l, m in n.succ if l == "exc"]
        if n.kind == "return":
            import copy as _c
            v = _Fold(env, tables, subst).visit(_c.deepcopy(n.ast.value)) if n.ast.value is not None else ast.Constant(value=None)
            out.add((utext(v), "__exc__" in env) if tag_exc else utext(v))
            continue
        if n.kind == "stmt" and isinstance(n.ast, ast.Assign) and len(n.ast.targets) == 1:
            import copy as _c
            val = _Fold(env, tables, subst).visit(_c.deepcopy(n.ast.value))
            t = n.ast.targets[0]
            env = dict(env)
            if isinstance(t, ast.Name):
                env[t.id] = val
            elif isinstance(t, ast.Tuple) and isinstance(val, ast.Tuple) and len(t.elts) == len(val.elts) \
                    and all(isinstance(x, ast.Name) for x in t.elts):
                for x, v in zip(t.elts, val.elts):
                    env[x.id] = v
            else:
                for x in ast.walk(t):
                    if isinstance(x, ast.Name):
                        env.pop(x.id, None)
        if n.kind == "stmt" and isinstance(n.ast, ast.AugAssign) and isinstance(n.ast.target, ast.Name):
            import copy as _c
            cur = env.get(n.ast.target.id, ast.Name(id=n.ast.target.id, ctx=ast.Load()))
            env = dict(env)
            env[n.ast.target.id] = ast.BinOp(left=_c.deepcopy(cur), op=n.ast.op,
                                             right=_Fold(env, tables, subst).visit(_c.deepcopy(n.ast.value)))
        if n.kind == "cond":
            v = atom_eval(n.exprs[0])
            if v is None:
                import copy as _c
                v = _const_truth(_Fold(env, tables, subst).visit(_c.deepcopy(n.exprs[0])))
            if v is not None:
                stack += [(m, env) for l, m in n.succ if l == ("T" if v else "F")]
                continue
        if n.kind == "exit":
            out.add(("None", "__exc__" in env) if tag_exc else "None")
            continue
        stack += [(m, env) for l, m in n.succ if l != "exc"]
    return out


def folded_conds(cfg, func, atom_eval, limit=4000, subst=None):
    """the branch atoms met when the atoms atom_eval knows are decided by it (the others are explored both ways),
    each with its text after the locals assigned along the path have been substituted (see folded_returns):
    [(cond node, folded canonical text)] without duplicates"""
    tables = dict(func.module.constants)
    out, seen_out = [], set()
    stack = [(cfg.entry, {})]
    steps, seen_states = 0, set()
    import copy as _c
    while stack:
        nid, env = stack.pop()
        st_key = (nid, tuple(sorted((k, utext(v)) for k, v in env.items())))
        if st_key in seen_states:
            continue
        seen_states.add(st_key)
        steps += 1
        if steps > limit:
            raise AnalysisError("%s: path enumeration did not terminate" % func.qual)
        n = cfg.nodes[nid]
        if n.kind in ("return", "exit", "raise", "raise_exit"):
            continue
        if n.kind == "stmt" and isinstance(n.ast, ast.Assign) and len(n.ast.targets) == 1:
            val = _Fold(env, tables, subst).visit(_c.deepcopy(n.ast.value))
            t = n.ast.targets[0]
            env = dict(env)
            if isinstance(t, ast.Name):
                env[t.id] = val
            elif isinstance(t, ast.Tuple) and isinstance(val, ast.Tuple) and len(t.elts) == len(val.elts) \
                    and all(isinstance(x, ast.Name) for x in t.elts):
                for x, v in zip(t.elts, val.elts):
                    env[x.id] = v
            else:
                for x in ast.walk(t):
                    if isinstance(x, ast.Name):
                        env.pop(x.id, None)
        if n.kind == "cond":
            v = atom_eval(n.exprs[0])
            if v is None:
                folded = _Fold(env, tables, subst).visit(_c.deepcopy(n.exprs[0]))
                v = _const_truth(folded)
                if v is None:
                    k = (n.id, utext(folded))
                    if k not in seen_out:
                        seen_out.add(k)
                        out.append((n, utext(folded)))
            if v is not None:
                stack += [(m, env) for l, m in n.succ if l == ("T" if v else "F")]
                continue
        stack += [(m, env) for l, m in n.succ if l != "exc"]
    return out


def absence_tolerated(func, call):
    """is the call the subject of a `try: ... except ValueError: <no raise>`?  (`list.remove(x)` of an absent x
    raises ValueError: catching exactly that is the same as testing membership first, in one scan instead of two)"""
    found = False

    def visit(stmts):
        nonlocal found
        for st in stmts:
            if isinstance(st, ast.Try):
                inside = any(call is x for b in st.body for x in ast.walk(b))
                if inside:
                    for h in st.handlers:
                        names = []
                        if isinstance(h.type, ast.Name):
                            names = [h.type.id]
                        elif isinstance(h.type, ast.Tuple):
                            names = [e.id for e in h.type.elts if isinstance(e, ast.Name)]
                        if "ValueError" in names and not any(isinstance(x, ast.Raise) for b in h.body for x in ast.walk(b)):
                            found = True
            for fld in ("body", "orelse", "finalbody"):
                b = getattr(st, fld, None)
                if isinstance(b, list) and b and isinstance(b[0], ast.stmt):
                    visit(b)
            for h in getattr(st, "handlers", []) or []:
                visit(h.body)
    visit(func.node.body)
    return found
