"""Program index: modules, classes (MRO, subclasses), functions, module constants.

Nothing under the analysed root is imported or executed: everything comes from ``ast``.
"""

import ast
import os
import hashlib

from . import AnalysisError


class _DropAnnotations(ast.NodeTransformer):
    def visit_AnnAssign(self, n):
        self.generic_visit(n)
        if n.value is not None:
            return ast.copy_location(ast.Assign(targets=[n.target], value=n.value, type_comment=None), n)
        return n


class FuncInfo:
    def __init__(self, module, cls, node):
        self.module = module
        self.cls = cls
        self.node = node
        self.name = node.name
        self.decorators = [ast.unparse(d) for d in node.decorator_list]
        self.is_property = "property" in self.decorators
        self.is_setter = any(d.endswith(".setter") for d in self.decorators)
        self.is_static = "staticmethod" in self.decorators
        self.is_classmethod = "classmethod" in self.decorators
        a = node.args
        self.params = [x.arg for x in a.posonlyargs + a.args + a.kwonlyargs]
        self.annotations = {}
        for x in a.posonlyargs + a.args + a.kwonlyargs:
            if x.annotation is not None:
                self.annotations[x.arg] = x.annotation
        self._cfg = None

    @property
    def qual(self):
        if self.cls is not None:
            return "%s.%s" % (self.cls.name, self.name)
        return "%s.%s" % (self.module.short, self.name)

    @property
    def file(self):
        return self.module.relpath

    @property
    def is_abstract_stub(self):
        body = [
            s
            for s in self.node.body
            if not (isinstance(s, ast.Expr) and isinstance(s.value, ast.Constant))
        ]
        if len(body) == 1 and isinstance(body[0], ast.Raise):
            e = body[0].exc
            if isinstance(e, ast.Call):
                e = e.func
            return isinstance(e, ast.Name) and e.id == "NotImplementedError"
        return False

    def loc(self, node=None):
        n = node if node is not None else self.node
        return "%s:%s" % (self.file, getattr(n, "lineno", "?"))

    def __repr__(self):
        return "<Func %s>" % self.qual


class ClassInfo:
    def __init__(self, module, node):
        self.module = module
        self.node = node
        self.name = node.name
        self.base_names = [ast.unparse(b) for b in node.bases]
        self.bases = []  # resolved ClassInfo (in-package only)
        self.subclasses = []  # direct
        self.methods = {}
        self.class_attrs = {}
        for s in node.body:
            if isinstance(s, (ast.FunctionDef, ast.AsyncFunctionDef)):
                f = FuncInfo(module, self, s)
                # a property setter shares the name: keep getter under name, setter under name.setter
                if f.is_setter:
                    self.methods[s.name + ".setter"] = f
                else:
                    self.methods[s.name] = f
            elif isinstance(s, ast.Assign):
                for t in s.targets:
                    if isinstance(t, ast.Name):
                        self.class_attrs[t.id] = s.value
            elif isinstance(s, ast.AnnAssign) and isinstance(s.target, ast.Name):
                if s.value is not None:
                    self.class_attrs[s.target.id] = s.value

    def mro(self):
        # the package uses single inheritance in-package; linearise depth-first, de-duplicated
        out, seen = [], set()

        def walk(c):
            if c.name in seen:
                return
            seen.add(c.name)
            out.append(c)
            for b in c.bases:
                walk(b)

        walk(self)
        return out

    def all_subclasses(self):
        out, todo = [], list(self.subclasses)
        while todo:
            c = todo.pop()
            if c not in out:
                out.append(c)
                todo.extend(c.subclasses)
        return out

    def find_method(self, name):
        for c in self.mro():
            if name in c.methods:
                return c.methods[name]
        return None

    def is_subclass_of(self, name):
        return any(c.name == name for c in self.mro())

    def external_bases(self):
        return [b for c in self.mro() for b in c.base_names if b.split(".")[-1] not in
                {x.name for x in self.mro()}]

    def __repr__(self):
        return "<Class %s>" % self.name


def parse_module(source, relpath):
    try:
        tree = ast.parse(source, filename=relpath)
    except SyntaxError as e:
        raise AnalysisError("syntax error in %s: %s" % (relpath, e))
    # normal form: an annotated assignment `x: T = v` is the assignment `x = v`
    tree = _DropAnnotations().visit(tree)
    ast.fix_missing_locations(tree)
    return tree


class ModuleInfo:
    def __init__(self, name, relpath, source, tree=None):
        self.name = name  # dotted, e.g. flumine.order.order
        self.short = name.split(".")[-1]
        self.relpath = relpath
        self.source = source
        self.tree = tree if tree is not None else parse_module(source, relpath)
        from . import alpha
        self.renamed_locals = alpha.normalise_module(self.tree, relpath)
        self.functions = {}
        self.classes = {}
        self.constants = {}
        self.imports = {}  # local name -> (module dotted or None, original name)
        self.import_nodes = []
        for s in self.tree.body:
            self._top(s)

    def _top(self, s):
        if isinstance(s, (ast.FunctionDef, ast.AsyncFunctionDef)):
            self.functions[s.name] = FuncInfo(self, None, s)
        elif isinstance(s, ast.ClassDef):
            self.classes[s.name] = ClassInfo(self, s)
        elif isinstance(s, ast.Assign):
            for t in s.targets:
                if isinstance(t, ast.Name):
                    self.constants[t.id] = s.value
        elif isinstance(s, ast.AnnAssign) and isinstance(s.target, ast.Name) and s.value:
            self.constants[s.target.id] = s.value
        elif isinstance(s, ast.Import):
            self.import_nodes.append(s)
            for a in s.names:
                self.imports[a.asname or a.name.split(".")[0]] = (a.name, None)
        elif isinstance(s, ast.ImportFrom):
            self.import_nodes.append(s)
            base = self._abs(s.module, s.level)
            for a in s.names:
                self.imports[a.asname or a.name] = (base, a.name)
        elif isinstance(s, ast.If):
            for x in s.body + s.orelse:
                self._top(x)
        elif isinstance(s, ast.Try):
            for x in s.body:
                self._top(x)

    def _abs(self, module, level):
        if not level:
            return module
        parts = self.name.split(".")
        # a module file: level 1 -> its package
        is_pkg = self.relpath.endswith("__init__.py")
        base = parts if is_pkg else parts[:-1]
        if level > 1:
            base = base[: len(base) - (level - 1)]
        return ".".join(base + ([module] if module else []))


class Program:
    """All python files below <root>/flumine."""

    PKG = "flumine"

    def __init__(self, root, overrides=None):
        self.root = root
        self.modules = {}
        self.overrides = overrides or {}
        pkgdir = os.path.join(root, self.PKG)
        if not os.path.isdir(pkgdir):
            raise AnalysisError("package directory not found: %s" % pkgdir)
        digest = hashlib.sha256()
        nfiles = 0
        pending = []
        for dp, dn, fn in sorted(os.walk(pkgdir)):
            dn.sort()
            for f in sorted(fn):
                if not f.endswith(".py"):
                    continue
                path = os.path.join(dp, f)
                rel = os.path.relpath(path, root)
                if rel in self.overrides:
                    src = self.overrides[rel]
                else:
                    with open(path, encoding="utf-8") as fh:
                        src = fh.read()
                digest.update(rel.encode() + b"\0" + src.encode() + b"\0")
                mod = rel[:-3].replace(os.sep, ".")
                if mod.endswith(".__init__"):
                    mod = mod[: -len(".__init__")]
                pending.append((mod, rel, src))
                nfiles += 1
        # reference-relative normal form (sa/normalise.py): helpers that did not exist when the rules were
        # written are expanded at their call sites, new locals that only cache an attribute chain are removed
        from . import normalise, alpha
        trees = {rel: parse_module(src, rel) for mod, rel, src in pending}
        # syntactic sugar first (applies to every tree): walrus, conditional expressions, all/any ...
        self.specialised_parameters = normalise.specialise_new_parameters(trees)
        if self.specialised_parameters:
            normalise.prune_constant_branches(trees, only=set(self.specialised_parameters))
        normalise.sugar_passes(trees)
        self.inlined_constants = normalise.inline_new_constants(trees)
        self.expanded_helpers = normalise.expand_new_helpers(trees)
        self.comprehension_rewrites = normalise.shape_passes(trees)
        # locals get their reference names back before "new relative to the reference" is decided by name
        for rel, tree in trees.items():
            alpha.normalise_module(tree, rel)
        self.propagated_aliases = normalise.propagate_new_aliases(trees)
        normalise.inline_new_temporaries(trees)
        normalise.thread_new_flags(trees)
        for mod, rel, src in pending:
            self.modules[mod] = ModuleInfo(mod, rel, src, trees[rel])
        for rel in self.overrides:
            if not os.path.exists(os.path.join(root, rel)):
                raise AnalysisError("override for a file that does not exist: %s" % rel)
        self.digest = digest.hexdigest()
        self.nfiles = nfiles
        self.nlines = sum(m.source.count("\n") + 1 for m in self.modules.values())
        self.classes = {}
        self._dup_classes = set()
        for m in self.modules.values():
            for c in m.classes.values():
                if c.name in self.classes:
                    self._dup_classes.add(c.name)
                self.classes.setdefault(c.name, c)
        for c in list(self.all_classes()):
            for b in c.base_names:
                bn = b.split(".")[-1]
                tgt = self._resolve_class_name(c.module, bn)
                if tgt is not None and tgt is not c:
                    c.bases.append(tgt)
                    tgt.subclasses.append(c)
        self._cfg_cache = {}

    # ------------------------------------------------------------------ lookup
    def all_classes(self):
        for m in self.modules.values():
            for c in m.classes.values():
                yield c

    def all_functions(self):
        for m in self.modules.values():
            for f in m.functions.values():
                yield f
            for c in m.classes.values():
                for f in c.methods.values():
                    yield f

    def _resolve_class_name(self, module, name):
        if name in module.classes:
            return module.classes[name]
        imp = module.imports.get(name)
        if imp and imp[0] and imp[0].startswith(self.PKG):
            # follow re-exports one level
            seen = set()
            modname, orig = imp
            while modname and (modname, orig) not in seen:
                seen.add((modname, orig))
                m = self.modules.get(modname)
                if m is None:
                    break
                if orig in m.classes:
                    return m.classes[orig]
                nxt = m.imports.get(orig)
                if not nxt:
                    break
                modname, orig = nxt
            return None
        if imp:
            return None  # external class of the same name
        return None

    def cls(self, name, required=True):
        c = self.classes.get(name)
        if c is None and required:
            raise AnalysisError("anchor vanished: class %s" % name)
        return c

    def module(self, dotted, required=True):
        m = self.modules.get(dotted)
        if m is None and required:
            raise AnalysisError("anchor vanished: module %s" % dotted)
        return m

    def func(self, qual, required=True):
        """'Class.method' (own or inherited) or 'module_short.func' or 'pkg.mod.func'."""
        left, _, name = qual.rpartition(".")
        c = self.classes.get(left)
        if c is not None:
            f = c.find_method(name)
            if f is not None:
                return f
        else:
            for m in self.modules.values():
                if (m.short == left or m.name == left) and name in m.functions:
                    return m.functions[name]
        if required:
            raise AnalysisError("anchor vanished: function %s" % qual)
        return None

    def own_method(self, clsname, name, required=True):
        c = self.cls(clsname, required)
        f = c.methods.get(name) if c else None
        if f is None and required:
            raise AnalysisError("anchor vanished: method %s.%s" % (clsname, name))
        return f

    def constant(self, module_dotted, name, required=True):
        m = self.module(module_dotted, required)
        v = m.constants.get(name) if m else None
        if v is None and required:
            raise AnalysisError("anchor vanished: constant %s.%s" % (module_dotted, name))
        return v

    def enum_members(self, clsname):
        c = self.cls(clsname)
        return list(c.class_attrs.keys())

    def const_value(self, module_dotted, name):
        """Evaluate a module constant made of literals, tuples/lists/sets and Enum member refs
        (returned as 'Enum.MEMBER' strings) without importing anything."""
        node = self.constant(module_dotted, name)
        return self.eval_const(node, self.module(module_dotted))

    def eval_const(self, node, module=None):
        if isinstance(node, ast.Constant):
            return node.value
        if isinstance(node, (ast.List, ast.Tuple)):
            vals = [self.eval_const(e, module) for e in node.elts]
            return vals if isinstance(node, ast.List) else tuple(vals)
        if isinstance(node, ast.Set):
            return set(self.eval_const(e, module) for e in node.elts)
        if isinstance(node, ast.Attribute) and isinstance(node.value, ast.Name):
            return "%s.%s" % (node.value.id, node.attr)
        if isinstance(node, ast.UnaryOp) and isinstance(node.op, ast.USub):
            return -self.eval_const(node.operand, module)
        if isinstance(node, ast.Name) and module is not None and node.id in module.constants:
            return self.eval_const(module.constants[node.id], module)
        raise AnalysisError("constant expression not understood: %s" % ast.unparse(node))

    # ------------------------------------------------------------------ cfg
    def cfg(self, func, oracle=None):
        from .cfg import CFG

        key = (id(func), id(oracle))
        if key not in self._cfg_cache:
            self._cfg_cache[key] = CFG(func, oracle)
        return self._cfg_cache[key]
