"""F10 - live placement: the REST reply is applied after the order stream has already completed
the order (two threads, no lock): the completed order becomes EXECUTABLE again.

Forced schedule at statement granularity: the order-stream processor (main thread) runs between
`_order_logger` (which assigns the bet id) and `order.executable()` inside
BetfairExecution.execute_place (thread pool).  Real flumine classes; only the exchange is a double.
"""
from unittest import mock
from flumine import Flumine, clients, BaseStrategy
from flumine.execution.betfairexecution import BetfairExecution
from flumine.order.trade import Trade
from flumine.order.ordertype import LimitOrder
from flumine.order.orderpackage import BetfairOrderPackage, OrderPackageType
from flumine.order import process
from flumine.markets.market import Market
from flumine.events import events


class Report:
    status, order_status, bet_id, error_code = "SUCCESS", "EXECUTION_COMPLETE", "111", None
    average_price_matched, size_matched = 2.0, 5.0
    placed_date = None


class Resp:
    place_instruction_reports = [Report()]
    elapsed_time = 0.01
    _data = {}


class Current:  # what the order stream says: fully matched
    def __init__(self, order):
        self.bet_id, self.status = "111", "EXECUTION_COMPLETE"
        self.size_matched, self.size_remaining, self.average_price_matched = 5.0, 0.0, 2.0
        self.size_cancelled = self.size_lapsed = self.size_voided = 0.0
        self.market_id, self.customer_order_ref = order.market_id, order.customer_order_ref
        self.customer_strategy_ref = "x"
        self.placed_date = None


class Orders:
    def __init__(self, client, orders):
        self.client, self.orders = client, orders


class Exec(BetfairExecution):
    def place(self, order_package, session):
        return Resp()

    def _order_logger(self, order, instruction_report, package_type):
        super()._order_logger(order, instruction_report, package_type)
        # <-- the main thread processes the order-stream snapshot here
        ev = events.CurrentOrdersEvent([Orders(order.client, [Current(order)])])
        self.flumine._process_current_orders(ev)
        print("  stream processed inside the window:", order.status)


client = clients.BetfairClient(mock.Mock(lightweight=False), order_stream=False)
fw = Flumine(client)
client.execution = Exec(fw)
s = BaseStrategy(market_filter={}, max_live_trade_count=1)
fw.add_strategy(s)
book = mock.Mock(market_id="1.1", publish_time=None, bet_delay=0, status="OPEN")
book.runners = []
market = Market(fw, "1.1", book)
fw.markets.add_market("1.1", market)
trade = Trade("1.1", 1, 0, s)
order = trade.create_order("BACK", LimitOrder(2.0, 5.0))
with mock.patch.object(fw, "process_order_package"):
    market.place_order(order, force=True)
pkg = BetfairOrderPackage(client, "1.1", [order], OrderPackageType.PLACE, 0)
print("before reply:", order.status)
client.execution.execute_place(pkg, mock.Mock())
print("after reply :", order.status, [x.value for x in order.status_log])
print("in live list:", order in list(market.blotter.live_orders), "| trade:", trade.status,
      "| runner context live trades:", s.get_runner_context("1.1", 1, 0).live_trade_count)
