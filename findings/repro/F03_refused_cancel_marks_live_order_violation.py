from harness import *
fw, s, client = make()
with fw.simulated_datetime:
    T0 = 1_700_000_000_000
    r = lambda: [runner(1, atb=[{"price":2.0,"size":100}], atl=[{"price":2.2,"size":100}]), runner(2)]
    feed(fw, mb(T0, runners=r()))
    market = fw.markets.markets["1.100"]
    trade = Trade("1.100", 1, 0, s)
    order = trade.create_order("LAY", LimitOrder(1.5, 5.0, persistence_type="PERSIST"))
    print("place:", market.place_order(order))
    feed(fw, mb(T0+1000, runners=r()))
    print("after ack:", order.status)
    feed(fw, mb(T0+2000, status="SUSPENDED", version=2, runners=r()))
    print("suspended; order:", order.status, "remaining", order.size_remaining)
    print("cancel (refused by MarketValidation):", market.cancel_order(order))
    print("after refused cancel:", order.status, "complete", order.complete, [x.value for x in order.status_log], "remaining", order.size_remaining)
    feed(fw, mb(T0+3000, status="OPEN", version=3, runners=r()))
    print("in live list:", order in list(market.blotter.live_orders), "exposure", market.blotter.get_exposures(s, order.lookup))
