"""F01 (Betdaq twin) - update_order(size_delta, new_price) is validated on the order as it was:
a resting BACK 2.0 x 5 (exposure 5, limits 10/10/10) is increased by 1000 and accepted."""
from unittest import mock
from flumine import Flumine, BaseStrategy
from flumine.clients import BetdaqClient
from flumine.order.trade import Trade
from flumine.order.ordertype import BetdaqLimitOrder
from flumine.markets.market import Market

client = BetdaqClient(mock.Mock(lightweight=False), order_stream=False)
fw = Flumine(client)
s = BaseStrategy(market_filter={}, max_order_exposure=10, max_selection_exposure=10, max_market_exposure=10)
fw.add_strategy(s)
book = mock.Mock(market_id="1.1", publish_time=None, bet_delay=0, status="OPEN", runners=[],
                 number_of_active_runners=2, number_of_winners=1)
market = Market(fw, "1.1", book)
fw.markets.add_market("1.1", market)
sent = []
fw.process_order_package = lambda p: sent.append((p.package_type.name, [o.update_data or o.order_type.info for o in p]))
trade = Trade("1.1", 1, 0, s)
order = trade.create_betdaq_order("LAY", BetdaqLimitOrder(2.0, 5.0, 1, 0, 0))
print("place LAY 2.0 x 5 (exposure 5):", market.place_order(order))
order.bet_id = 77
order.responses.place_response = {"order_id": 77, "status": "Unmatched", "sequence_number": 1, "remaining_size": 5.0}
order.executable()
print("update size_delta=+1000, new_price=500 under limits 10/10/10:", market.update_order(order, size_delta=1000.0, new_price=500.0))
print("sent to the execution layer:", sent[-1][0], sent[-1][1][0].get("DeltaStake"), sent[-1][1][0].get("Price"))
t2 = Trade("1.1", 2, 0, s)
o2 = t2.create_betdaq_order("LAY", BetdaqLimitOrder(500.0, 1005.0, 2, 0, 0))
print("direct placement of LAY 500 x 1005:", market.place_order(o2), "|", o2.violation_msg)
