from harness import *
fw, s, client = make(max_order_exposure=10, max_selection_exposure=10, max_market_exposure=10)
with fw.simulated_datetime:
    T0 = 1_700_000_000_000
    r = lambda: [runner(1, atb=[{"price":2.0,"size":100}], atl=[{"price":900,"size":100}]), runner(2)]
    feed(fw, mb(T0, runners=r()))
    market = fw.markets.markets["1.100"]
    trade = Trade("1.100", 1, 0, s)
    order = trade.create_order("LAY", LimitOrder(1.5, 10.0))   # exposure 5
    print("place:", market.place_order(order))
    feed(fw, mb(T0+1000, runners=r()))
    print("after ack:", order.status)
    print("replace to 800 (exposure 7990 vs limits 10):", market.replace_order(order, 800))
    feed(fw, mb(T0+2000, runners=r()))
    feed(fw, mb(T0+3000, runners=r()))
    for o in market.blotter:
        print(o.side, o.order_type.price, o.order_type.size, o.status, "matched", o.size_matched, "remaining", o.size_remaining)
    print("selection exposure now:", market.blotter.selection_exposure(s, order.lookup), "limit 10")
    # direct placement of the same order is refused:
    t2 = Trade("1.100", 2, 0, s); o2 = t2.create_order("LAY", LimitOrder(800, 10.0))
    print("direct place of LAY 800x10:", market.place_order(o2), o2.violation_msg)
