from harness import *
fw, s, client = make()
with fw.simulated_datetime:
    T0 = 1_700_000_000_000
    r = lambda: [runner(1, atb=[{"price":2.0,"size":100}], atl=[{"price":2.2,"size":100}]), runner(2)]
    feed(fw, mb(T0, runners=r()))
    market = fw.markets.markets["1.100"]
    trade = Trade("1.100", 1, 0, s)
    order = trade.create_order("LAY", LimitOrder(1.5, 5.0))
    market.place_order(order)
    feed(fw, mb(T0+1000, runners=r()))
    print("acked:", order.status)
    try:
        market.place_order(order)
    except Exception as e:
        print("second place ->", type(e).__name__, e)
    print("after rejected duplicate place:", order.status, [x.value for x in order.status_log])
    for i in range(2, 6):
        feed(fw, mb(T0+i*1000, runners=[runner(1, atb=[{"price":2.0,"size":100}], atl=[{"price":2.2,"size":100}], tv=[{"price":1.5,"size":1000*i}]), runner(2)]))
    print("later (trades at 1.5 went through):", order.status, "matched", order.size_matched)
# F09
from flumine.order.ordertype import LimitOrder as LO
for side in ("BACK","LAY"):
    t = Trade("1.1", 9, 0, s); o = t.create_order(side, LO(150.0, 2.0, price_ladder_definition="LINE_RANGE"))
    o.update_client(client); o.simulated.matched=[[0,150.0,2.0]]; o.simulated.size_matched=2.0; o.simulated.average_price_matched=150.0
    o.line_range_result = 150.0
    print(side, "line 150 result 150 profit", o.simulated.profit)
