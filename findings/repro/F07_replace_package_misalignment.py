from harness import *
fw, s, client = make(max_order_exposure=1000, max_selection_exposure=1000, max_live_trade_count=5)
with fw.simulated_datetime:
    T0 = 1_700_000_000_000
    def r(tv=None): return [runner(1, atb=[{"price":2.0,"size":100}], atl=[{"price":2.2,"size":100}], tv=tv), runner(2)]
    feed(fw, mb(T0, runners=r()))
    market = fw.markets.markets["1.100"]
    t1 = Trade("1.100", 1, 0, s); o1 = t1.create_order("LAY", LimitOrder(1.5, 5.0))
    t2 = Trade("1.100", 1, 0, s); o2 = t2.create_order("LAY", LimitOrder(1.4, 5.0))
    with market.transaction() as t:
        print(t.place_order(o1), t.place_order(o2))
    feed(fw, mb(T0+1000, runners=r()))
    print("acked:", o1.status, o2.status)
    with market.transaction() as t:
        print("replace both:", t.replace_order(o1, 1.6), t.replace_order(o2, 1.45))
    # within replace latency (280ms) o1 is fully matched by trades at 1.5
    feed(fw, mb(T0+1100, runners=r(tv=[{"price":1.5,"size":100}])))
    print("o1 after trades:", o1.status, o1.size_matched)
    feed(fw, mb(T0+2000, runners=r(tv=[{"price":1.5,"size":100}])))
    feed(fw, mb(T0+3000, runners=r(tv=[{"price":1.5,"size":100}])))
    for o in market.blotter:
        print(o.bet_id, o.side, o.order_type.price, o.order_type.size, o.status, "matched", o.size_matched, "remaining", o.size_remaining, "trade", o.trade is t1 and "t1" or "t2")
