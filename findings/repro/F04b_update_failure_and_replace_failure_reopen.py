from harness import *
fw, s, client = make(max_order_exposure=1000, max_selection_exposure=1000)
with fw.simulated_datetime:
    T0 = 1_700_000_000_000
    def r(tv=None): return [runner(1, atb=[{"price":2.0,"size":100}], atl=[{"price":2.2,"size":100}], tv=tv), runner(2)]
    feed(fw, mb(T0, runners=r()))
    market = fw.markets.markets["1.100"]
    t1 = Trade("1.100", 1, 0, s); o1 = t1.create_order("LAY", LimitOrder(1.5, 5.0))
    market.place_order(o1)
    feed(fw, mb(T0+1000, runners=r()))
    print("update:", market.update_order(o1, "PERSIST"), o1.status)
    feed(fw, mb(T0+1050, runners=r(tv=[{"price":1.5,"size":100}])))   # fully matched inside update latency
    print("matched while updating:", o1.status, o1.size_matched, "in live:", o1 in list(market.blotter.live_orders))
    feed(fw, mb(T0+2000, runners=r(tv=[{"price":1.5,"size":100}])))
    feed(fw, mb(T0+3000, runners=r(tv=[{"price":1.5,"size":100}])))
    print("after update reply:", o1.status, [x.value for x in o1.status_log], "in live:", o1 in list(market.blotter.live_orders), "trade", t1.status)
    # replace: cancel succeeds, new placement fails (version mismatch) -> original re-opened
    t2 = Trade("1.100", 2, 0, s); o2 = t2.create_order("LAY", LimitOrder(1.5, 5.0))
    market.place_order(o2)
    feed(fw, mb(T0+4000, runners=r()))
    print("replace with stale market version:", market.replace_order(o2, 1.6, market_version=999))
    feed(fw, mb(T0+5000, runners=r()))
    print("after replace reply:", o2.status, [x.value for x in o2.status_log], "remaining", o2.size_remaining)
    feed(fw, mb(T0+6000, runners=r()))
    print("one update later:", o2.status, [x.value for x in o2.status_log])
