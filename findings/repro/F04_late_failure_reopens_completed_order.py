from harness import *
fw, s, client = make()
with fw.simulated_datetime:
    T0 = 1_700_000_000_000
    r = lambda: [runner(1, atb=[{"price":2.0,"size":100}], atl=[{"price":2.2,"size":100}]), runner(2)]
    feed(fw, mb(T0, runners=r()))
    market = fw.markets.markets["1.100"]
    trade = Trade("1.100", 1, 0, s)
    order = trade.create_order("LAY", LimitOrder(1.5, 5.0))   # passive
    print("place:", market.place_order(order))
    feed(fw, mb(T0+1000, runners=r()))
    print("after ack:", order.status, order.bet_id, [x.value for x in order.status_log])
    print("cancel:", market.cancel_order(order))
    # suspension arrives 50ms later (within cancel latency 170ms)
    feed(fw, mb(T0+1050, status="SUSPENDED", version=2, runners=r()))
    print("after suspend:", order.status, "remaining", order.size_remaining, "lapsed", order.size_lapsed, "in live:", order in list(market.blotter.live_orders))
    feed(fw, mb(T0+2000, status="SUSPENDED", version=2, runners=r()))
    print("after late cancel response:", order.status, "complete", order.complete, "in live:", order in list(market.blotter.live_orders))
    feed(fw, mb(T0+3000, status="OPEN", version=3, runners=r()))
    feed(fw, mb(T0+4000, status="OPEN", version=3, runners=r()))
    print("later:", order.status, [x.value for x in order.status_log], "trade", trade.status, "ctx live trades", s.get_runner_context("1.100",1,0).live_trade_count)
