"""F11 - Betdaq: a reply (error code, or API error) to an update that arrives after the order poll
has already completed the order re-opens it; same for a place reply applied after the poll.
Real flumine classes; the exchange is a double.  No forcing is needed for the update cases: the
poll simply runs while the request is in flight."""
from unittest import mock
from flumine import Flumine, clients, BaseStrategy
from flumine.clients import BetdaqClient
from flumine.execution.betdaqexecution import BetdaqExecution
from flumine.order.trade import Trade
from flumine.order.order import BetdaqOrder
from flumine.order.ordertype import BetdaqLimitOrder
from flumine.order.orderpackage import BetdaqOrderPackage, OrderPackageType
from flumine.order.process import process_betdaq_current_order
from flumine.markets.market import Market


def setup():
    client = BetdaqClient(mock.Mock(lightweight=False), order_stream=False)
    fw = Flumine(client)
    s = BaseStrategy(market_filter={})
    fw.add_strategy(s)
    book = mock.Mock(market_id="1.1", publish_time=None, bet_delay=0, status="OPEN", runners=[])
    market = Market(fw, "1.1", book)
    fw.markets.add_market("1.1", market)
    trade = Trade("1.1", 1, 0, s)
    order = trade.create_betdaq_order("BACK", BetdaqLimitOrder(2.0, 5.0, 1, 0, 0))
    with mock.patch.object(fw, "process_order_package"):
        market.place_order(order, force=True)
    order.bet_id = 77
    order.responses.place_response = {"order_id": 77, "status": "Unmatched", "sequence_number": 1}
    order.executable()
    return fw, client, market, trade, order


for case in ("error-code reply", "API error"):
    fw, client, market, trade, order = setup()
    with mock.patch.object(fw, "process_order_package"):
        market.update_order(order, size_delta=1.0, force=True)
    print(case, "| in flight:", order.status)
    # the poll sees the order fully matched (new sequence number) while the update is in flight
    process_betdaq_current_order(order, {"order_id": 77, "status": "Matched", "sequence_number": 2,
                                         "price": 2.0, "matched_size": 5.0, "remaining_size": 0})
    print("   after poll:", order.status)
    ex = BetdaqExecution(fw, 1)
    pkg = BetdaqOrderPackage(client, "1.1", [order], OrderPackageType.UPDATE, 0)
    if case == "API error":
        def update(order_package):
            raise __import__("betdaq").BetdaqError("boom")
    else:
        def update(order_package):
            return [{"order_id": 77, "return_code": 311}]
    ex.update = update
    ex.execute_update(pkg, None)
    print("   after reply:", order.status, [x.value for x in order.status_log], "| trade", trade.status)

# place reply applied after the poll (forced inside the window between bet-id assignment and the
# status decision of BetdaqExecution.execute_place)
def setup_pending():
    client = BetdaqClient(mock.Mock(lightweight=False), order_stream=False)
    fw = Flumine(client)
    s = BaseStrategy(market_filter={})
    fw.add_strategy(s)
    book = mock.Mock(market_id="1.1", publish_time=None, bet_delay=0, status="OPEN", runners=[])
    market = Market(fw, "1.1", book)
    fw.markets.add_market("1.1", market)
    trade = Trade("1.1", 1, 0, s)
    order = trade.create_betdaq_order("BACK", BetdaqLimitOrder(2.0, 5.0, 1, 0, 0))
    with mock.patch.object(fw, "process_order_package"):
        market.place_order(order, force=True)
    return fw, client, market, trade, order


fw, client, market, trade, order = setup_pending()


class Exec(BetdaqExecution):
    def place(self, order_package):
        return [{"customer_reference": int(order.id), "order_id": 78, "return_code": 0}]

    def _order_logger(self, order, instruction_report, package_type):
        super()._order_logger(order, instruction_report, package_type)
        process_betdaq_current_order(order, {"order_id": 78, "status": "Matched", "sequence_number": 2,
                                             "price": 2.0, "matched_size": 5.0, "remaining_size": 0})
        print("place reply | poll processed inside the window:", order.status)


pkg = BetdaqOrderPackage(client, "1.1", [order], OrderPackageType.PLACE, 0)
Exec(fw, 1).execute_place(pkg, None)
print("   after reply:", order.status, [x.value for x in order.status_log], "| trade", trade.status)
