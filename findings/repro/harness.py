import datetime, logging
from betfairlightweight.resources import MarketBook, MarketDefinition
from flumine import FlumineSimulation, clients, BaseStrategy, config
from flumine.events import events
from flumine.order.trade import Trade
from flumine.order.ordertype import LimitOrder
from flumine.order.order import OrderStatus

def mb(pt_ms, status="OPEN", version=1, inplay=False, runners=None, bet_delay=0, market_id="1.100", bsp=False, nwin=1):
    runners = runners or []
    d = {
        "marketId": market_id, "isMarketDataDelayed": False, "status": status, "betDelay": bet_delay,
        "bspReconciled": bsp, "complete": True, "inplay": inplay, "numberOfWinners": nwin,
        "numberOfRunners": len(runners), "numberOfActiveRunners": len([r for r in runners if r["status"]=="ACTIVE"]),
        "totalMatched": 0, "totalAvailable": 0, "crossMatching": True, "runnersVoidable": False, "version": version,
        "runners": runners,
        "publishTime": pt_ms, "streaming_unique_id": 1, "streaming_update": {}, "streaming_snap": True,
        "market_definition": MarketDefinition(**{"bspMarket": False, "turnInPlayEnabled": True, "persistenceEnabled": True, "marketBaseRate": 5,
            "eventId": "1", "eventTypeId": "7", "numberOfWinners": nwin, "bettingType": "ODDS", "marketType": "WIN",
            "marketTime": "2030-01-01T00:00:00.000Z", "suspendTime": "2030-01-01T00:00:00.000Z", "bspReconciled": bsp,
            "complete": True, "inPlay": inplay, "crossMatching": True, "runnersVoidable": False, "numberOfActiveRunners": 2,
            "betDelay": bet_delay, "status": status, "runners": [{"status": r["status"], "sortPriority": i, "id": r["selectionId"]} for i, r in enumerate(runners)],
            "regulators": ["MR_INT"], "discountAllowed": True, "timezone": "UTC", "openDate": "2030-01-01T00:00:00.000Z", "version": version,
            "priceLadderDefinition": {"type": "CLASSIC"}}),
    }
    return MarketBook(**d)

def runner(sel, status="ACTIVE", atb=None, atl=None, tv=None, af=None):
    return {"selectionId": sel, "handicap": 0, "status": status, "adjustmentFactor": af, "lastPriceTraded": None, "totalMatched": 0,
            "ex": {"availableToBack": atb or [], "availableToLay": atl or [], "tradedVolume": tv or []}}

class S(BaseStrategy):
    pass

def make(**kw):
    client = clients.SimulatedClient()
    fw = FlumineSimulation(client=client)
    s = S(market_filter={"markets": []}, **kw)
    fw.add_strategy(s)
    s.historic_stream_ids = {1}
    client.update_account_details()
    config.simulated = True
    return fw, s, client

def feed(fw, book):
    fw._process_market_books(events.MarketBookEvent([book]))
