from harness import *
fw, s, client = make(max_order_exposure=1000, max_selection_exposure=1000, max_live_trade_count=5)
with fw.simulated_datetime:
    T0 = 1_700_000_000_000
    r = lambda st="ACTIVE", af=None: [runner(1, status=st, af=af, atb=[{"price":2.0,"size":100}], atl=[{"price":2.2,"size":100}]), runner(2, af=50.0)]
    feed(fw, mb(T0, runners=r()))
    market = fw.markets.markets["1.100"]
    trade = Trade("1.100", 1, 0, s)
    order = trade.create_order("LAY", LimitOrder(1.5, 10.0))
    print("place:", market.place_order(order))
    feed(fw, mb(T0+1000, runners=r()))
    print("partial cancel 4:", market.cancel_order(order, size_reduction=4.0))
    feed(fw, mb(T0+2000, runners=r()))
    print("after cancel:", order.status, "cancelled", order.size_cancelled, "remaining", order.size_remaining)
    feed(fw, mb(T0+3000, version=2, runners=r("REMOVED", 20.0)))
    feed(fw, mb(T0+4000, version=2, runners=r("REMOVED", 20.0)))
    print("after removal:", order.status, "complete", order.complete, "voided", order.size_voided, "cancelled", order.size_cancelled, "matched", order.size_matched, "remaining", order.size_remaining)
    # second market, same selection id and factor
    feed(fw, mb(T0+5000, market_id="1.200", runners=r()))
    m2 = fw.markets.markets["1.200"]
    t2 = Trade("1.200", 1, 0, s); o2 = t2.create_order("LAY", LimitOrder(1.5, 10.0))
    print("place m2:", m2.place_order(o2))
    feed(fw, mb(T0+6000, market_id="1.200", runners=r()))
    feed(fw, mb(T0+7000, market_id="1.200", version=2, runners=r("REMOVED", 20.0)))
    feed(fw, mb(T0+8000, market_id="1.200", version=2, runners=r("REMOVED", 20.0)))
    print("market 2 order after removal of same runner/factor:", o2.status, "voided", o2.size_voided, "remaining", o2.size_remaining)
