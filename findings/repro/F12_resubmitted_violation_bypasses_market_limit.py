"""F12 - an order refused by the market-exposure limit keeps status VIOLATION; when the strategy submits
the same order object again, get_exposures skips the prospective order itself (VIOLATION is in
PENDING_STATUS), so the market limit no longer sees it and the order is accepted and sent."""
from harness import *
fw, s, client = make(max_order_exposure=None, max_selection_exposure=None, max_market_exposure=10, max_live_trade_count=5)
with fw.simulated_datetime:
    T0 = 1_700_000_000_000
    r = lambda: [runner(1, atb=[{"price": 2.0, "size": 100}], atl=[{"price": 2.2, "size": 100}]), runner(2, atb=[{"price": 2.0, "size": 100}], atl=[{"price": 2.2, "size": 100}]), runner(3)]
    feed(fw, mb(T0, runners=r()))
    market = fw.markets.markets["1.100"]
    a = Trade("1.100", 1, 0, s).create_order("BACK", LimitOrder(3.0, 8.0))
    print("A BACK 8 on runner 1:", market.place_order(a))
    feed(fw, mb(T0 + 1000, runners=r()))
    x = Trade("1.100", 2, 0, s).create_order("BACK", LimitOrder(3.0, 8.0))
    print("X BACK 8 on runner 2, first attempt :", market.place_order(x), x.status, "|", x.violation_msg)
    print("X submitted again                   :", market.place_order(x), x.status)
    feed(fw, mb(T0 + 2000, runners=r()))
    print("market exposure now:", -market.blotter.market_exposure(s, market.market_book), "limit 10; X in blotter:", x.id in market.blotter)
