"""C01 - Exposure limits bound every order that reaches the exchange (the gate, not the numbers)."""

import ast

from sa import AnalysisError
from sa.kinds import (key, utext, call_name, recv_text, calls_in, node_calls, canon_compare, oriented,
                      loop_body_exits_early, all_stores)
from sa.cfg import walk_calls, walk_nodes
from sa.astutil import canon_text as ct

EXPLANATION = (
    "Decided part of C01: the first sentence as a gate property. (R1) a PLACE or REPLACE reaches order.place / "
    "order.replace and the pending list only after _validate_controls has passed (dominance under "
    "force=False, execute=True); (R2) _validate_controls calls every flumine and client control inside one "
    "try whose only handler turns ControlError into a refusal; (R3) OrderValidation, MarketValidation, "
    "StrategyExposure are registered by default in that order and MaxTransactionCount per client; (R4) "
    "_on_error marks the violation and always raises ControlError, __call__ always validates; (R5) "
    "StrategyExposure._validate contains, for each of the three limits, a test `value > strategy.limit` that "
    "is reached for PLACE and REPLACE when the limit is set, refuses on its true edge, whose value depends on "
    "the order's own contribution and on the blotter figure, BACK reading the on-lose and LAY the on-win "
    "figure; (R6) every request parameter that changes what is sent and can raise the risk is visible to the "
    "controls when they run; (R7) at every exposure call the excluded order and the prospective order are not "
    "the same object; (R8) exposure skips exactly PENDING/VIOLATION/EXPIRED orders, counts matched amounts of "
    "completed orders and unmatched amounts of live ones only, remembers nothing between calls, and every "
    "starting-price order adds its whole liability to the outcome it loses on, and line bets are valued at 2.0 (all "
    "others at their own price) on every path to the contribution; (R9) the control-free placement path "
    "(execute=False) is used only by the two replace handlers, and the replacing order takes its price and size from "
    "the place half of the replace report. Not decided: the exposure arithmetic and the "
    "second sentence of the property (loss bound over all later histories)."
)
ASSUMPTIONS = ["strategies place orders through market.place_order / replace_order or a Transaction (public API)"]

LIMITS = ("max_order_exposure", "max_selection_exposure", "max_market_exposure")
# request parameters that change the instruction sent and can increase the worst-case loss
RISK_PARAMS = [("replace_order", "new_price", "REPLACE"), ("update_order", "size_delta", "UPDATE (Betdaq)"),
               ("update_order", "new_price", "UPDATE (Betdaq)")]


def control_always_validates(ctx, rep, R):
    """calling a control runs its _validate on that order, on every path (shared with C17-R2)"""
    prog = ctx.prog
    call = prog.own_method("BaseControl", "__call__")
    cs = [c for c in walk_calls(call.node.body) if call_name(c) == "_validate"]
    cfgc = ctx.cfg(call)
    good = len(cs) == 1 and [utext(a) for a in cs[0].args] == call.params[1:3]
    if good:
        n = [x for x in cfgc.live_nodes() if cs[0] in walk_calls(x.exprs)][0]
        good = cfgc.unconditional(n.id)
    rep.check(good, R, key(call, None, "a control always validates the order it is given"), call)
    for sc in prog.cls("BaseControl").all_subclasses():
        rep.check("__call__" not in sc.methods and "_on_error" not in sc.methods, R,
                  "%s does not override __call__ / _on_error" % sc.name)


def run(ctx, rep):
    prog, res = ctx.prog, ctx.res
    from rules.c02 import validation_node

    # ------------------------------------------------------------------ R1 gate
    for mname, mut in (("place_order", "place"), ("replace_order", "replace")):
        f = prog.own_method("Transaction", mname)
        cfg = ctx.cfg(f)
        vnode, pass_lab, refuse_lab = validation_node(cfg, f)
        assume = {"force": False}
        if "execute" in f.params:
            assume["execute"] = True
        blocked = cfg.assume(assume)
        targets = [n for n, c in node_calls(cfg, mut) if recv_text(c) == "order"]
        targets += [n for n, c in node_calls(cfg, "append") if (recv_text(c) or "").startswith("self._pending_")]
        rep.floor("R1", "send points in %s" % mname, len(targets), 2)
        wo = cfg.reachable(cfg.entry, (), blocked | {(vnode.id, pass_lab)})
        for n in targets:
            rep.check(n.id not in wo, "R1", key(f, n.exprs[0], "only after the controls passed"), f, n.exprs[0],
                      "an order can be queued for the exchange without having passed the exposure controls",
                      cfg.fmt_path(cfg.path(cfg.entry, n.id, (), blocked | {(vnode.id, pass_lab)})) if n.id in wo else None)
        from rules.c02 import validation_wrappers
        vcs = [c for c in calls_in(vnode, "_validate_controls")]
        for wname, wf in validation_wrappers(f).items():
            if calls_in(vnode, wname):
                vcs += [c for c in walk_calls(wf.node.body) if call_name(c) == "_validate_controls"]
        pts = {utext(c.args[1]) for c in vcs if len(c.args) > 1}
        rep.check(pts == {"OrderPackageType.%s" % mut.upper()}, "R1", key(f, None, "validated as %s" % mut.upper()), f, None, str(sorted(pts)))

    # ------------------------------------------------------------------ R2 all controls, one handler
    vc = prog.own_method("Transaction", "_validate_controls")
    cfg = ctx.cfg(vc)
    from sa.kinds import sbody
    want_iters = {"self.market.flumine.trading_controls", "self._client.trading_controls"}
    loops = [lp for lp in walk_nodes(vc.node.body, ast.For) if utext(lp.iter) in want_iters]
    good = {utext(lp.iter) for lp in loops} == want_iters and len(loops) == 2
    inits = []
    for lp in loops:
        calls = [c for c in walk_calls(lp.body)]
        calls = [c for c in calls if not (isinstance(c.func, ast.Attribute) and utext(c.func.value) == "logger")]
        good = good and len(sbody(lp.body)) == 1 and len(calls) == 1 and utext(calls[0].func) == utext(lp.target) \
            and [utext(a) for a in calls[0].args] == vc.params[1:3] and not loop_body_exits_early(lp)
        li = [x for x in cfg.live_nodes() if x.kind == "for_init" and x.ast is lp]
        good = good and len(li) == 1 and not cfg.guards(li[0].id)
        inits += li
    if good:
        rets = [x for x in cfg.live_nodes() if x.kind == "return"]
        all_handlers = [x for x in cfg.live_nodes() if x.kind == "except"]
        # the handler that turns a refusal into False; further handlers may only sit inside it (a hook called
        # after the refusal, contained)
        handlers = [x for x in all_handlers if not any(o is not x and cfg.dominates(o.id, x.id) for o in all_handlers)]
        good = len(handlers) == 1 and utext(handlers[0].ast.type) == "ControlError" and \
            {utext(x.ast.value) if x.ast.value is not None else "None" for x in rets} == {"True", "False"}
        for x in rets:
            if utext(x.ast.value) == "False":
                # refused: only out of the ControlError handler
                good = good and cfg.dominates(handlers[0].id, x.id)
            else:
                # passed: only after both lists were run through without a ControlError
                done = [(n_.id, "done") for n_ in cfg.live_nodes() if n_.kind == "for" and n_.ast in loops]
                good = good and all(cfg.dominates(i_.id, x.id) for i_ in inits) and \
                    handlers[0].id not in {a for a in cfg.reachable(cfg.entry) if cfg.dominates(a, x.id)}
        good = good and cfg.exit not in {m for n_ in cfg.live_nodes() if n_.kind not in ("return",) for l, m in n_.succ}
    rep.check(good, "R2", key(vc, None, "every flumine and client control is called; ControlError => False, else True"), vc)

    # ------------------------------------------------------------------ R3 default registration
    init = prog.own_method("BaseFlumine", "__init__")
    cfg = ctx.cfg(init)
    regs = [(n, c) for n, c in node_calls(cfg, "add_trading_control")]
    names = [utext(c.args[0]) for n, c in sorted(regs, key=lambda x: x[1].lineno)]
    uncond = all(cfg.unconditional(n.id) for n, c in regs)
    need = ["OrderValidation", "MarketValidation", "StrategyExposure"]
    have = [n for n in names if n in need]
    rep.check(have == need and uncond, "R3",
              key(init, None, "default trading controls registered unconditionally, validation before exposure"), init,
              None, str(names))
    atc = prog.own_method("BaseFlumine", "add_trading_control")
    aps = [c for c in walk_calls(atc.node.body) if call_name(c) == "append"]
    rep.check(len(aps) == 1 and recv_text(aps[0]) == "self.trading_controls" and isinstance(aps[0].args[0], ast.Call)
              and utext(aps[0].args[0].func) == atc.params[1], "R3",
              key(atc, None, "registration appends an instance of the control"), atc)
    for f, s, t, kind in all_stores(prog, "trading_controls"):
        rep.check(f.name == "__init__", "R3", "trading_controls rebound in " + key(f, s), f, s)
    ac = prog.own_method("BaseFlumine", "add_client")
    rep.check(any(call_name(c) == "add_client_control" and utext(c.args[1]) == "MaxTransactionCount"
                  for c in walk_calls(ac.node.body)), "R3", key(ac, None, "transaction limit control per client"), ac)

    # ------------------------------------------------------------------ R4 refusal mechanics
    oe = prog.own_method("BaseControl", "_on_error")
    cfg = ctx.cfg(oe)
    vi = [n for n, c in node_calls(cfg, "violation") if recv_text(c) == oe.params[1]]
    ra = [n for n in cfg.live_nodes() if n.kind == "raise" and utext(n.ast.exc.func) == "ControlError"]
    good = len(vi) == 1 and len(ra) == 1 and cfg.exit not in cfg.reachable(cfg.entry) and \
        cfg.dominates(vi[0].id, ra[0].id) and cfg.unconditional(vi[0].id)
    rep.check(good, "R4", key(oe, None, "marks the violation, then always raises ControlError"), oe)
    control_always_validates(ctx, rep, "R4")

    # ------------------------------------------------------------------ R5 the three limit tests
    se = prog.own_method("StrategyExposure", "_validate")
    cfg = ctx.cfg(se)
    _r5(ctx, rep, se, cfg)

    # ------------------------------------------------------------------ R6 counted in full
    reads = _control_reads(ctx)
    for mname, param, what in RISK_PARAMS:
        f = prog.own_method("Transaction", mname)
        cfg = ctx.cfg(f)
        vnode, pass_lab, refuse_lab = validation_node(cfg, f)
        vcs_ = [c for c in calls_in(vnode, "_validate_controls")]
        if not vcs_:
            from rules.c02 import validation_wrappers
            vcs_ = [c for wname in validation_wrappers(f) for c in calls_in(vnode, wname)]
        if not vcs_:
            raise AnalysisError("%s: validation call not found in the validation test" % f.qual)
        vcall = vcs_[0]
        passed = any(param in [n.id for n in ast.walk(a) if isinstance(n, ast.Name)]
                     for a in list(vcall.args) + [k.value for k in vcall.keywords])
        stored = False
        for n in cfg.live_nodes():
            if n.kind == "stmt" and param in [x.id for e in n.exprs for x in ast.walk(e) if isinstance(x, ast.Name)]:
                if cfg.dominates(n.id, vnode.id) and n.id != vnode.id:
                    stored = True
        # does the exposure control validate this package type at all?
        rep.check(passed or stored, "R6", key(f, None, "%s visible to the controls" % param), f, vcall,
                  "`%s` changes the %s instruction and can raise the worst-case loss, but it reaches the order only "
                  "after the controls have run; StrategyExposure reads %s, i.e. the figures of the order as it was" % (
                      param, what, sorted(reads)[:4]))

    # ------------------------------------------------------------------ R7 exclusion vs new order
    n_calls = 0
    for fn in prog.all_functions():
        for c in walk_calls(fn.node.body):
            if call_name(c) in ("market_exposure", "get_exposures") and isinstance(c.func, ast.Attribute):
                kws = {k.arg: k.value for k in c.keywords}
                if "exclusion" not in kws and "new_order" not in kws:
                    continue
                n_calls += 1
                ex = _possible_values(fn, kws.get("exclusion"))
                no = _possible_values(fn, kws.get("new_order"))
                common = (ex & no) - {"None"}
                rep.check(not common, "R7", key(fn, None, "%s(): exclusion and new_order never denote the same order" % call_name(c)),
                          fn, c, "both can be `%s`: get_exposures skips every order equal to the exclusion, including the "
                                 "prospective one, so the order is left out of the figure entirely" % sorted(common))
    rep.floor("R7", "exposure calls with exclusion / new_order", n_calls, 2)

    # ------------------------------------------------------------------ R8 which orders are counted
    ge = prog.own_method("Blotter", "get_exposures")
    cfg = ctx.cfg(ge)
    pend = prog.const_value("flumine.markets.blotter", "PENDING_STATUS")
    rep.check(sorted(pend) == ["OrderStatus.EXPIRED", "OrderStatus.PENDING", "OrderStatus.VIOLATION"], "R8",
              "exposure leaves out exactly PENDING / VIOLATION / EXPIRED orders", None, None, str(pend))
    # which orders contribute: decided over the finite domain
    #   stored/prospective x status pending-or-refused / live / complete x excluded or not
    from rules.c05 import reach_under
    loops = [lp for lp in walk_nodes(ge.node.body, ast.For) if utext(lp.target) == "order"]
    if len(loops) != 1:
        raise AnalysisError("get_exposures: loop over the orders not found")
    head = [n for n in cfg.live_nodes() if n.kind == "for" and n.ast is loops[0]][0]
    start = [m for l, m in head.succ if l == "iter"][0]
    matched = [n for n, c in node_calls(cfg, "append") if recv_text(c) in ("mb", "ml")]
    unmatched = [n for n, c in node_calls(cfg, "append") if recv_text(c) in ("ub", "ul")]
    rep.floor("R8", "matched / unmatched contributions", len(matched) + len(unmatched), 4)
    # the figures are recomputed from the orders on every call: a remembered result would go stale when an
    # order's status changes without the blotter being touched (PENDING -> EXECUTABLE on acknowledgement)
    from sa.kinds import get_effects
    eff8 = get_effects(ctx)
    for q in ("Blotter.get_exposures", "Blotter.market_exposure", "Blotter.selection_exposure"):
        cn_, mn_ = q.split(".")
        g8 = prog.cls(cn_).methods.get(mn_)
        if g8 is None:
            continue
        own8 = [(n_, d_) for n_, d_ in eff8.own_effects(g8, g8.node.body) if d_.split()[1].startswith("self.")]
        rep.check(not own8, "R8", key(g8, None, "exposure is computed from the orders on every call, nothing is remembered"), g8,
                  own8[0][0] if own8 else None, "; ".join(d for _, d in own8[:3]))
    bad = []
    n_cases = 0
    for prospective in (False, True):
        for state in ("pending_or_refused", "live", "complete"):
            for excluded in (False, True):
                def ev(e, prospective=prospective, state=state, excluded=excluded):
                    t = utext(e)
                    if t == ct("order == exclusion"):
                        return excluded
                    if t == ct("order != exclusion"):
                        return not excluded
                    if t == "order.status in PENDING_STATUS":
                        return state == "pending_or_refused"
                    if t == "order.complete":
                        return state in ("complete",) or (state == "pending_or_refused")
                    if t == "order is not new_order":
                        return not prospective
                    if t == "order is new_order":
                        return prospective
                    if t in ("_size_matched", "order_type_price", "_size_remaining", "order_type_price and _size_remaining"):
                        return True
                    if t == "order.order_type.ORDER_TYPE == ORDER_TYPE_LIMIT":
                        return True
                    return None
                n_cases += 1
                m_hit = bool(reach_under(cfg, start, {n.id for n in matched}, ev, stop={head.id}))
                u_hit = bool(reach_under(cfg, start, {n.id for n in unmatched}, ev, stop={head.id}))
                if excluded and not prospective:
                    want_m = want_u = False
                elif excluded and prospective:
                    want_m = want_u = None  # exclusion == new_order: reported by R7
                elif prospective:
                    want_m = want_u = True
                else:
                    want_m = state != "pending_or_refused"
                    want_u = state == "live"
                if want_m is not None and (m_hit, u_hit) != (want_m, want_u):
                    bad.append("%s order, %s%s: matched counted=%s unmatched counted=%s, expected %s/%s" % (
                        "prospective" if prospective else "stored", state, ", excluded" if excluded else "", m_hit, u_hit,
                        want_m, want_u))
    rep.note("exposure_membership_cases", n_cases)
    rep.check(not bad, "R8", key(ge, None, "stored orders: pending/refused skipped, matched always, unmatched while live; "
                                           "the prospective order is counted whatever its own status"), ge, None, "; ".join(bad))
    # starting-price orders: every one of them adds its whole liability to the figure of the outcome it loses on
    # (BACK: the selection loses, LAY: it wins) - accumulated, one term per order
    sp_terms = {}
    sp_bad = []
    for n in cfg.live_nodes():
        if n.kind != "stmt" or not any("order.order_type.liability" in utext(e) for e in n.exprs):
            continue
        if n.ast not in list(ast.walk(loops[0])):
            continue
        gs = [(utext(g.exprs[0]), pol) for g, pol in cfg.guards(n.id)]
        side = "BACK" if ("order.side == 'BACK'", True) in gs else ("LAY" if ("order.side == 'BACK'", False) in gs or
                                                                    ("order.side == 'LAY'", True) in gs else "?")
        st = n.ast
        if isinstance(st, ast.AugAssign) and isinstance(st.target, ast.Name) and utext(st.value) == "order.order_type.liability" \
                and isinstance(st.op, ast.Sub) and ("order.order_type.ORDER_TYPE in ORDER_TYPES_SP", True) in gs:
            sp_terms.setdefault(side, set()).add(st.target.id)
        else:
            sp_bad.append(utext(st))
    tot = {}
    from sa.kinds import resolve_local
    for r2 in walk_nodes(ge.node.body, ast.Return):
        if isinstance(r2.value, ast.Dict):
            for k2, v2 in zip(r2.value.keys, r2.value.values):
                if isinstance(k2, ast.Constant) and k2.value in ("worst_possible_profit_on_win", "worst_possible_profit_on_lose"):
                    tot[k2.value] = resolve_local(ge, v2)   # the figure as returned, named by a local or written in place
    good_sp = not sp_bad and set(sp_terms) == {"BACK", "LAY"} and all(len(v) == 1 for v in sp_terms.values())
    if good_sp:
        b, l = list(sp_terms["BACK"])[0], list(sp_terms["LAY"])[0]
        def plus_terms(e):
            if isinstance(e, ast.BinOp) and isinstance(e.op, ast.Add):
                return plus_terms(e.left) + plus_terms(e.right)
            return [utext(e)]
        good_sp = b != l and b in plus_terms(tot.get("worst_possible_profit_on_lose", ast.Constant(value=0))) and \
            l in plus_terms(tot.get("worst_possible_profit_on_win", ast.Constant(value=0)))
        for nm in (b, l):
            st_all = [x for x in walk_nodes(ge.node.body, (ast.Assign, ast.AugAssign))
                      if nm in [utext(t) for t in (x.targets if isinstance(x, ast.Assign) else [x.target])]]
            inits = [x for x in st_all if isinstance(x, ast.Assign)]
            good_sp = good_sp and len(inits) == 1 and utext(inits[0].value) in ("0.0", "0") and \
                inits[0] not in list(ast.walk(loops[0])) and len(st_all) == 2
    rep.check(good_sp, "R8", key(ge, None, "every starting-price order adds its whole liability to the outcome it loses on "
                                           "(BACK: on lose, LAY: on win)"), ge, None,
              "terms: %s; other uses of the liability: %s" % (sp_terms, sp_bad))
    sides = {}
    for n, c in node_calls(cfg, "append"):
        r = recv_text(c)
        if r in ("mb", "ml", "ub", "ul"):
            gs = [(utext(g.exprs[0]), pol) for g, pol in cfg.guards(n.id)]
            back = ("_order_side == 'BACK'", True) in gs or ("order.side == 'BACK'", True) in gs
            lay = ("_order_side == 'BACK'", False) in gs or ("order.side == 'BACK'", False) in gs
            sides[r] = "BACK" if back else ("LAY" if lay else "?")
    rep.check(sides == {"mb": "BACK", "ml": "LAY", "ub": "BACK", "ul": "LAY"}, "R8",
              key(ge, None, "back amounts go to the back lists and lay amounts to the lay lists"), ge, None, str(sides))
    # counted in full: the amounts are the order's own matched / remaining sizes, untouched
    prov = {}
    for n, c in node_calls(cfg, "append"):
        r = recv_text(c)
        if r in ("mb", "ml", "ub", "ul") and isinstance(c.args[0], ast.Tuple) and len(c.args[0].elts) == 2:
            prov.setdefault(r, []).append((utext(c.args[0].elts[0]), utext(c.args[0].elts[1])))
    defs = {}
    for s2 in walk_nodes(ge.node.body, (ast.Assign, ast.AugAssign)):
        for t in (s2.targets if isinstance(s2, ast.Assign) else [s2.target]):
            defs.setdefault(utext(t), []).append(utext(s2.value) if isinstance(s2, ast.Assign) else "aug:" + utext(s2))
    ok_prov = True
    for r, vals in prov.items():
        for pv, sv in vals:
            want_s = "order.size_matched" if r in ("mb", "ml") else "order.size_remaining"
            ok_prov = ok_prov and defs.get(sv) == [want_s]
            want_p = {"mb": ["2.0", "order.average_price_matched"], "ml": ["2.0", "order.average_price_matched"],
                      "ub": ["2.0", "order.order_type.price"], "ul": ["2.0", "order.order_type.price"]}[r]
            ok_prov = ok_prov and sorted(defs.get(pv, [])) == sorted(want_p)
    rep.check(ok_prov and len(prov) == 4, "R8", key(ge, None, "each order is counted with its own full matched / remaining size and price"),
              ge, None, "size and price definitions: %s" % {k: v for k, v in defs.items() if k.startswith("_size") or "price" in k})
    # ... and at its own price on every way to the contribution: line bets are struck at 2.0 (matched part and
    # remainder alike, whatever else is true of the order), everything else at the order's own price - decided per
    # contribution by blocking the other side of the LINE_RANGE test and asking which definition of the price
    # variable every path passes last
    lr_atom = "order.order_type.price_ladder_definition == 'LINE_RANGE'"
    lr_conds = [n for n in cfg.live_nodes() if n.kind == "cond" and utext(n.exprs[0]) == lr_atom]
    bad_price = []
    for n, c in node_calls(cfg, "append"):
        r = recv_text(c)
        if r not in ("mb", "ml", "ub", "ul") or not (isinstance(c.args[0], ast.Tuple) and len(c.args[0].elts) == 2):
            continue
        pv = utext(c.args[0].elts[0])
        own = "order.average_price_matched" if r in ("mb", "ml") else "order.order_type.price"
        dnodes = [m for m in cfg.live_nodes() if m.kind == "stmt" and isinstance(m.ast, ast.Assign)
                  and pv in [utext(t) for t in m.ast.targets]]
        d2 = {m.id for m in dnodes if utext(m.ast.value) == "2.0"}
        dp = {m.id for m in dnodes if utext(m.ast.value) == own}
        for line, want, other in ((True, d2, dp), (False, dp, d2)):
            blocked = {(x.id, "F" if line else "T") for x in lr_conds}
            reach = cfg.reachable(start, blocked_edges=blocked)
            if n.id not in reach:
                continue
            ok = cfg.all_paths_pass(start, n.id, want, blocked_edges=blocked, blocked_nodes={head.id}) or start in want
            for o in other & reach:
                # a definition of the other kind that can still reach the contribution must be overwritten on the way
                if n.id in cfg.reachable(o, blocked_nodes=want | {head.id}, blocked_edges=blocked, include_src=False):
                    ok = False
            if not ok:
                bad_price.append("%s of a %s order: price variable `%s` is not %s on every path" % (
                    r, "line" if line else "non-line", pv, "2.0" if line else own))
    rep.check(bool(lr_conds) and not bad_price, "R8",
              key(ge, None, "line bets are valued at 2.0 and all others at their own price, on every path to the contribution"),
              ge, None, "; ".join(bad_price))
    status_atoms = sorted({utext(n.exprs[0]) for n in cfg.live_nodes() if n.kind == "cond"
                           and any(w in utext(n.exprs[0]) for w in ("status", "update_data", "complete"))})
    rep.check(status_atoms == ["order.complete", "order.status in PENDING_STATUS"], "R8",
              key(ge, None, "the only state-dependent decisions are the pending/refused skip and live-vs-complete"), ge, None,
              str(status_atoms))
    # remaining size of an acknowledged live order whose exchange object carries no remaining size
    # (place response): falls back to requested - matched, never to zero
    sr = prog.own_method("BetfairOrder", "size_remaining")
    tries = walk_nodes(sr.node.body, ast.Try)
    good = len(tries) == 1 and len(sr.node.body) == 1
    if good:
        t = tries[0]
        plain = [a for a in walk_nodes(t.body, ast.Attribute) if a.attr == "size_remaining" and utext(a.value) == "self.current_order"]
        dyn = [c for c in walk_calls(t.body) if call_name(c) == "getattr"]
        h = t.handlers
        good = bool(plain) and not dyn and len(h) == 1 and utext(h[0].type) == "AttributeError"
        if good:
            rets = [utext(r.value) for r in walk_nodes(h[0].body, ast.Return) if r.value is not None]
            good = "round(size - self.size_matched, 2)" in rets and "size" in rets and "self.order_type.liability" in rets
    rep.check(good, "R8", key(sr, None, "a live order without an exchange remaining size counts requested - matched, not zero"), sr,
              None, "between the placement response and the first order-stream update the resting part must stay in the exposure")
    # EXPIRED is never assigned anywhere
    for fn in prog.all_functions():
        for c in walk_calls(fn.node.body):
            if call_name(c) == "_update_status" and c.args and utext(c.args[0]) == "OrderStatus.EXPIRED":
                rep.violation("R8", "EXPIRED assigned in " + key(fn, c), fn, c)

    # ------------------------------------------------------------------ R9 the control-free path
    n9 = 0
    for fn in prog.all_functions():
        for c in walk_calls(fn.node.body):
            if call_name(c) == "place_order":
                kws = {k.arg: utext(k.value) for k in c.keywords}
                pos_exec = utext(c.args[2]) if len(c.args) > 2 else None
                ex = kws.get("execute", pos_exec)
                if fn.qual in ("Market.place_order",):
                    continue  # the forwarding wrapper itself
                if ex is not None and ex != "True":
                    n9 += 1
                    rep.check(fn.name == "execute_replace" and fn.cls is not None
                              and fn.cls.is_subclass_of("BaseExecution") and ex == "False"
                              and utext(c.args[0]) == "replacement_order", "R9",
                              "control-free placement in " + key(fn, c), fn, c,
                              "execute=False skips the controls; only the replace handlers may use it, for the "
                              "replacement of an order whose replace request was validated")
    rep.floor("R9", "place_order(execute=False) sites", n9, 2)
    replacement_values(ctx, rep, "R9")


def replacement_values(ctx, rep, R):
    """the order that replaces a replaced one carries what the exchange (or the simulated exchange) reported:
    the price and size of the place half of the replace report - not values kept on the replaced order, which
    the cancel half has already reset (the figures of R8 value the new order at its own price and size)"""
    from sa.kinds import expanded
    prog = ctx.prog
    want = {"BetfairExecution": ("instruction_report.place_instruction_reports.instruction.limit_order.price",
                                 "instruction_report.place_instruction_reports.instruction.limit_order.size"),
            "SimulatedExecution": ("instruction.get('newPrice')", "cancel_instruction_report.size_cancelled")}
    n = 0
    for cn, (wp, ws) in want.items():
        fn = prog.own_method(cn, "execute_replace")
        for c in walk_calls(fn.node.body):
            if call_name(c) == "create_order_replacement":
                n += 1
                got = tuple(expanded(fn, a) for a in c.args[1:3]) if len(c.args) >= 3 else ()
                rep.check(len(c.args) >= 3 and utext(c.args[0]) == "order" and got == (wp, ws), R,
                          key(fn, c, "the replacing order takes price and size from the place half of the replace report"),
                          fn, c, "got %s" % (got,))
    rep.floor(R, "create_order_replacement sites in the replace handlers", n, 2)


def _r5(ctx, rep, se, cfg):
    conds = [n for n in cfg.live_nodes() if n.kind == "cond"]
    found = {}
    for n in conds:
        c = canon_compare(n.exprs[0])
        if not c:
            continue
        for L in LIMITS:
            o = oriented(c, "strategy." + L)
            if o and o[2] != "None":
                found.setdefault(L, []).append((n, o))
    for L in LIMITS:
        cands = found.get(L, [])
        if not rep.check(len(cands) == 1, "R5", key(se, None, "one test against strategy.%s" % L), se, None,
                         "found %d" % len(cands)):
            continue
        n, o = cands[0]
        # limit on the left after orientation: `limit < value`  <=>  value > limit
        # `limit < value` refuses on its true edge; `limit >= value` (the source said `not value <= limit`) on
        # its false edge - the same test for numbers, and NaN is refused as well
        edge = {"<": "T", ">=": "F"}.get(o[1])
        rep.check(edge is not None, "R5", key(se, n.exprs[0], "refuses when the value exceeds the limit (strict >)"), se,
                  n.exprs[0], "canonical form: %s %s %s" % o)
        tgt = [m for l, m in n.succ if l == (edge or "T")][0]
        refusing = {m.id for m in cfg.live_nodes() if any(call_name(c) == "_on_error" for c in calls_in(m))}
        rep.check(tgt in refusing or cfg.all_paths_pass(tgt, cfg.exit, refusing), "R5",
                  key(se, n.exprs[0], "the true edge refuses the order"), se, n.exprs[0])
        # reached for PLACE and REPLACE when the limit is set
        for pt in ("PLACE", "REPLACE"):
            blocked = set()
            for x in conds:
                v = _pt_atom(x.exprs[0], pt, L)
                if v is not None:
                    blocked.add((x.id, "F" if v else "T"))
            r = cfg.reachable(cfg.entry, (), blocked)
            rep.check(n.id in r, "R5", key(se, None, "%s tested for %s requests" % (L, pt)), se, n.exprs[0],
                      "the limit test is not reached for this package type")
            # ... on every way through: with the limit set, a request of this type is accepted (the control
            # returns normally) only after the test - nothing lets an order round it
            refusals = [x.id for x in cfg.live_nodes() if any(call_name(c) == "_on_error" for c in calls_in(x))]
            rep.check(cfg.all_paths_pass(cfg.entry, cfg.exit, [n.id] + refusals, blocked), "R5",
                      key(se, None, "%s cannot be bypassed for %s requests" % (L, pt)), se, n.exprs[0],
                      "a path accepts the order without the limit test: %s" % cfg.fmt_path(
                          cfg.path(cfg.entry, cfg.exit, [n.id] + refusals, blocked) or []))
        # the figure compared is one computed from this order: with the limit set, every way to the test passes a
        # definition of the order's own risk that is not a constant default (a default of 0.0 that survives when the
        # computation is skipped makes the test vacuous)
        if L in ("max_order_exposure", "max_selection_exposure"):
            oe_defs = [x for x in cfg.live_nodes() if x.kind == "stmt" and isinstance(x.ast, ast.Assign)
                       and "order_exposure" in [utext(t) for t in x.ast.targets]]
            # (a default of None is not silent: comparing it with the limit raises, and nothing is accepted)
            real = {x.id for x in oe_defs if not (isinstance(x.ast.value, ast.Constant)
                                                  and isinstance(x.ast.value.value, (int, float))
                                                  and not isinstance(x.ast.value.value, bool))}
            for pt in ("PLACE", "REPLACE"):
                blocked = set()
                for x in conds:
                    v = _pt_atom(x.exprs[0], pt, L)
                    if v is not None:
                        blocked.add((x.id, "F" if v else "T"))
                refusals = [x.id for x in cfg.live_nodes() if any(call_name(c) == "_on_error" for c in calls_in(x))]
                rep.check(bool(real) and cfg.all_paths_pass(cfg.entry, n.id, real | set(refusals), blocked), "R5",
                          key(se, None, "%s (%s): the order's own risk is computed on every way to the test" % (L, pt)), se,
                          n.exprs[0], "a path reaches the test with a constant default: %s" % cfg.fmt_path(
                              cfg.path(cfg.entry, n.id, real | set(refusals), blocked) or []))
        # value dependencies
        value = o[2]
        deps = _deps(se, value)
        if L == "max_order_exposure":
            good = any("order.order_type" in d for d in deps)
            what = "the order's own size / price / liability"
        elif L == "max_selection_exposure":
            good = "order_exposure" in deps and any("get_exposures" in d for d in deps)
            what = "order_exposure + the blotter's selection figure"
        else:
            good = any("market_exposure" in d and "new_order=order" in d.replace(" ", "") for d in deps)
            what = "market_exposure(..., new_order=order)"
        rep.check(good, "R5", key(se, None, "%s: compared value depends on %s" % (L, what)), se, n.exprs[0],
                  "dependencies: %s" % sorted(deps)[:6])
    # side table for the selection figure
    tab = {}
    for n in cfg.live_nodes():
        if n.kind == "stmt" and isinstance(n.ast, ast.Assign) and utext(n.ast.targets[0]) == "current_selection_exposure":
            gs = [(utext(g.exprs[0]), pol) for g, pol in cfg.guards(n.id)]
            side = "BACK" if ("order.side == 'BACK'", True) in gs else ("LAY" if ("order.side == 'BACK'", False) in gs else "?")
            tab[side] = utext(n.ast.value)
    rep.check(tab == {"BACK": "-current_exposures['worst_possible_profit_on_lose']",
                      "LAY": "-current_exposures['worst_possible_profit_on_win']"}, "R5",
              key(se, None, "BACK risks the on-lose figure, LAY the on-win figure"), se, None, str(tab))
    # order exposure: BACK = size, LAY = (price - 1) * size
    tab = {}
    for n in cfg.live_nodes():
        if n.kind == "stmt" and isinstance(n.ast, ast.Assign) and utext(n.ast.targets[0]) == "order_exposure":
            gs = [(utext(g.exprs[0]), pol) for g, pol in cfg.guards(n.id)]
            from sa.kinds import expanded as _exp5
            if ("order.side == 'BACK'", True) in gs:
                tab["BACK"] = _exp5(se, n.ast.value)
            elif ("order.side == 'BACK'", False) in gs:
                tab["LAY"] = _exp5(se, n.ast.value)   # `price` read back as the order's price, however it is named
    rep.check(tab == {"BACK": "size", "LAY": "(order.order_type.price - 1) * size"}, "R5",
              key(se, None, "per-order risk: BACK stake, LAY (price - 1) x stake"), se, None, str(tab))


def _pt_atom(e, pt, L):
    """value of an atom under package_type == pt, limit L set (others unknown)"""
    t = utext(e).replace(" ", "")
    if t == "package_type==OrderPackageType.%s" % pt:
        return True
    if t.startswith("package_type==OrderPackageType."):
        return False
    if t.startswith("package_typein("):
        return ("OrderPackageType.%s" % pt) in t
    if t == "strategy.%sisnotNone" % L:
        return True
    if t == "strategy.%sisNone" % L:
        return False
    return None


def _deps(func, name, depth=0, seen=None):
    """flow-insensitive backward slice: texts of the values assigned to `name` and, transitively, to the
    names they mention"""
    seen = seen if seen is not None else set()
    out = set()
    if name in seen or depth > 6:
        return out
    seen.add(name)
    for s in walk_nodes(func.node.body, (ast.Assign, ast.AugAssign)):
        tg = s.targets if isinstance(s, ast.Assign) else [s.target]
        if any(utext(t) == name for t in tg):
            out.add(utext(s.value))
            for n in ast.walk(s.value):
                if isinstance(n, ast.Name):
                    out.add(n.id)
                    out |= _deps(func, n.id, depth + 1, seen)
    return out


def _possible_values(func, expr):
    if expr is None:
        return {"None"}
    if isinstance(expr, ast.IfExp):
        return _possible_values(func, expr.body) | _possible_values(func, expr.orelse)
    if isinstance(expr, ast.Constant):
        return {repr(expr.value)}
    if isinstance(expr, ast.Name):
        if expr.id in func.params:
            return {expr.id}
        vals = set()
        for s in walk_nodes(func.node.body, ast.Assign):
            if any(utext(t) == expr.id for t in s.targets):
                vals |= _possible_values(func, s.value)
        return vals or {expr.id}
    return {utext(expr)}


def _control_reads(ctx):
    se = ctx.prog.own_method("StrategyExposure", "_validate")
    return {utext(a) for a in walk_nodes(se.node.body, ast.Attribute)
            if utext(a).startswith("order.order_type.") and isinstance(a.ctx, ast.Load)}


_TC = "flumine/controls/tradingcontrols.py"
_T = "flumine/execution/transaction.py"
MUTANTS = [
    dict(id="c01-line-remainder-at-line-value", file="flumine/markets/blotter.py", func="Blotter.get_exposures",
         old="                        order_type_price = 2.0\n", new="                        order_type_price = order.order_type.price\n",
         expect=["R8"], why="the unmatched part of a line bet valued at its line value instead of 2.0"),
    dict(id="c01-sp-liability-overwritten", file="flumine/markets/blotter.py", func="Blotter.get_exposures",
         old="                    moc_lose_liability -= order.order_type.liability\n",
         new="                    moc_lose_liability = -order.order_type.liability\n", expect=["R8"],
         why="a second starting-price back replaces the first instead of adding to it"),
    dict(id="c01-replacement-priced-from-replaced-order", file="flumine/execution/betfairexecution.py", func="BetfairExecution.execute_replace",
         old="                            instruction_report.place_instruction_reports.instruction.limit_order.price,\n",
         new="                            order.update_data.get(\"new_price\", order.order_type.price),\n", expect=["R9"],
         why="update_data was cleared by the cancel half: the replacement keeps the old price in the exposure figures"),
    dict(id="c01-place-before-validate", file=_T, func="Transaction.place_order",
         old="        order.update_client(self._client)\n",
         new="        order.update_client(self._client)\n        self._pending_place.append((order, market_version))\n        self._pending_orders = True\n",
         expect=["R1"], why="order queued before the exposure controls ran"),
    dict(id="c01-strategy-exposure-not-registered", file="flumine/baseflumine.py", func="BaseFlumine.__init__",
         old="        self.add_trading_control(StrategyExposure)\n", new="", expect=["R3"], why="no exposure control at all"),
    dict(id="c01-replace-not-validated", file=_TC, func="StrategyExposure._validate",
         old="        if package_type in (\n            OrderPackageType.PLACE,\n            OrderPackageType.REPLACE,\n        ) or (",
         new="        if package_type in (\n            OrderPackageType.PLACE,\n        ) or (", expect=["R5"],
         why="replacements bypass the exposure limits"),
    dict(id="c01-limit-test-flipped", file=_TC, func="StrategyExposure._validate",
         old="                if potential_exposure > strategy.max_selection_exposure:",
         new="                if potential_exposure < strategy.max_selection_exposure:", expect=["R5"],
         why="refuses safe orders, accepts excessive ones"),
    dict(id="c01-own-contribution-dropped", file=_TC, func="StrategyExposure._validate",
         old="                potential_exposure = current_selection_exposure + order_exposure",
         new="                potential_exposure = current_selection_exposure", expect=["R5"],
         why="the new order is not counted"),
    dict(id="c01-sides-swapped", file=_TC, func="StrategyExposure._validate",
         old="                if order.side == \"BACK\":\n                    current_selection_exposure = -current_exposures[\n                        \"worst_possible_profit_on_lose\"",
         new="                if order.side == \"LAY\":\n                    current_selection_exposure = -current_exposures[\n                        \"worst_possible_profit_on_lose\"",
         expect=["R5"], why="BACK checked against the on-win figure"),
    dict(id="c01-on-error-no-raise", file="flumine/controls/__init__.py", func="BaseControl._on_error",
         old="        raise ControlError(violation_msg)", new="        return None", expect=["R4"],
         why="refusal does not stop the request"),
    dict(id="c01-on-error-no-violation", file="flumine/controls/__init__.py", func="BaseControl._on_error",
         old="        order.violation(violation_msg)\n", new="", expect=["R4"], why="refused order not marked"),
    dict(id="c01-client-controls-skipped", file=_T, func="Transaction._validate_controls",
         old="            for control in self._client.trading_controls:\n                control(order, package_type)\n", new="",
         expect=["R2"], why="client controls never run"),
    dict(id="c01-swallow-all", file=_T, func="Transaction._validate_controls",
         old="        except ControlError:\n            return False", new="        except ControlError:\n            return True",
         expect=["R2"], why="refusals ignored"),
    dict(id="c01-market-limit-new-order-dropped", file=_TC, func="StrategyExposure._validate",
         old="                    new_order=order,\n", new="", expect=["R5"], why="market limit ignores the prospective order"),
    dict(id="c01-lay-order-exposure", file=_TC, func="StrategyExposure._validate",
         old="                            order_exposure = (price - 1) * size", new="                            order_exposure = size",
         expect=["R5"], why="LAY liability undercounted"),
    dict(id="c01-pending-counted-out-live", file="flumine/markets/blotter.py",
         old="PENDING_STATUS = [\n    OrderStatus.PENDING,", new="PENDING_STATUS = [\n    OrderStatus.PENDING,\n    OrderStatus.EXECUTABLE,",
         expect=["R8"], why="resting orders dropped from exposure"),
    dict(id="c01-matched-only-when-live", file="flumine/markets/blotter.py", func="Blotter.get_exposures",
         old="                if _size_matched:\n", new="                if _size_matched and not order.complete:\n", expect=["R8"],
         why="matched bets of completed orders forgotten"),
    dict(id="c01-unmatched-when-complete", file="flumine/markets/blotter.py", func="Blotter.get_exposures",
         old="                if not order.complete or order is new_order:\n", new="                if True:\n", expect=["R8"],
         why="cancelled remainder still counted / stale"),
    dict(id="c01-prospective-skipped-when-refused-before", file="flumine/markets/blotter.py", func="Blotter.get_exposures",
         old="            if order.status in PENDING_STATUS and order is not new_order:", new="            if order.status in PENDING_STATUS:",
         expect=["R8"], why="a refused order placed again bypasses the market limit (F12)"),
    dict(id="c01-cancelling-credit", file="flumine/markets/blotter.py", func="Blotter.get_exposures",
         old="                    _size_remaining = order.size_remaining  # cache\n",
         new="                    _size_remaining = order.size_remaining  # cache\n                    if order.status == OrderStatus.CANCELLING:\n                        _size_remaining = 0.0\n",
         expect=["R8"], why="a cancel in flight is credited before it succeeded"),
    dict(id="c01-remaining-zero-after-ack", file="flumine/order/order.py", func="BetfairOrder.size_remaining",
         old="        try:\n            return self.current_order.size_remaining or 0.0\n        except AttributeError:",
         new="        if self.current_order is not None:\n            return getattr(self.current_order, \"size_remaining\", None) or 0.0\n        try:\n            raise AttributeError\n        except AttributeError:",
         expect=["R8"], why="resting part invisible until the first stream update"),
    dict(id="c01-control-free-place-elsewhere", file="flumine/execution/simulatedexecution.py",
         func="SimulatedExecution.execute_place",
         old="        market = self.flumine.markets.markets[order_package.market_id]\n",
         new="        market = self.flumine.markets.markets[order_package.market_id]\n        for o in order_package:\n            market.place_order(o, execute=False)\n",
         expect=["R9"], why="control-free placement path used outside replace"),
    dict(id="c01-call-skips-validate", file="flumine/controls/__init__.py", func="BaseControl.__call__",
         old="        self._validate(order, package_type)", new="        if package_type == OrderPackageType.PLACE:\n            self._validate(order, package_type)",
         expect=["R4"], why="controls skipped for replace"),
    dict(id="c01-order-limit-ge", file=_TC, func="StrategyExposure._validate",
         old="                and order_exposure > strategy.max_order_exposure", new="                and order_exposure < strategy.max_order_exposure",
         expect=["R5"], why="per-order limit inverted"),
    dict(id="c01-control-exchange-filter", file="flumine/controls/__init__.py", func="BaseControl.__call__",
         old="        self._validate(order, package_type)",
         new="        if getattr(self, 'EXCHANGES', None) and order.EXCHANGE not in self.EXCHANGES:\n            return\n        self._validate(order, package_type)",
         expect=["R4"], why="a compound early return leads round the validation"),
]
