"""C07 - Simulated latency and bet delay: no look-ahead and no free speed."""

import ast

from sa import AnalysisError
from sa.kinds import (key, utext, call_name, recv_text, calls_in, node_calls, canon_compare, oriented,
                      loop_body_exits_early, all_stores, sbody)
from sa.cfg import walk_calls, walk_nodes
from sa.astutil import gp

EXPLANATION = (
    "Decided part of C07: (R1) in FlumineSimulation._process_market_books every iteration first moves the "
    "simulated clock to the book's publish time, then releases due packages of that market, and only then "
    "hands the new book to the market object or closes the market; nothing but the emptiness of the queue "
    "skips the release step, and the simulated handlers read the market's stored (previous) book; (R2) the "
    "release loop scans the whole queue without early exit and releases a package iff it belongs to the "
    "market and elapsed > delay (strict), removing exactly the released ones and never changing the queue "
    "while it is being iterated; (R3) the delay table is PLACE "
    "place_latency + bet_delay, CANCEL cancel_latency, UPDATE update_latency, REPLACE replace_latency + "
    "bet_delay, computed once from the book's bet delay at request time, and elapsed time is measured on the "
    "framework clock from the package's creation; (R4) in simulation a package is only queued - the "
    "execution handler is reached only from the release step; (R5) every function reachable from "
    "FlumineSimulation.run (mode-sensitive: live executions, streams, workers and clients excluded) reads "
    "time only as datetime.datetime.utcnow() through the module `datetime`, so the clock patch is effective: "
    "no `from datetime import datetime`, no alias or default argument capturing the class, no now()/today()/"
    "time.time()/monotonic(); (R6) PENDING orders are not matchable, in-flight ones are. Not decided: the "
    "numeric relation between recorded timestamps and publish times."
)
ASSUMPTIONS = ["mode table: a simulation run executes FlumineSimulation, SimulatedExecution, SimulatedOrder, "
               "SimulatedMiddleware and the shared order/trade/blotter/transaction/control/strategy/market modules; "
               "the live executions, streams, workers and exchange clients are not part of it"]

LIVE_ONLY_CLASSES = {"Flumine", "BetfairExecution", "BetdaqExecution", "BetfairClient", "BetdaqClient",
                     "BetConnectClient", "BackgroundWorker"}
LIVE_ONLY_MODULES = {"flumine.worker", "flumine.streams.marketstream", "flumine.streams.datastream",
                     "flumine.streams.orderstream", "flumine.streams.sportsdatastream",
                     "flumine.streams.betdaqorderpolling", "flumine.streams.simulatedorderstream",
                     "flumine.controls.loggingcontrols"}
LIVE_ONLY_FUNCS = {"BaseExecution.handler", "BaseExecution._get_http_session", "BaseExecution._create_new_session",
                   "BaseExecution._return_http_session", "BaseFlumine._process_market_books"}
BANNED_CALLS = {"time.time", "time.monotonic", "time.perf_counter", "time.time_ns", "datetime.datetime.now",
                "datetime.datetime.today", "datetime.date.today", "datetime.now", "datetime.today", "datetime.utcnow",
                "time.monotonic_ns"}


def sim_reachable(ctx):
    def build():
        prog, res = ctx.prog, ctx.res

        def excluded(f):
            if f.qual in LIVE_ONLY_FUNCS or f.module.name in LIVE_ONLY_MODULES:
                return True
            return f.cls is not None and any(c.name in LIVE_ONLY_CLASSES for c in f.cls.mro())

        roots = [prog.own_method("FlumineSimulation", "run"), prog.own_method("FlumineSimulation", "__init__")]
        # the strategy-facing API and the constructors strategies use
        for q in ("Market.place_order", "Market.cancel_order", "Market.update_order", "Market.replace_order",
                  "Market.transaction", "Trade.__init__", "Trade.create_order", "BaseOrder.__init__",
                  "BaseStrategy.__init__", "Market.seconds_to_start", "Market.elapsed_seconds_closed",
                  "BaseOrder.elapsed_seconds", "BaseOrder.elapsed_seconds_created", "BaseOrder.elapsed_seconds_status_update",
                  "RunnerContext.placed_elapsed_seconds", "RunnerContext.reset_elapsed_seconds", "BaseEvent.elapsed_seconds",
                  "Blotter.market_exposure", "Blotter.selection_exposure", "BaseOrderPackage.__init__",
                  "BaseClient.__init__", "SimulatedClient.login", "SimulatedClient.update_account_details",
                  "Trade.create_order_replacement", "Responses.__init__", "Market.__init__"):
            f = prog.func(q, required=False)
            if f is not None:
                roots.append(f)
        seen, ids, todo = [], set(), [r for r in roots if not excluded(r)]
        while todo:
            f = todo.pop()
            if id(f) in ids:
                continue
            ids.add(id(f))
            seen.append(f)
            for cs in res.sites.get(id(f), []):
                for c in cs.callees:
                    if id(c) not in ids and not excluded(c):
                        todo.append(c)
        return seen
    return ctx.shared("sim_reachable", build)


def run(ctx, rep):
    prog, res = ctx.prog, ctx.res
    f = prog.own_method("FlumineSimulation", "_process_market_books")
    cfg = ctx.cfg(f)

    # ------------------------------------------------------------------ R1 ordering inside one iteration
    outer = [lp for lp in walk_nodes(f.node.body, ast.For) if utext(lp.iter) == "event.event"]
    if len(outer) != 1:
        raise AnalysisError("FlumineSimulation._process_market_books: per-book loop not found")
    head = [n for n in cfg.live_nodes() if n.kind == "for" and n.ast is outer[0]][0]
    start = [m for l, m in head.succ if l == "iter"][0]
    clock = [n for n, c in node_calls(cfg, "simulated_datetime")]
    pend = [(n, c) for n, c in node_calls(cfg, "_check_pending_packages")]
    mk = [n for n in cfg.live_nodes() if any(isinstance(c.func, ast.Name) and c.func.id == "market"
                                             for c in calls_in(n))]
    close = [n for n, c in node_calls(cfg, "_process_close_market")]
    if len(clock) != 1 or len(mk) != 1 or len(close) != 1:
        raise AnalysisError("FlumineSimulation._process_market_books: anchors not found (clock %d, market %d, close %d)"
                            % (len(clock), len(mk), len(close)))
    if not rep.check(len(pend) >= 1, "R1", key(f, None, "due requests are released on every update"), f, None,
                     "no call of _check_pending_packages in the update loop"):
        return
    cn, mn, cl = clock[0], mk[0], close[0]
    # a release after the market object got the new book is look-ahead
    after_new_book = cfg.reachable(mn.id, [head.id], include_src=False)
    for n2, c2 in pend:
        rep.check(n2.id not in after_new_book, "R1", key(f, c2, "no release after the new book has been stored"), f, c2,
                  "a request executed after the new book is stored is matched against prices it could not have seen")
    pend = [(n2, c2) for n2, c2 in pend if n2.id not in after_new_book]
    if not pend:
        return
    pn, pc = pend[0]
    cc = [c for c in calls_in(cn, "simulated_datetime")][0]
    rep.check(utext(cc.args[0]) == "%s.publish_time" % utext(outer[0].target), "R1",
              key(f, None, "the clock is set to the publish time of the book being processed"), f, cc)
    # the clock comes first: every node with a call in the loop body is dominated by it
    body_nodes = cfg.reachable(start, [head.id])
    late = [cfg.nodes[x] for x in body_nodes if x != cn.id and calls_in(cfg.nodes[x])
            and not cfg.all_paths_pass(start, x, [cn.id]) and x != start]
    if start != cn.id:
        sn = cfg.nodes[start]
        if calls_in(sn):
            late.append(sn)
    rep.check(not late, "R1", key(f, None, "nothing runs before the clock has been moved"), f, None,
              "; ".join(x.text(60) for x in late[:3]))
    gs = [(utext(g.exprs[0]), pol) for g, pol in cfg.guards(pn.id)]
    rep.check(gs == [("self.handler_queue", True)], "R1", key(f, None, "only an empty queue skips the release step"), f, pc,
              str(gs))
    hq = [n for n in cfg.live_nodes() if n.kind == "cond" and utext(n.exprs[0]) == "self.handler_queue"]
    blocked = {(hq[0].id, "F")} if hq else set()
    for tgt, what in ((mn, "the market object receives the new book"), (cl, "the market is closed")):
        rep.check(cfg.all_paths_pass(start, tgt.id, [pn.id], blocked), "R1",
                  key(f, None, "due requests are executed before %s" % what), f, tgt.exprs[0],
                  "a request executed after the new book is stored is matched against prices it could not have seen",
                  cfg.fmt_path(cfg.path(start, tgt.id, [pn.id], blocked)))
    mid = [s for s in walk_nodes(outer[0].body, ast.Assign) if utext(s.targets[0]) == utext(pc.args[0])]
    rep.check(len(mid) == 1 and utext(mid[0].value) == "%s.market_id" % utext(outer[0].target), "R1",
              key(f, None, "the release step is restricted to the market of the book"), f)
    for hn in ("execute_place", "execute_cancel", "execute_update", "execute_replace"):
        h = prog.own_method("SimulatedExecution", hn)
        d = [s for s in walk_nodes(h.node.body, ast.Assign) if utext(s.targets[0]) == "market"]
        uses = [utext(a) for a in walk_nodes(h.node.body, ast.Attribute) if utext(a) == "market.market_book"]
        rep.check(len(d) == 1 and utext(d[0].value) == "self.flumine.markets.markets[order_package.market_id]" and uses,
                  "R1", key(h, None, "matches against the market's stored book"), h)
        # paper trading waits the latency out in real time while the stream keeps replacing market.market_book:
        # the book (and the list of orders still to act on) is read after the wait, never captured before it
        cfgh = ctx.cfg(h)
        sleeps = [n for n, c in node_calls(cfgh, "sleep")]
        for sn in sleeps:
            early = [m for m in cfgh.live_nodes() if m.id != sn.id and sn.id in cfgh.reachable(m.id, include_src=False)
                     and any(isinstance(a, ast.Attribute) and a.attr in ("market_book", "status", "complete", "size_remaining")
                             for e in m.exprs for a in ast.walk(e))
                     and m.kind != "cond"]
            rep.check(not early, "R1", key(h, None, "nothing of the market or of the orders is read before the paper-trade latency has passed"),
                      h, early[0].exprs[0] if early else None,
                      "state captured before the wait is stale when the request takes effect")

    # ------------------------------------------------------------------ R2 release loop
    release_loop(ctx, rep, "R2")

    # ------------------------------------------------------------------ R3 delay table
    cd = prog.own_method("BaseOrderPackage", "calc_simulated_delay")
    cfgd = ctx.cfg(cd)
    from sa.kinds import folded_returns
    tab = {}
    for pt in ("PLACE", "CANCEL", "UPDATE", "REPLACE"):
        def ev(e, pt=pt):
            t = utext(e)
            if t == "self.client.execution.EXCHANGE == ExchangeType.SIMULATED":
                return True
            if t.startswith("self.package_type == OrderPackageType."):
                return t.endswith("." + pt)
            return None
        # the delay for that kind: what is returned once the kind is fixed (if-chain or table-driven)
        rets = folded_returns(cfgd, cd, ev, subst={"self.package_type": "OrderPackageType.%s" % pt}) - {"None"}
        tab[pt] = sorted(rets)[0] if len(rets) == 1 else sorted(rets)
    want = {"PLACE": "config.place_latency + self.bet_delay", "CANCEL": "config.cancel_latency",
            "UPDATE": "config.update_latency", "REPLACE": "config.replace_latency + self.bet_delay"}
    rep.check(tab == want, "R3", key(cd, None, "delay table: latency per kind, plus the bet delay for PLACE and REPLACE"), cd,
              None, str(tab))
    pi = prog.own_method("BaseOrderPackage", "__init__")
    sd = [(fn, s) for fn, s, t, kind in all_stores(prog, "simulated_delay")]
    rep.check(len(sd) == 1 and sd[0][0] is pi and utext(sd[0][1].value) == "self.calc_simulated_delay()", "R3",
              key(pi, None, "the delay is fixed when the package is created"), pi)
    order = {utext(s.targets[0]): s.lineno for s in walk_nodes(pi.node.body, ast.Assign)}
    rep.check(order.get("self.bet_delay", 1e9) < order.get("self.simulated_delay", 0)
              and order.get("self.package_type", 1e9) < order.get("self.simulated_delay", 0)
              and order.get("self.client", 1e9) < order.get("self.simulated_delay", 0), "R3",
              key(pi, None, "bet delay, kind and client are set before the delay is computed"), pi)
    cop = prog.own_method("Transaction", "_create_order_package")
    kws = [{k.arg: utext(k.value) for k in c.keywords} for c in walk_calls(cop.node.body) if any(
        k.arg == "bet_delay" for k in c.keywords)]
    rep.check(bool(kws) and all(k["bet_delay"] == "self.market.market_book.bet_delay" for k in kws), "R3",
              key(cop, None, "the bet delay is the one of the book the request was made on"), cop)
    es = prog.own_method("BaseEvent", "elapsed_seconds")
    rep.check(utext(es.node.body[-1]) == "return (datetime.datetime.utcnow() - self._time_created).total_seconds()", "R3",
              key(es, None, "elapsed time = framework clock now - creation"), es)
    ei = prog.own_method("BaseEvent", "__init__")
    rep.check(any(utext(s) == "self._time_created = datetime.datetime.utcnow()" for s in walk_nodes(ei.node.body, ast.Assign)),
              "R3", key(ei, None, "creation time read from the framework clock"), ei)
    tcw = [(fn.qual) for fn, s, t, kind in all_stores(prog, "_time_created")]
    rep.check(tcw == ["BaseEvent.__init__"], "R3", "_time_created written only at creation", None, None, str(tcw))
    sup = [c for c in walk_calls(pi.node.body) if isinstance(c.func, ast.Attribute) and c.func.attr == "__init__"]
    rep.check(len(sup) == 1, "R3", key(pi, None, "package creation time is the event creation time"), pi)

    # ------------------------------------------------------------------ R4 no immediate execution
    pop = prog.own_method("FlumineSimulation", "process_order_package")
    body = [utext(s) for s in sbody(pop.node.body)]
    rep.check(body == ["self.handler_queue.append(%s)" % pop.params[1]], "R4",
              key(pop, None, "a simulated request is only queued"), pop, None, str(body))
    sim_cls = prog.cls("FlumineSimulation")
    for m in sim_cls.methods.values():
        for c in walk_calls(m.node.body):
            if call_name(c) == "handler" and isinstance(c.func, ast.Attribute):
                rep.check(m.name == "_check_pending_packages", "R4", "execution.handler called in " + key(m, c), m, c,
                          "only the release step may execute a package")
    hq_w = []
    for fn in prog.all_functions():
        for c in walk_calls(fn.node.body):
            if isinstance(c.func, ast.Attribute) and utext(c.func.value) == "self.handler_queue" and \
                    c.func.attr in ("append", "remove", "clear", "pop", "insert", "extend") and \
                    fn.cls is not None and fn.cls.name == "FlumineSimulation":
                hq_w.append((fn.name, c.func.attr))
    cpp = sim_cls.methods.get("_check_pending_packages")
    if cpp is not None and any(isinstance(t, ast.Subscript) and utext(t.value) == "self.handler_queue"
                               for st in walk_nodes(cpp.node.body, ast.Assign) for t in st.targets):
        hq_w.append(("_check_pending_packages", "remove"))   # rebuilt in place (judged by the release-loop rule)
    rep.check(set(hq_w) <= {("_check_pending_packages", "remove"), ("process_order_package", "append"), ("run", "clear")}
              and ("process_order_package", "append") in hq_w and ("_check_pending_packages", "remove") in hq_w,
              "R4", "the pending queue is appended on request, drained by the release step, cleared between markets", None,
              None, str(sorted(set(hq_w))))

    # ------------------------------------------------------------------ R5 clock lint
    clock_lint(ctx, rep, "R5")

    # ------------------------------------------------------------------ R6 matchable statuses
    matchable_statuses(ctx, rep, "R6")


def release_loop(ctx, rep, R):
    """every package handed to the execution layer by the release step has passed its OWN test:
    same market and elapsed > delay (strict); the scan of the queue has no early exit; exactly the
    released packages leave the queue"""
    prog = ctx.prog
    f = prog.own_method("FlumineSimulation", "_check_pending_packages")
    cfg = ctx.cfg(f)
    hc = node_calls(cfg, "handler")
    if not rep.check(len(hc) >= 1, R, key(f, None, "the release step executes due packages"), f, None,
                     "no call of execution.handler in the release step"):
        return
    for lp in walk_nodes(f.node.body, ast.For):
        if "self.handler_queue" in utext(lp.iter):
            rep.check(not loop_body_exits_early(lp) and not walk_nodes(lp.body, ast.Continue), R,
                      key(f, lp.iter, "the whole queue is scanned (no break / return / continue)"), f, lp,
                      "stopping at the first package that is not due couples unrelated requests: a fast cancel waits behind a slow placement")
    # the queue is not shortened while it is being walked: `for p in queue: ... queue.remove(p)` makes the
    # iterator skip the package behind every removed one (it is released one update late, or out of order)
    for lp in walk_nodes(f.node.body, ast.For):
        if utext(lp.iter) == "self.handler_queue":
            for c2 in walk_calls(lp.body):
                if recv_text(c2) == "self.handler_queue" and call_name(c2) in ("remove", "pop", "insert", "clear", "sort", "reverse"):
                    rep.violation(R, key(f, c2, "the queue is changed while the scan iterates over it"), f, c2,
                                  "removal during iteration skips the next package")
            for d in walk_nodes(lp.body, ast.Delete):
                if any("self.handler_queue" in utext(t) for t in d.targets):
                    rep.violation(R, key(f, d, "the queue is changed while the scan iterates over it"), f, d,
                                  "removal during iteration skips the next package")
    for n, c in hc:
        pv = utext(c.args[0]) if c.args else None
        gs = [g for g, pol in cfg.guards(n.id) if pol]
        cmps = [canon_compare(g.exprs[0]) for g in gs]
        dl_ok = any(o is not None and o[1] == ">" and o[2] == "%s.simulated_delay" % pv
                    for o in [oriented(c2, "%s.elapsed_seconds" % pv) for c2 in cmps if c2])
        mk_ok = any(o is not None and o[1] == "==" and o[2] == f.params[1]
                    for o in [oriented(c2, "%s.market_id" % pv) for c2 in cmps if c2])
        if not mk_ok:
            mk_ok = _filtered_by_market(f, c, pv)
        rep.check(dl_ok, R, key(f, c, "a package is released only when its own elapsed time exceeds its own delay (strict)"), f, c,
                  "guards on this release: %s - a package released on another package's clock gets free speed or is held back" % [
                      utext(g.exprs[0]) for g in gs])
        rep.check(mk_ok, R, key(f, c, "only packages of the market being updated are released"), f, c)
        extra = [utext(g.exprs[0]) for g, pol in cfg.guards(n.id)
                 if "market_id" not in utext(g.exprs[0]) and "elapsed_seconds" not in utext(g.exprs[0])]
        rep.check(not extra, R, key(f, c, "nothing else decides a release"), f, c, str(extra))
        rep.check(utext(c.func.value) == "%s.client.execution" % pv, R, key(f, c, "released through its own client's execution"), f, c)
        # the released package leaves the queue (directly, or via a list drained after the scan)
        direct = [x for x, c2 in node_calls(cfg, "remove") if recv_text(c2) == "self.handler_queue" and utext(c2.args[0]) == pv
                  and sorted((utext(g.exprs[0]), pol) for g, pol in cfg.guards(x.id)) == sorted((utext(g.exprs[0]), pol) for g, pol in cfg.guards(n.id))]
        via = [(x, c2) for x, c2 in node_calls(cfg, "append") if utext(c2.args[0]) == pv
               and sorted((utext(g.exprs[0]), pol) for g, pol in cfg.guards(x.id)) == sorted((utext(g.exprs[0]), pol) for g, pol in cfg.guards(n.id))]
        drained = False
        for x, c2 in via:
            lst = recv_text(c2)
            for lp in walk_nodes(f.node.body, ast.For):
                if utext(lp.iter) == lst and [utext(s) for s in sbody(lp.body)] == ["self.handler_queue.remove(%s)" % utext(lp.target)]:
                    drained = True
        if not direct and not drained:
            # or the queue is rebuilt in place without them: self.handler_queue[:] = [p for p in self.handler_queue
            # if p not in <released>] (membership by identity: `id(p) not in {id(x) for x in <released>}`)
            for x, c2 in via:
                lst = recv_text(c2)
                drained = drained or _rebuilt_without(f, "self.handler_queue", lst)
        if not direct and not drained:
            drained = _partitioned(cfg, f, "self.handler_queue", pv, n)
        rep.check(bool(direct) or drained, R, key(f, c, "exactly the released packages leave the queue"), f, c)


def _partitioned(cfg, f, queue, pv, hnode):
    """the scan splits the queue: on every way through the loop body a package is either released or appended
    to ONE list of kept packages (never both, never neither), and after the scan the queue is replaced in place by
    the kept list (`<queue>[:] = kept`, which may be skipped when both have the same length: nothing was released)"""
    loops = [lp for lp in walk_nodes(f.node.body, ast.For) if utext(lp.iter) == queue and utext(lp.target) == pv]
    if len(loops) != 1:
        return False
    head = [m for m in cfg.live_nodes() if m.kind == "for" and m.ast is loops[0]]
    if not head:
        return False
    head = head[0]
    start = [m for l, m in head.succ if l == "iter"]
    if not start:
        return False
    keeps = [(x, c2) for x, c2 in node_calls(cfg, "append") if utext(c2.args[0]) == pv
             and isinstance(c2.func.value, ast.Name) and c2 in walk_calls(loops[0].body)]
    kept = {recv_text(c2) for x, c2 in keeps}
    if len(kept) != 1:
        return False
    kept = kept.pop()
    keep_ids = {x.id for x, c2 in keeps}
    rel_ids = {x.id for x, c2 in node_calls(cfg, "handler") if c2 in walk_calls(loops[0].body)}
    # never neither
    if not cfg.all_paths_pass(start[0], head.id, keep_ids | rel_ids) and start[0] not in (keep_ids | rel_ids):
        return False
    # never both
    for a in keep_ids | rel_ids:
        other = (keep_ids | rel_ids) - {a}
        if cfg.reachable(a, blocked_nodes={head.id}, include_src=False) & other:
            return False
    # the kept list starts empty, is written nowhere else, and replaces the queue after the scan
    inits = [st for st in walk_nodes(f.node.body, ast.Assign) if utext(st.targets[0]) == kept]
    if len(inits) != 1 or utext(inits[0].value) not in ("[]", "list()") or inits[0] in list(ast.walk(loops[0])):
        return False
    other_w = [c2 for c2 in walk_calls(f.node.body) if recv_text(c2) == kept and call_name(c2) in (
        "append", "extend", "insert", "pop", "remove", "clear", "sort", "reverse") and c2 not in [k for x, k in keeps]]
    if other_w:
        return False
    for m in cfg.live_nodes():
        st = m.ast if m.kind == "stmt" else None
        if isinstance(st, ast.Assign) and isinstance(st.targets[0], ast.Subscript) and utext(st.targets[0].value) == queue \
                and isinstance(st.targets[0].slice, ast.Slice) and st.targets[0].slice.lower is None \
                and st.targets[0].slice.upper is None and utext(st.value) == kept and st not in list(ast.walk(loops[0])):
            gs = {(utext(g.exprs[0]), pol) for g, pol in cfg.guards(m.id)}
            same_len = {gp("len(%s) != len(%s)" % (kept, queue)), gp("len(%s) != len(%s)" % (queue, kept)),
                        gp("len(%s) < len(%s)" % (kept, queue)), gp("len(%s) > len(%s)" % (queue, kept))}
            # ... or when a counter / flag that only release paths set is still falsy (nothing was released)
            for t_, pol_ in list(gs):
                if pol_ and t_.isidentifier():
                    inits_ = [x for x in walk_nodes(f.node.body, ast.Assign) if utext(x.targets[0]) == t_
                              and x not in list(ast.walk(loops[0]))]
                    sets_ = [x for x in cfg.live_nodes() if x.kind == "stmt" and isinstance(x.ast, (ast.Assign, ast.AugAssign))
                             and t_ in [utext(y) for y in (x.ast.targets if isinstance(x.ast, ast.Assign) else [x.ast.target])]
                             and x.ast in list(ast.walk(loops[0]))]
                    if len(inits_) == 1 and utext(inits_[0].value) in ("0", "False") and sets_ and all(
                            any(cfg.dominates(r_, x.id) for r_ in rel_ids) for x in sets_):
                        gs = gs - {(t_, pol_)}
            if gs <= same_len and cfg.dominates(head.id, m.id):
                return True
    return False


def _filtered_by_market(f, call, pv):
    """is pv drawn from a list comprehension over the queue filtered by `<x>.market_id == market_id`?"""
    for lp in walk_nodes(f.node.body, ast.For):
        if call in walk_calls(lp.body) and pv in [n.id for n in ast.walk(lp.target) if isinstance(n, ast.Name)]:
            it = lp.iter
            for _ in range(4):
                if isinstance(it, ast.Call) and it.args:
                    it = it.args[0]
                elif isinstance(it, ast.Subscript):
                    it = it.value
                else:
                    break
            if isinstance(it, ast.Name):
                d = [s for s in walk_nodes(f.node.body, ast.Assign) if utext(s.targets[0]) == it.id]
                if len(d) == 1 and isinstance(d[0].value, ast.ListComp):
                    g = d[0].value.generators[0]
                    v = utext(g.target)
                    return any(utext(c) in ("%s.market_id == %s" % (v, f.params[1]), "%s == %s.market_id" % (f.params[1], v))
                               for c in g.ifs)
    return False


def _rebuilt_without(f, queue, released):
    """`<queue>[:] = [p for p in <queue> if p not in <released>]` (or by identity through a set of ids)"""
    id_sets = set()
    for st in walk_nodes(f.node.body, ast.Assign):
        v = st.value
        if isinstance(v, (ast.SetComp, ast.ListComp)) and len(v.generators) == 1 and utext(v.generators[0].iter) == released \
                and not v.generators[0].ifs and utext(v.elt) == "id(%s)" % utext(v.generators[0].target):
            id_sets.add(utext(st.targets[0]))
    for st in walk_nodes(f.node.body, ast.Assign):
        t = st.targets[0]
        if not (isinstance(t, ast.Subscript) and utext(t.value) == queue and isinstance(t.slice, ast.Slice)
                and t.slice.lower is None and t.slice.upper is None):
            continue
        v = st.value
        if isinstance(v, ast.ListComp) and len(v.generators) == 1 and utext(v.generators[0].iter) == queue:
            g = v.generators[0]
            pv = utext(g.target)
            if utext(v.elt) == pv and len(g.ifs) == 1:
                c = utext(g.ifs[0])
                if c == "%s not in %s" % (pv, released) or any(c == "id(%s) not in %s" % (pv, ids) for ids in id_sets):
                    return True
    return False


def clock_lint(ctx, rep, R):
    prog = ctx.prog
    funcs = sim_reachable(ctx)
    rep.note("simulation_reachable_functions", len(funcs))
    rep.floor(R, "functions reachable in a simulation run", len(funcs), 150)
    mods = {}
    for f in funcs:
        mods[f.module.name] = f.module
    n_reads = 0
    for f in funcs:
        for c in walk_calls(f.node.body):
            t = utext(c.func)
            if t in BANNED_CALLS or (t.endswith(".now") and "datetime" in t) or (t.endswith(".today") and "date" in t):
                rep.violation(R, "wall clock read in simulation: " + key(f, c), f, c,
                              "only datetime.datetime.utcnow() through the patched module attribute follows the simulated clock")
            if t == "datetime.datetime.utcnow":
                n_reads += 1
            if t == "time.sleep":
                cfg = ctx.cfg(f)
                n = [x for x in cfg.live_nodes() if c in walk_calls(x.exprs)][0]
                gs = [(utext(g.exprs[0]), pol) for g, pol in cfg.guards(n.id)]
                ok = any("paper_trade" in a and pol for a, pol in gs) or f.qual == "BaseOrderPackage.retry"
                rep.check(ok, R, key(f, c, "sleep only under paper trading / live retry back-off"), f, c)
    rep.floor(R, "framework clock reads in the simulation-reachable set", n_reads, 15)
    for m in mods.values():
        # the name `datetime` must be the module, imported at top level, in every such module that reads the clock
        uses = any(isinstance(n, ast.Attribute) and utext(n) == "datetime.datetime" for n in ast.walk(m.tree))
        imp = m.imports.get("datetime")
        if imp is not None:
            rep.check(imp == ("datetime", None), R, "%s: `datetime` is the module (import datetime)" % m.relpath, None, None,
                      "`from datetime import datetime` binds the class before it is patched: utcnow() would be wall-clock time")
        elif uses:
            rep.violation(R, "%s uses datetime.datetime without importing the module" % m.relpath)
        # no alias / default argument capturing the class or its methods at import or definition time
        for s in m.tree.body:
            if isinstance(s, (ast.Assign, ast.AnnAssign)) and s.value is not None:
                for n in ast.walk(s.value):
                    if isinstance(n, ast.Attribute) and utext(n).startswith("datetime.datetime"):
                        rep.violation(R, "%s: module-level alias of the clock: %s" % (m.relpath, utext(s)[:80]), None, None,
                                      "captured before the patch is installed")
    # ... nor a function of these modules keeping the clock function itself as a value (`x = datetime.datetime.utcnow`):
    # the value is whatever `datetime.datetime` was at that moment - the real class whenever the object is
    # built outside the patch (strategies are constructed before run() installs it)
    n_ref = 0
    for f in prog.all_functions():
        if f.module.name not in mods:
            continue
        called = {id(c.func) for c in walk_calls(f.node.body)}
        for n in walk_nodes(f.node.body, ast.Attribute):
            if utext(n) in ("datetime.datetime.utcnow", "datetime.datetime.now", "datetime.datetime.today", "time.time"):
                n_ref += 1
                if id(n) not in called:
                    rep.violation(R, "clock function kept as a value instead of being called: " + key(f, n), f, n,
                                  "an object built outside the simulated-clock patch would keep reading the wall clock")
    rep.floor(R, "references to the clock functions in simulation modules", n_ref, 15)
    for f in funcs:
        a = f.node.args
        for d in list(a.defaults) + [x for x in a.kw_defaults if x is not None]:
            for n in ast.walk(d):
                if isinstance(n, ast.Attribute) and utext(n).startswith("datetime.datetime"):
                    rep.violation(R, "default argument captures the clock: " + key(f, d), f, d,
                                  "evaluated once at definition time")
    # the patch itself
    nd = prog.own_method("NewDateTime", "utcnow")
    rep.check(utext(nd.node.body[-1]) == "return config.current_time" and nd.is_classmethod, R,
              key(nd, None, "the patched utcnow returns the simulated time"), nd)
    sc = prog.own_method("SimulatedDateTime", "__call__")
    rep.check([utext(s) for s in sbody(sc.node.body)] == ["config.current_time = %s" % sc.params[1]], R,
              key(sc, None, "setting the clock stores the publish time"), sc)
    ct = [(fn.qual) for fn, s, t, kind in all_stores(prog, "current_time")]
    rep.check(set(ct) <= {"SimulatedDateTime.__call__", "SimulatedDateTime.reset_real_datetime", "SimulatedDateTime.__enter__"},
              R, "config.current_time is written only by the simulated clock", None, None, str(sorted(set(ct))))


def matchable_statuses(ctx, rep, R):
    live = ctx.prog.const_value("flumine.markets.middleware", "LIVE_STATUS")
    rep.check(sorted(live) == ["OrderStatus.CANCELLING", "OrderStatus.EXECUTABLE", "OrderStatus.REPLACING", "OrderStatus.UPDATING"],
              R, "simulated matching applies to EXECUTABLE and in-flight orders, never to PENDING ones", None, None, str(live))
    f = ctx.prog.own_method("SimulatedMiddleware", "_process_simulated_orders")
    calls = [c for c in walk_calls(f.node.body) if isinstance(c.func, ast.Attribute) and c.func.attr == "simulated"]
    from rules.c03 import build as build_typestate
    ts = build_typestate(ctx)
    pre = set()
    for s in ts.sites.values():
        if s.func.qual == "SimulatedOrder._process_sp":
            pre |= s.pre
    rep.check(bool(calls) and pre and pre <= {"EXECUTABLE", "CANCELLING", "UPDATING", "REPLACING"}, R,
              key(f, None, "every matching call is made on an order in one of these statuses"), f, None, str(sorted(pre)))


_SI = "flumine/simulation/simulation.py"
_OP = "flumine/order/orderpackage.py"
MUTANTS = [
    dict(id="c07-book-captured-before-paper-latency", file="flumine/execution/simulatedexecution.py", func="SimulatedExecution.execute_place",
         old="        if order_package.client.paper_trade:\n            time.sleep(order_package.bet_delay + config.place_latency)\n        market = self.flumine.markets.markets[order_package.market_id]\n",
         new="        market = self.flumine.markets.markets[order_package.market_id]\n        market_book = market.market_book\n        if order_package.client.paper_trade:\n            time.sleep(order_package.bet_delay + config.place_latency)\n",
         expect=["R1"], why="the book is read before the real-time latency of paper trading has passed"),
    dict(id="c07-remove-during-scan", file=_SI, func="FlumineSimulation._check_pending_packages",
         old="                processed.append(order_package)\n", new="                self.handler_queue.remove(order_package)\n",
         expect=["R2"], why="removal while iterating skips the package behind every released one"),
    dict(id="c07-pending-after-new-book", file=_SI, func="FlumineSimulation._process_market_books",
         old="            # check if there are orders to process (limited to current market only)\n            if self.handler_queue:\n                self._check_pending_packages(market_id)\n\n",
         new="", expect=["R1"], why="(variant) release step removed"),
    dict(id="c07-pending-moved-after-market", file=_SI, func="FlumineSimulation._process_market_books",
         old="            # process market\n            market(market_book)\n",
         new="            # process market\n            market(market_book)\n            if self.handler_queue:\n                self._check_pending_packages(market_id)\n",
         expect=["R1"], why="requests matched against the new book (look-ahead)"),
    dict(id="c07-clock-after-pending", file=_SI, func="FlumineSimulation._process_market_books",
         old="            self.simulated_datetime(market_book.publish_time)\n\n            # check if there are orders to process (limited to current market only)\n            if self.handler_queue:\n                self._check_pending_packages(market_id)\n",
         new="            # check if there are orders to process (limited to current market only)\n            if self.handler_queue:\n                self._check_pending_packages(market_id)\n            self.simulated_datetime(market_book.publish_time)\n",
         expect=["R1"], why="release decided on the previous update's time"),
    dict(id="c07-drop-market-conjunct", file=_SI, func="FlumineSimulation._check_pending_packages",
         old="                order_package.market_id == market_id\n                and order_package.elapsed_seconds > order_package.simulated_delay",
         new="                order_package.elapsed_seconds > order_package.simulated_delay", expect=["R2"],
         why="requests of other markets released on this market's update"),
    dict(id="c07-delay-comparison-flipped", file=_SI, func="FlumineSimulation._check_pending_packages",
         old="and order_package.elapsed_seconds > order_package.simulated_delay",
         new="and order_package.simulated_delay > order_package.elapsed_seconds", expect=["R2"], why="released before the latency elapsed"),
    dict(id="c07-delay-ge", file=_SI, func="FlumineSimulation._check_pending_packages",
         old="and order_package.elapsed_seconds > order_package.simulated_delay",
         new="and order_package.elapsed_seconds >= order_package.simulated_delay", expect=["R2"], why="released at exactly the latency"),
    dict(id="c07-queue-stops-early", file=_SI, func="FlumineSimulation._check_pending_packages",
         old="                processed.append(order_package)\n", new="                processed.append(order_package)\n            elif order_package.market_id == market_id:\n                break\n",
         expect=["R2"], why="a not-yet-due package holds back later ones"),
    dict(id="c07-place-no-bet-delay", file=_OP, func="BaseOrderPackage.calc_simulated_delay",
         old="                return config.place_latency + self.bet_delay", new="                return config.place_latency", expect=["R3"],
         why="in-play bet delay ignored"),
    dict(id="c07-replace-no-bet-delay", file=_OP, func="BaseOrderPackage.calc_simulated_delay",
         old="                return config.replace_latency + self.bet_delay", new="                return config.replace_latency", expect=["R3"],
         why="replace faster than a new placement"),
    dict(id="c07-cancel-uses-update-latency", file=_OP, func="BaseOrderPackage.calc_simulated_delay",
         old="                return config.cancel_latency", new="                return config.update_latency", expect=["R3"],
         why="wrong latency for cancels"),
    dict(id="c07-execute-immediately", file=_SI, func="FlumineSimulation.process_order_package",
         old="        self.handler_queue.append(order_package)", new="        order_package.client.execution.handler(order_package)",
         expect=["R4"], why="zero latency"),
    dict(id="c07-from-datetime-import", file="flumine/events/events.py",
         old="import datetime\nfrom enum import Enum", new="from datetime import datetime\nimport datetime as _dt\nfrom enum import Enum",
         expect=["R5", "R3"], why="class bound before the patch"),
    dict(id="c07-wall-clock-elapsed", file="flumine/events/events.py", func="BaseEvent.elapsed_seconds",
         old="        return (datetime.datetime.utcnow() - self._time_created).total_seconds()",
         new="        import time\n        return time.time() - self._time_created.timestamp()", expect=["R5", "R3"],
         why="latency measured on the wall clock"),
    dict(id="c07-now-in-order", file="flumine/order/order.py", func="BaseOrder._update_status",
         old="        self.date_time_status_update = datetime.datetime.utcnow()", new="        self.date_time_status_update = datetime.datetime.now()",
         expect=["R5"], why="wall-clock timestamp in a simulated order"),
    dict(id="c07-module-alias", file="flumine/strategy/runnercontext.py",
         old="logger = logging.getLogger(__name__)\n", new="logger = logging.getLogger(__name__)\n_utcnow = datetime.datetime.utcnow\n",
         expect=["R5"], why="clock captured at import"),
    dict(id="c07-pending-matchable", file="flumine/markets/middleware.py",
         old="LIVE_STATUS = [\n    OrderStatus.EXECUTABLE,", new="LIVE_STATUS = [\n    OrderStatus.PENDING,\n    OrderStatus.EXECUTABLE,", expect=["R6"],
         why="orders filled before they arrive"),
    dict(id="c07-delay-recomputed-late", file=_OP, func="BaseOrderPackage.__init__",
         old="        self.simulated_delay = self.calc_simulated_delay()", new="        self.simulated_delay = 0", expect=["R3"],
         why="no latency"),
    dict(id="c07-handler-reads-new-book", file="flumine/execution/simulatedexecution.py", func="SimulatedExecution.execute_place",
         old="        market = self.flumine.markets.markets[order_package.market_id]\n", new="        market = order_package.market\n",
         expect=["R1"], why="handler not bound to the stored book"),
    dict(id="c07-clock-kept-as-value", file="flumine/strategy/runnercontext.py", func="RunnerContext.__init__",
         old="        self.selection_id = selection_id\n",
         new="        self.selection_id = selection_id\n        self._clock = datetime.datetime.utcnow\n", expect=["R5"],
         why="the clock function stored at construction outlives (or predates) the simulated-clock patch"),
]
