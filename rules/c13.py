"""C13 - Strategies are isolated from each other and from callback errors."""

import ast

from sa import AnalysisError
from sa.kinds import key, utext, call_name, recv_text, calls_in, node_calls, loop_body_exits_early
from sa.cfg import walk_calls, walk_nodes

EXPLANATION = (
    "Decided part of C13 (the containment sentence completely, the isolation sentence through its mechanism): "
    "(R1) every invocation of a documented strategy / middleware / custom-event callback anywhere in the "
    "package goes through one of the four error-handling wrappers of flumine.utils or the inline try of "
    "_process_custom_event; (R2) each wrapper is a try around the call whose FlumineException handler never "
    "re-raises and whose Exception handler re-raises only under config.raise_errors, and "
    "call_strategy_error_handling returns False after an exception; (R3) in both _process_market_books loops "
    "and in the order / sports-data / raw-data dispatchers the middleware loop precedes the strategy loop, "
    "neither loop can be left early, and each callback is dispatched once per strategy; (R4) the traded-volume "
    "ladder handed to the simulated matcher is copied once per strategy (inside the strategy loop, outside "
    "the order loop) and once per instance when isolation is off, and the matcher receives that shared entry itself, "
    "not a per-order rebuild; (R5) the pending-package queue shared by all "
    "strategies is scanned completely with a per-package release test. The metamorphic equality run(A) = run(A+B) "
    "is not decided."
)

CALLBACKS = {"process_new_market", "check_market_book", "process_market_book", "process_orders",
             "check_sports_data", "process_sports_data", "process_raw_data", "process_market_catalogue"}
WRAPPERS = {"call_strategy_error_handling", "call_middleware_error_handling",
            "call_process_orders_error_handling", "call_process_raw_data"}


def run(ctx, rep):
    prog, res = ctx.prog, ctx.res
    utils = prog.module("flumine.utils")
    wrappers = {n: utils.functions[n] for n in WRAPPERS if n in utils.functions}
    if len(wrappers) != 4:
        raise AnalysisError("error-handling wrappers missing in flumine.utils: %s" % sorted(WRAPPERS - set(wrappers)))

    # ------------------------------------------------------------------ R1 containment
    n_sites = 0
    for f in prog.all_functions():
        if f.cls is not None and f.cls.is_subclass_of("BaseStrategy") and f.name in CALLBACKS:
            continue
        for c in walk_calls(f.node.body):
            nm = call_name(c)
            # direct call of a callback
            if isinstance(c.func, ast.Attribute) and nm in CALLBACKS and utext(c.func.value) != "super()":
                n_sites += 1
                rep.check(f.module is utils and f.name in WRAPPERS and _inside_try(f, c), "R1",
                          "direct callback call: " + key(f, c), f, c,
                          "a callback may only be invoked inside an error-handling wrapper")
            # callback passed as a value
            for a in list(c.args) + [k.value for k in c.keywords]:
                if isinstance(a, ast.Attribute) and a.attr in CALLBACKS:
                    n_sites += 1
                    rep.check(nm == "call_strategy_error_handling", "R1", "callback handed over: " + key(f, c), f, c,
                              "a callback reference may only be handed to call_strategy_error_handling")
            # middleware instance call
            if isinstance(c.func, ast.Name) and c.func.id == "middleware":
                t = res.type_of(c.func, f)
                if t is not None and t.is_subclass_of("Middleware"):
                    n_sites += 1
                    rep.check(f.name == "call_middleware_error_handling" and _inside_try(f, c), "R1",
                              "middleware call: " + key(f, c), f, c)
            if isinstance(c.func, ast.Attribute) and c.func.attr == "callback":
                n_sites += 1
                rep.check(f.qual == "BaseFlumine._process_custom_event" and _inside_try(f, c), "R1",
                          "custom event callback: " + key(f, c), f, c)
    rep.floor("R1", "callback dispatch sites", n_sites, 8)
    # middleware is dispatched through the wrapper wherever it is iterated for calling
    n_mw = 0
    for f in prog.all_functions():
        for lp in walk_nodes(f.node.body, ast.For):
            if utext(lp.iter) == "self._market_middleware":
                calls = [c for c in walk_calls(lp.body)]
                invoke = [c for c in calls if call_name(c) == "call_middleware_error_handling"]
                direct = [c for c in calls if isinstance(c.func, ast.Name) and c.func.id == utext(lp.target)]
                if invoke or direct:
                    n_mw += 1
                    rep.check(len(invoke) == 1 and not direct and utext(invoke[0].args[0]) == utext(lp.target), "R1",
                              key(f, lp.iter, "each middleware called once through the wrapper"), f, lp)
    rep.floor("R1", "middleware dispatch loops", n_mw, 2)

    # ------------------------------------------------------------------ R2 wrapper shape
    shapes = list(wrappers.values()) + [prog.own_method("BaseFlumine", "_process_custom_event")]
    for f in shapes:
        tries = walk_nodes(f.node.body, ast.Try)
        if len(tries) != 1:
            rep.violation("R2", key(f, None, "one try around the callback"), f, None, "found %d try statements" % len(tries))
            continue
        t = tries[0]
        names = [utext(h.type) if h.type is not None else "" for h in t.handlers]
        rep.check(names == ["FlumineException", "Exception"], "R2",
                  key(f, None, "handlers are FlumineException then Exception"), f, t, str(names))
        cfg = ctx.cfg(f)
        for h in t.handlers:
            hn = [n for n in cfg.live_nodes() if n.kind == "except" and n.ast is h]
            raises = [r for r in walk_nodes(h.body, ast.Raise)]
            if utext(h.type) == "FlumineException":
                rep.check(not raises, "R2", key(f, None, "FlumineException is never re-raised"), f, h)
            else:
                ok = True
                for r in raises:
                    rn = [n for n in cfg.live_nodes() if n.ast is r]
                    gs = [(utext(g.exprs[0]), pol) for n in rn for g, pol in cfg.guards(n.id)]
                    ok = ok and ("config.raise_errors", True) in gs
                rep.check(ok, "R2", key(f, None, "Exception re-raised only under config.raise_errors"), f, h)
        # nothing in a handler may raise itself: logger calls over names / attributes / constants only
        for h in t.handlers:
            risky = []
            for x in ast.walk(ast.Module(body=h.body, type_ignores=[])):
                if isinstance(x, ast.Subscript):
                    if _is_counter(prog, f, x.value) and isinstance(x.slice, (ast.Constant, ast.Name)):
                        continue   # an item of a collections.Counter / defaultdict(int): a missing key reads as 0
                    risky.append(utext(x))
                elif isinstance(x, ast.Call) and not (isinstance(x.func, ast.Attribute) and utext(x.func.value) == "logger"):
                    if isinstance(x.func, ast.Name) and x.func.id == "getattr" and len(x.args) == 3 and \
                            isinstance(x.args[1], ast.Constant) and all(isinstance(a, (ast.Name, ast.Constant)) for a in x.args):
                        continue   # getattr with a default cannot raise AttributeError
                    if isinstance(x.func, ast.Name) and _contains_its_own_errors(prog, f, x.func.id):
                        # a helper whose whole body sits in `try: ... except Exception: return <constant>`; its
                        # arguments are evaluated in the handler, so they must be plain names / constants
                        if all(isinstance(a, (ast.Name, ast.Constant)) for a in list(x.args) + [k.value for k in x.keywords]):
                            continue
                    risky.append(utext(x))
                elif isinstance(x, (ast.BinOp, ast.JoinedStr)):
                    risky.append(utext(x))
            rep.check(not risky, "R2", key(f, None, "%s handler cannot raise itself" % utext(h.type)), f, h,
                      "an exception raised while handling (%s) escapes the containment" % "; ".join(risky[:3]))
        # the body of the try is the callback call only
        body_calls = [c for s in t.body for c in walk_calls([s])]
        rep.check(len(t.body) == 1 and len(body_calls) >= 1 and not t.finalbody, "R2",
                  key(f, None, "the try body is the callback invocation"), f, t)
    cs = wrappers["call_strategy_error_handling"]
    cfg = ctx.cfg(cs)
    from sa.kinds import folded_returns
    # what the wrapper returns, path by path (a result variable and an early return read the same): False on
    # every path that went through a handler, the callback's own result otherwise
    rets = folded_returns(cfg, cs, lambda e: None, follow_exc=True, tag_exc=True)
    after_exc = {t for t, exc in rets if exc}
    normal = {t for t, exc in rets if not exc}
    rep.check(after_exc == {"False"}, "R2",
              key(cs, None, "returns False after a contained exception (process_* is then skipped)"), cs, None, str(sorted(after_exc)))
    call_txt = [t for t in normal if t.startswith("%s(" % cs.params[0])]
    rep.check(len(normal) == 1 and len(call_txt) == 1, "R2",
              key(cs, None, "returns the callback's own result otherwise"), cs, None, str(sorted(normal)))

    # ------------------------------------------------------------------ R3 dispatch loops
    for q in ("BaseFlumine._process_market_books", "FlumineSimulation._process_market_books"):
        cn, mn = q.split(".")
        f = prog.own_method(cn, mn)
        cfg = ctx.cfg(f)
        outer = [lp for lp in walk_nodes(f.node.body, ast.For) if utext(lp.iter) == "event.event"]
        if len(outer) != 1:
            raise AnalysisError("%s: per-book loop not found" % q)
        ob = outer[0]
        mw = [lp for lp in walk_nodes(ob.body, ast.For) if utext(lp.iter) == "self._market_middleware"]
        st = [lp for lp in walk_nodes(ob.body, ast.For) if utext(lp.iter) == "self.strategies"]
        if len(st) != 1:
            raise AnalysisError("%s: strategy loop not found" % q)
        if not rep.check(len(mw) == 1, "R3", key(f, None, "middleware dispatched once per update"), f, ob,
                         "found %d middleware loops" % len(mw)):
            continue
        mwn = [n for n in cfg.live_nodes() if n.kind == "for_init" and n.ast is mw[0]][0]
        stn = [n for n in cfg.live_nodes() if n.kind == "for_init" and n.ast is st[0]][0]
        rep.check(cfg.dominates(mwn.id, stn.id), "R3", key(f, None, "middleware runs before the strategies"), f, st[0])
        for lp, nm in ((mw[0], "middleware"), (st[0], "strategy")):
            rep.check(not loop_body_exits_early(lp) and not walk_nodes(lp.body, ast.Raise) and
                      (nm == "strategy" or not walk_nodes(lp.body, ast.Continue)), "R3",
                      key(f, None, "%s loop cannot be left early" % nm), f, lp)
        rep.check(not walk_nodes(ob.body, (ast.Break, ast.Return)), "R3",
                  key(f, None, "per-book loop has no break / return"), f, ob)
        _strategy_body(ctx, rep, f, st[0])
        # `continue` in the per-book loop only for CLOSED books
        cfgc = ctx.cfg(f)
        inner_conts = {id(x) for lp_ in walk_nodes(ob.body, (ast.For, ast.While)) for x in walk_nodes(lp_.body, ast.Continue)}
        for n in cfgc.live_nodes():
            if n.kind == "stmt" and isinstance(n.ast, ast.Continue) and id(n.ast) not in inner_conts:
                gs = [(utext(g.exprs[0]), pol) for g, pol in cfgc.guards(n.id)]
                rep.check(("market_book.status == 'CLOSED'", True) in gs, "R3",
                          key(f, None, "an update is skipped only when it closes the market"), f, n.ast, str(gs))
    # other dispatchers: once per strategy, no early exit; the call may be suppressed only by the strategy's own
    # subscription / its own orders / its own check (an early `continue` under one of these is the same thing)
    from sa.kinds import guard_pairs
    allowed = {
        "BaseFlumine._process_current_orders": {("market.blotter.active", True), ("market.closed is False", True), ("strategy_orders", True)},
        "FlumineSimulation._process_simulated_orders": {("strategy_orders", True)},
        "BaseFlumine._process_raw_data": {("stream_id in strategy.stream_ids", True)},
        "BaseFlumine._process_sports_data": {("sports_data.streaming_unique_id in strategy.stream_ids", True)},
    }
    for q, cb, wrapper in (("BaseFlumine._process_current_orders", "process_orders", "call_process_orders_error_handling"),
                           ("FlumineSimulation._process_simulated_orders", "process_orders", "call_process_orders_error_handling"),
                           ("BaseFlumine._process_raw_data", "process_raw_data", "call_process_raw_data"),
                           ("BaseFlumine._process_sports_data", "process_sports_data", "call_strategy_error_handling")):
        cn, mn = q.split(".")
        f = prog.own_method(cn, mn)
        cfgd = ctx.cfg(f)
        st = [lp for lp in walk_nodes(f.node.body, ast.For) if utext(lp.iter) == "self.strategies"]
        ok = len(st) == 1 and not loop_body_exits_early(st[0]) and not walk_nodes(st[0].body, ast.Raise)
        why = ""
        if ok:
            calls = [c for c in walk_calls(st[0].body) if call_name(c) == wrapper]
            if cb == "process_sports_data":
                calls = [c for c in calls if utext(c.args[0]).endswith(".process_sports_data")]
            ok = len(calls) == 1
            if ok:
                n = [x for x in cfgd.live_nodes() if calls[0] in walk_calls(x.exprs)][0]
                gs = {g for g in guard_pairs(cfgd, n.id) if not g[0].startswith("utils.call_strategy_error_handling(strategy.check_")}
                ok = gs == allowed[q]
                why = "guards: %s" % sorted(gs)
        rep.check(ok, "R3", key(f, None, "%s dispatched once per strategy, loop cannot be left early" % cb), f, None, why)

    # ------------------------------------------------------------------ R4 copy discipline
    copy_discipline(ctx, rep, "R4")

    # ------------------------------------------------------------------ R5 shared pending queue
    # the queue of pending packages is shared by all strategies: each package must be judged on its
    # own (whole queue scanned, release test per package), otherwise one strategy's slow request
    # delays another strategy's fast one
    from rules.c07 import release_loop
    release_loop(ctx, rep, "R5")


def _inside_try(f, call):
    for t in walk_nodes(f.node.body, ast.Try):
        if call in walk_calls(t.body):
            return True
    return False


def _strategy_body(ctx, rep, f, lp):
    sv = utext(lp.target)
    calls = [c for c in walk_calls(lp.body) if call_name(c) == "call_strategy_error_handling"]
    by = {}
    for c in calls:
        by.setdefault(utext(c.args[0]), []).append(c)
    for cb in ("check_market_book", "process_market_book", "process_new_market"):
        rep.check(len(by.get("%s.%s" % (sv, cb), [])) == 1, "R3",
                  key(f, None, "%s dispatched exactly once per strategy and update" % cb), f, lp,
                  str({k: len(v) for k, v in by.items()}))
    cfg = ctx.cfg(f)
    pm = by.get("%s.process_market_book" % sv, [])
    if pm:
        n = [x for x in cfg.live_nodes() if pm[0] in walk_calls(x.exprs)][0]
        gs = [(utext(g.exprs[0]), pol) for g, pol in cfg.guards(n.id)]
        sub = ("market_book.streaming_unique_id in %s.stream_ids" % sv, True) in gs
        chk = any("check_market_book" in t and pol for t, pol in gs)
        rep.check(sub and chk, "R3", key(f, None, "processing gated by subscription and by the strategy's own check only"),
                  f, pm[0], str(gs))
        extra = [g for g in gs if "streaming_unique_id" not in g[0] and "check_market_book" not in g[0]
                 and g[0] not in ("market_book.status == 'CLOSED'", "self.handler_queue", "market_book.streaming_snap is False",
                                  "latency > 2", "market_is_new", "market.closed", "market.blotter.active")]
        rep.check(not extra, "R3", key(f, None, "no other condition can suppress a strategy's update"), f, pm[0], str(extra))


def _memo_helper(ctx, caller, call, own_key):
    """`self._h(LOOKUP, market_analytics, order)` where _h returns LOOKUP[key] for the order's own key and, on a
    miss only, first stores (analytics[key].runner, analytics[key].traded.copy()) under that key.  Returns
    (lookup text in the caller, the fill statement, source of the copy in the caller's terms) or None"""
    from sa.kinds import expanded, guard_pairs
    callees, conf = ctx.res.resolve_call(call, caller)
    if len(callees) != 1:
        return None
    g = list(callees)[0]
    ps = [p_ for p_ in g.params if p_ not in ("self", "cls")]
    if len(ps) != len(call.args) or len(ps) != 3:
        return None
    amap = dict(zip(ps, [utext(a) for a in call.args]))

    def in_caller_terms(e):
        import copy as _c
        t = ast.parse(expanded(g, e), mode="eval").body

        class S(ast.NodeTransformer):
            def visit_Name(self, n):
                if n.id in amap:
                    return ast.parse(amap[n.id], mode="eval").body
                return n
        return utext(S().visit(_c.deepcopy(t)))
    cfgg = ctx.cfg(g)
    fills = [st for st in walk_nodes(g.node.body, ast.Assign) if any(isinstance(t, ast.Subscript) for t in st.targets)
             and any(call_name(x) == "copy" for x in walk_calls([st.value]))]
    if len(fills) != 1:
        return None
    fill = fills[0]
    tgt = [t for t in fill.targets if isinstance(t, ast.Subscript)][0]
    lk = utext(tgt.value)
    if lk not in amap or in_caller_terms(tgt.slice) != own_key:
        return None
    # the table is the CALLER's: the helper never rebinds the parameter (`lookup = lookup or {}` swaps an empty -
    # falsy - table for a private one on every call, and nothing is shared)
    if any(isinstance(x, ast.Name) and x.id == lk and isinstance(x.ctx, ast.Store) for x in ast.walk(g.node)):
        return None
    locs = {utext(t) for t in fill.targets if isinstance(t, ast.Name)}
    # every result is the stored entry
    for r in walk_nodes(g.node.body, ast.Return):
        if r.value is None:
            return None
        ok = (isinstance(r.value, ast.Subscript) and utext(r.value.value) == lk and in_caller_terms(r.value.slice) == own_key) or \
            (isinstance(r.value, ast.Name) and (r.value.id in locs or any(
                isinstance(st.value, ast.Call) and call_name(st.value) == "get" and recv_text(st.value) == lk
                for st in walk_nodes(g.node.body, ast.Assign) if r.value.id in [utext(t) for t in st.targets])))
        if not ok:
            return None
    # the fill happens on a miss only
    nfill = [x for x in cfgg.live_nodes() if x.ast is fill]
    if len(nfill) != 1:
        return None
    miss = False
    for h in [x for x in cfgg.live_nodes() if x.kind == "except"]:
        if utext(h.ast.type) == "KeyError" and cfgg.dominates(h.id, nfill[0].id):
            miss = True
    for t_, pol in guard_pairs(cfgg, nfill[0].id):
        if t_.endswith(" is None") and pol:
            miss = True
    if not miss:
        return None
    copies = [x for x in walk_calls([fill.value]) if call_name(x) == "copy"]
    if len(copies) != 1:
        return None
    return amap[lk], fill, in_caller_terms(copies[0].func.value)


def _is_counter(prog, caller, e):
    """a module-level name (of this module, or `utils.<name>`) bound once to Counter() / defaultdict(int)"""
    nm = e.attr if isinstance(e, ast.Attribute) else (e.id if isinstance(e, ast.Name) else None)
    if nm is None:
        return False
    mods = [caller.module]
    if isinstance(e, ast.Attribute) and isinstance(e.value, ast.Name):
        mods = [m for m in prog.modules.values() if m.name.endswith("." + e.value.id)]
    for m in mods:
        defs = [st for st in m.tree.body if isinstance(st, ast.Assign) and len(st.targets) == 1
                and isinstance(st.targets[0], ast.Name) and st.targets[0].id == nm]
        if len(defs) == 1 and utext(defs[0].value) in ("collections.Counter()", "Counter()", "defaultdict(int)",
                                                       "collections.defaultdict(int)"):
            return True
    return False


def _contains_its_own_errors(prog, caller, name):
    cands = [g for g in prog.all_functions() if g.name == name and g.cls is None and g.module is caller.module]
    if len(cands) != 1:
        return False
    body = [st for st in cands[0].node.body
            if not (isinstance(st, ast.Expr) and isinstance(st.value, ast.Constant))]
    if len(body) != 1 or not isinstance(body[0], ast.Try) or body[0].finalbody or body[0].orelse:
        return False
    t = body[0]
    catch_all = [h for h in t.handlers if h.type is None or utext(h.type) in ("Exception", "BaseException")]
    if not catch_all or t.handlers[-1] is not catch_all[-1]:
        return False
    for h in t.handlers:
        for st in h.body:
            ok = isinstance(st, ast.Pass) or (isinstance(st, ast.Return) and (st.value is None or isinstance(st.value, ast.Constant) or (
                isinstance(st.value, (ast.Dict, ast.List, ast.Tuple)) and not ast.dump(st.value).count("Name("))))
            if not ok:
                return False
    # the function returns on every path of the try body or falls off its end (None): nothing after the try
    return True


def copy_discipline(ctx, rep, R):
    """per-strategy / per-instance copy of the traded ladder (shared with C06-R1)"""
    prog = ctx.prog
    f = prog.own_method("SimulatedMiddleware", "_process_simulated_orders")
    cfg = ctx.cfg(f)
    sim_calls = [c for c in walk_calls(f.node.body) if isinstance(c.func, ast.Attribute) and c.func.attr == "simulated"]
    rep.floor(R, "order.simulated(...) matching calls", len(sim_calls), 2)
    for c in sim_calls:
        n = [x for x in cfg.live_nodes() if c in walk_calls(x.exprs)][0]
        gs = [(utext(g.exprs[0]), pol) for g, pol in cfg.guards(n.id)]
        isolated = ("config.simulated_strategy_isolation", True) in gs
        # loops enclosing the call, outermost first
        loops = _enclosing_loops(f, c)
        order_loop = loops[-1] if loops else None
        rt = utext(c.args[1]) if len(c.args) > 1 else None
        from sa.kinds import expanded, guard_pairs
        own_key = "(order.selection_id, order.handicap)"
        d = [s for s in walk_nodes(order_loop.body if order_loop else [], ast.Assign) if rt in [utext(t) for t in s.targets]]
        lookup, memo = None, None
        # (a) direct: runner_traded = LOOKUP[(order.selection_id, order.handicap)]
        if len(d) == 1 and isinstance(d[0].value, ast.Subscript) and expanded(f, d[0].value.slice) == own_key:
            lookup = utext(d[0].value.value)
        # (b) memoised: runner_traded = LOOKUP.get(key); if runner_traded is None: runner_traded = LOOKUP[key] = (.., traded.copy())
        elif len(d) == 2:
            g_ = [s for s in d if isinstance(s.value, ast.Call) and call_name(s.value) == "get" and len(s.value.args) == 1
                  and expanded(f, s.value.args[0]) == own_key]
            f_ = [s for s in d if s not in g_ and len(s.targets) == 2 and any(
                isinstance(t, ast.Subscript) and expanded(f, t.slice) == own_key for t in s.targets)]
            if len(g_) == 1 and len(f_) == 1:
                tgt = [t for t in f_[0].targets if isinstance(t, ast.Subscript)][0]
                nfill = [x for x in cfg.live_nodes() if x.ast is f_[0]]
                if utext(tgt.value) == recv_text(g_[0].value) and len(nfill) == 1 and \
                        ("%s is None" % rt, True) in guard_pairs(cfg, nfill[0].id):
                    lookup, memo = utext(tgt.value), f_[0]
            elif len(g_) == 1 and not f_:
                # the same written in two statements: rt = (.., traded.copy()) ; LOOKUP[key] = rt  (both on the miss)
                f2 = [s for s in d if s not in g_ and any(call_name(x) == "copy" for x in walk_calls([s.value]))]
                st2 = [s for s in walk_nodes(order_loop.body, ast.Assign) if len(s.targets) == 1 and isinstance(s.targets[0], ast.Subscript)
                       and expanded(f, s.targets[0].slice) == own_key and utext(s.value) == rt]
                if len(f2) == 1 and len(st2) == 1 and utext(st2[0].targets[0].value) == recv_text(g_[0].value):
                    n1 = [x for x in cfg.live_nodes() if x.ast is f2[0]]
                    n2 = [x for x in cfg.live_nodes() if x.ast is st2[0]]
                    if len(n1) == 1 and len(n2) == 1 and ("%s is None" % rt, True) in guard_pairs(cfg, n1[0].id) and \
                            ("%s is None" % rt, True) in guard_pairs(cfg, n2[0].id) and cfg.dominates(n1[0].id, n2[0].id):
                        lookup, memo = utext(st2[0].targets[0].value), f2[0]
        memo_src = None
        # (c) memoised in a helper: runner_traded = self._helper(LOOKUP, market_analytics, order), the helper
        # returning LOOKUP[key] and filling it on a miss (try / except KeyError, or .get + `is None`)
        if lookup is None and len(d) == 1 and isinstance(d[0].value, ast.Call) and not d[0].value.keywords:
            mh = _memo_helper(ctx, f, d[0].value, own_key)
            if mh is not None:
                lookup, memo, memo_src = mh
        good = lookup is not None
        rep.check(good, R, key(f, c, "ladder looked up by the order's own (selection, handicap)"), f, c)
        if not good:
            continue
        # what the matcher receives IS the looked-up entry: no name that makes up the argument is bound a second
        # time inside the order loop (a per-order rebuild / filter / copy of the ladder is a private ladder again:
        # what this order consumes is not seen by the next one)
        arg_names = {x.id for x in ast.walk(c.args[1]) if isinstance(x, ast.Name)}
        allowed = {id(s_) for s_ in d}
        rebound = [s_ for s_ in walk_nodes(order_loop.body, (ast.Assign, ast.AugAssign, ast.AnnAssign))
                   if id(s_) not in allowed and arg_names & {x.id for t in (s_.targets if isinstance(s_, ast.Assign) else [s_.target])
                                                           for x in ast.walk(t) if isinstance(x, ast.Name)}]
        fresh = [x for x in ast.walk(c.args[1]) if isinstance(x, (ast.Call, ast.DictComp, ast.ListComp, ast.Dict))]
        rep.check(not rebound and not fresh, R, key(f, c, "the matcher receives the shared ladder entry itself, not a per-order rebuild"),
                  f, c, "; ".join(utext(x) for x in rebound + fresh)[:200])
        defs = [s for s in walk_nodes(f.node.body, ast.Assign) if utext(s.targets[0]) == lookup
                and _dominating(f, s, c)]
        ok = len(defs) == 1
        where = ""
        if ok:
            dd = defs[0]
            v = dd.value
            dl = _enclosing_loops(f, dd)
            if memo is None:
                copies = [x for x in walk_calls([v]) if call_name(x) == "copy"]
                ok = isinstance(v, ast.DictComp) and len(copies) == 1 and utext(copies[0].func.value).endswith(".traded")
            else:
                # the table starts empty in the right scope and a runner's ladder is copied when its first order
                # comes up (the fill above is guarded by the miss), from the analytics entry of that same key
                copies = [x for x in walk_calls([memo.value]) if call_name(x) == "copy"]
                src = (memo_src if memo_src is not None else expanded(f, copies[0].func.value)) if len(copies) == 1 else ""
                ok = isinstance(v, ast.Dict) and not v.keys and len(copies) == 1 and \
                    src in ("market_analytics[%s].traded" % own_key, "market_analytics[order.selection_id, order.handicap].traded")
            if isolated:
                strat = [lp for lp in loops if "_strategy_orders" in utext(lp.iter)]
                ok = ok and len(strat) == 1 and strat[0] in dl and order_loop not in dl
                where = "inside the strategy loop, outside the order loop"
            else:
                ok = ok and not dl
                where = "outside every loop (one shared copy per update)"
        rep.check(ok, R, key(f, c, "traded ladder copied once %s" % ("per strategy" if isolated else "per instance")),
                  f, c, where if ok else "a copy per order double counts passive liquidity; a shared copy across "
                                         "strategies lets one strategy's fills starve another")
    # every live order's runner is looked up in the per-market analytics: entries are added when a runner is
    # first seen ACTIVE and stay until the whole market is dropped - an entry removed in between makes the
    # lookup raise for that runner's orders and the matching of the orders after it is skipped
    from sa.kinds import MUTATORS, store_targets
    mw = prog.cls("SimulatedMiddleware")
    n_an = 0
    for g in mw.methods.values():
        names = {"market_analytics"} if ("market_analytics" in g.params or any(
            utext(s2.targets[0]) == "market_analytics" for s2 in walk_nodes(g.node.body, ast.Assign))) else set()

        def is_analytics(e):
            while isinstance(e, ast.Subscript):
                if utext(e.value) == "self.markets":
                    return "market"
                e = e.value
            if isinstance(e, ast.Name) and e.id in names:
                return "runner"
            return "all" if utext(e) == "self.markets" else None
        for c2 in walk_calls(g.node.body):
            if isinstance(c2.func, ast.Attribute) and c2.func.attr in MUTATORS and is_analytics(c2.func.value):
                n_an += 1
                whole = (c2.func.attr == "pop" and utext(c2.func.value) == "self.markets"
                         and g.name == "remove_market")
                rep.check(c2.func.attr in ("setdefault", "update") or whole, R,
                          "%s() on the runner analytics in %s" % (c2.func.attr, key(g, c2)), g, c2,
                          "analytics entries are only ever added while the market is live")
        for s2 in walk_nodes(g.node.body, ast.Delete):
            for t2 in s2.targets:
                if isinstance(t2, ast.Subscript) and is_analytics(t2.value):
                    n_an += 1
                    whole = utext(t2.value) == "self.markets" and g.name == "remove_market"
                    rep.check(whole, R, "deletion from the runner analytics in %s" % key(g, s2), g, s2,
                              "only remove_market drops analytics, and only the whole market's")
    rep.floor(R, "removals from the analytics registry (remove_market)", n_an, 1)
    # the analytics object itself is never handed to the matcher
    rep.check(not any("market_analytics[" in utext(c.args[1]) for c in sim_calls if len(c.args) > 1), R,
              key(f, None, "the matcher never consumes the shared analytics ladder itself"), f)


def _enclosing_loops(f, node):
    out = []

    def visit(stmts, stack):
        for s in stmts:
            if s is node or (isinstance(node, ast.expr) and node in list(ast.walk(s)) and not _has_child_stmt_with(s, node)):
                out.extend(stack)
                return True
            st2 = stack + [s] if isinstance(s, (ast.For, ast.While)) else stack
            for fld in ("body", "orelse", "finalbody"):
                if visit(getattr(s, fld, []) or [], st2 if fld == "body" else stack):
                    return True
            for h in getattr(s, "handlers", []) or []:
                if visit(h.body, stack):
                    return True
        return False

    visit(f.node.body, [])
    return out


def _has_child_stmt_with(s, node):
    for fld in ("body", "orelse", "finalbody"):
        for c in getattr(s, fld, []) or []:
            if node in list(ast.walk(c)):
                return True
    for h in getattr(s, "handlers", []) or []:
        for c in h.body:
            if node in list(ast.walk(c)):
                return True
    return False


def _dominating(f, assign, call):
    """crude lexical dominance: the assignment precedes the call and is in an enclosing block"""
    if assign.lineno >= call.lineno:
        return False
    # same branch: the assignment's enclosing if-branches must also enclose the call

    def branches(node):
        out = []

        def visit(stmts, stack):
            for s in stmts:
                if s is node or node in list(ast.walk(s)) and not _has_child_stmt_with(s, node):
                    out.extend(stack)
                    return True
                if isinstance(s, ast.If):
                    if visit(s.body, stack + [(s, True)]) or visit(s.orelse, stack + [(s, False)]):
                        return True
                else:
                    for fld in ("body", "orelse", "finalbody"):
                        if visit(getattr(s, fld, []) or [], stack):
                            return True
            return False

        visit(f.node.body, [])
        return out

    ba, bc = branches(assign), branches(call)
    return all(b in bc for b in ba)


_BF = "flumine/baseflumine.py"
_SI = "flumine/simulation/simulation.py"
_U = "flumine/utils.py"
MUTANTS = [
    dict(id="c13-ladder-rebuilt-per-order", file="flumine/markets/middleware.py", func="SimulatedMiddleware._process_simulated_orders",
         old="                        runner_traded = _lookup[(order.selection_id, order.handicap)]\n", nth=0,
         new="                        runner_traded = _lookup[(order.selection_id, order.handicap)]\n                        runner_traded = (runner_traded[0], dict(runner_traded[1]))\n",
         expect=["R4"], why="each order consumes from a private copy: traded volume is counted once per order"),
    dict(id="c13-direct-strategy-call", file=_SI, func="FlumineSimulation._process_market_books",
         old="                        utils.call_strategy_error_handling(\n                            strategy.process_market_book, market, market_book\n                        )",
         new="                        strategy.process_market_book(market, market_book)", expect=["R1", "R3"],
         why="an exception in one strategy aborts the update for the others"),
    dict(id="c13-wrapper-reraises", file=_U, func="call_strategy_error_handling",
         old="        if config.raise_errors:\n            raise\n    return False", new="        raise\n    return False",
         expect=["R2"], why="callback errors escape"),
    dict(id="c13-flumine-exception-reraised", file=_U, func="call_middleware_error_handling",
         old="            exc_info=True,\n        )\n    except Exception as e:", new="            exc_info=True,\n        )\n        raise\n    except Exception as e:",
         expect=["R2"], why="FlumineException escapes the middleware wrapper"),
    dict(id="c13-break-after-first-strategy", file=_BF, func="BaseFlumine._process_market_books",
         old="                        utils.call_strategy_error_handling(\n                            strategy.process_market_book, market, market_book\n                        )\n",
         new="                        utils.call_strategy_error_handling(\n                            strategy.process_market_book, market, market_book\n                        )\n                        break\n",
         expect=["R3"], why="only the first strategy receives the update"),
    dict(id="c13-strategies-before-middleware", file=_SI, func="FlumineSimulation._process_market_books",
         old="            # process middleware\n            for middleware in self._market_middleware:\n                utils.call_middleware_error_handling(middleware, market)\n\n            # process current orders\n            if market.blotter.active:\n                self._process_simulated_orders(market)\n\n",
         new="", expect=["R3", "R1"], why="middleware no longer runs before the strategies"),
    dict(id="c13-middleware-after-strategies", file=_BF, func="BaseFlumine._process_market_books",
         old="            # process middleware\n            for middleware in self._market_middleware:\n                utils.call_middleware_error_handling(middleware, market)\n\n            for strategy in self.strategies:",
         new="            for strategy in self.strategies:", expect=["R3", "R1"], why="middleware skipped"),
    dict(id="c13-hoist-copy-out-of-strategy-loop", file="flumine/markets/middleware.py",
         func="SimulatedMiddleware._process_simulated_orders",
         old="            for strategy, orders in market.blotter._strategy_orders.items():\n",
         new="            _shared = {k: (v.runner, v.traded.copy()) for k, v in market_analytics.items()}\n            for strategy, orders in market.blotter._strategy_orders.items():\n",
         expect=[], why="(twin) an unused extra copy changes nothing: must stay silent", twin=True),
    dict(id="c13-shared-copy-across-strategies", file="flumine/markets/middleware.py",
         func="SimulatedMiddleware._process_simulated_orders",
         old="                if live_orders:\n                    _lookup = {\n                        k: (v.runner, v.traded.copy())\n                        for k, v in market_analytics.items()\n                    }\n                    live_orders_sorted",
         new="                if live_orders:\n                    _lookup = {\n                        k: (v.runner, v.traded)\n                        for k, v in market_analytics.items()\n                    }\n                    live_orders_sorted",
         expect=["R4"], why="strategies consume each other's liquidity"),
    dict(id="c13-handler-subscript", file=_U, func="call_process_raw_data",
         old="            \"FlumineException %s in %s\",\n            e,\n            strategy,\n",
         new="            \"FlumineException %s in %s (%s)\",\n            e,\n            strategy,\n            datum[\"id\"],\n",
         expect=["R2"], why="KeyError inside the handler escapes the containment"),
    dict(id="c13-false-not-returned", file=_U, func="call_strategy_error_handling",
         old="            raise\n    return False", new="            raise\n    return True", expect=["R2"],
         why="process_market_book runs after check_market_book crashed"),
    dict(id="c13-process-orders-direct", file=_BF, func="BaseFlumine._process_current_orders",
         old="                        utils.call_process_orders_error_handling(\n                            strategy, market, strategy_orders\n                        )",
         new="                        strategy.process_orders(market, strategy_orders)", expect=["R1", "R3"],
         why="process_orders errors escape"),
    dict(id="c13-custom-event-no-try", file=_BF, func="BaseFlumine._process_custom_event",
         old="        try:\n            event.callback(self, event)\n        except FlumineException as e:",
         new="        event.callback(self, event)\n        try:\n            pass\n        except FlumineException as e:",
         expect=["R1", "R2"], why="custom event errors escape"),
    dict(id="c13-sports-data-return", file=_BF, func="BaseFlumine._process_sports_data",
         old="                            utils.call_strategy_error_handling(\n                                strategy.process_sports_data, market, sports_data\n                            )",
         new="                            utils.call_strategy_error_handling(\n                                strategy.process_sports_data, market, sports_data\n                            )\n                            return",
         expect=["R3"], why="later strategies miss sports data"),
    dict(id="c13-middleware-direct", file=_BF, func="BaseFlumine._process_market_books",
         old="                utils.call_middleware_error_handling(middleware, market)", new="                middleware(market)",
         expect=["R1"], why="middleware errors abort the update"),
    dict(id="c13-update-suppressed-by-other-condition", file=_SI, func="FlumineSimulation._process_market_books",
         old="                if market_book.streaming_unique_id in strategy.stream_ids:",
         new="                if market_book.streaming_unique_id in strategy.stream_ids and not market.blotter.has_live_orders:",
         expect=["R3"], why="strategies skipped depending on other strategies' orders"),
    dict(id="c13-analytics-popped", file="flumine/markets/middleware.py", func="SimulatedMiddleware.__call__",
         old="                    runner_removals.append(_removal)\n",
         new="                    runner_removals.append(_removal)\n                    market_analytics.pop((runner.selection_id, runner.handicap), None)\n",
         expect=["R4"], why="the removed runner's orders make the lookup raise; later orders are not matched"),
]
MUTANTS = [m for m in MUTANTS if not m.get("twin")]
