"""C06 - Passive liquidity is never double counted; queue position is honoured."""

import ast
import itertools

from sa import AnalysisError
from sa.kinds import (key, utext, call_name, recv_text, calls_in, node_calls, canon_compare, oriented,
                      loop_body_exits_early, all_stores)
from sa.cfg import walk_calls, walk_nodes

EXPLANATION = (
    "Decided part of C06 (the mechanisms, not the aggregate bound): (R1) the traded ladder handed to the "
    "matcher is one copy per strategy (inside the strategy loop, outside the order loop), resp. one per "
    "update with isolation off, never the shared analytics object and never a copy per order; (R2) in "
    "_process_traded every eligible level calls _calculate_process_traded once and writes the consumed "
    "amount back into the same mapping under the same key, _calculate_process_traded returns the consumed "
    "amount on every path, halves the reported amount on read and doubles on write-back with the same "
    "constant, and consumes the queue ahead first; (R3) eligibility is BACK: traded price >= limit, LAY: "
    "traded price <= limit (decided over side x ordering), orders are served LAY by descending and BACK by "
    "ascending price, the matcher iterates the sorted list; (R4) the queue position is captured from the "
    "opposite side of the book at the order's own price, only when the order rests; (R5) only EXECUTABLE and "
    "in-flight orders are matched; (R6) the per-update traded volume is the positive difference of the "
    "cumulative ladders and empty when the ladder is unchanged; the available-prices mode stays behind its "
    "switch. Not decided: the aggregate bound itself and the queue arithmetic."
)

SIM = "flumine/simulation/simulatedorder.py"
MW = "flumine/markets/middleware.py"


def run(ctx, rep):
    prog, res = ctx.prog, ctx.res
    from rules.c13 import copy_discipline
    from rules.c07 import matchable_statuses
    from rules.c05 import reach_under, _cmp_eval, ORD

    # ------------------------------------------------------------------ R1
    copy_discipline(ctx, rep, "R1")

    # ------------------------------------------------------------------ R2 consumption written back
    pt = prog.own_method("SimulatedOrder", "_process_traded")
    cfg = ctx.cfg(pt)
    loops = [lp for lp in walk_nodes(pt.node.body, ast.For) if utext(lp.iter) == "%s.items()" % pt.params[2]]
    if len(loops) != 1:
        raise AnalysisError("_process_traded: loop over the traded ladder not found")
    lp = loops[0]
    kv = [utext(e) for e in lp.target.elts] if isinstance(lp.target, ast.Tuple) else []
    calls = node_calls(cfg, "_calculate_process_traded")
    rep.floor("R2", "calls of _calculate_process_traded", len(calls), 1)
    for n, c in calls:
        tgt = utext(n.ast.targets[0]) if isinstance(n.ast, ast.Assign) else None
        wb = [x for x in cfg.live_nodes() if x.kind == "stmt" and isinstance(x.ast, ast.Assign)
              and utext(x.ast.targets[0]) == "%s[%s]" % (pt.params[2], kv[0]) and cfg.dominates(n.id, x.id)
              and x.id in cfg.reachable(n.id, [h.id for h in cfg.live_nodes() if h.kind == "for"])]
        good = tgt is not None and len(wb) >= 1 and utext(c.args[1]) == kv[1]
        if good:
            from sa.kinds import resolve_local
            v = " ".join(utext(resolve_local(pt, wb[0].ast.value)).split())   # the value, or the local that names it
            good = v in ("max(%s - %s, 0.0)" % (kv[1], tgt), "max(%s - %s, 0)" % (kv[1], tgt))
            gs = [(utext(g.exprs[0]), pol) for g, pol in cfg.guards(wb[0].id)]
            good = good and (tgt, True) in gs
        rep.check(good, "R2", key(pt, c, "consumed volume written back under the same price"), pt, c,
                  "without the write-back the next order of the strategy is filled by the same traded volume")
    rep.check(not loop_body_exits_early(lp), "R2", key(pt, None, "every traded level is considered"), pt)
    cp = prog.own_method("SimulatedOrder", "_calculate_process_traded")
    cfgc = ctx.cfg(cp)
    rets = [n for n in cfgc.live_nodes() if n.kind == "return"]
    rep.check(len(rets) == 2 and all(n.ast.value is not None for n in rets) and cfgc.exit not in
              cfgc.reachable(cfgc.entry, [n.id for n in rets]), "R2", key(cp, None, "returns the consumed amount on every path"), cp)
    half = [s for s in walk_nodes(cp.node.body, ast.Assign) if utext(s.targets[0]) == "_traded_size"]
    dbl = [s for s in walk_nodes(cp.node.body, ast.Assign) if utext(s.targets[0]) == "_matched"]
    good = len(half) == 1 and utext(half[0].value) == "%s / 2" % cp.params[2] and len(dbl) == 1 and \
        utext(dbl[0].value) == "(self._piq + size) * 2"
    rep.check(good, "R2", key(cp, None, "reported volume halved on read, consumption doubled on write-back (same constant 2)"), cp,
              None, "%s ; %s" % ([utext(x.value) for x in half], [utext(x.value) for x in dbl]))
    # queue first: fills only when the halved volume exceeds the queue ahead, else the queue shrinks
    q = [n for n in cfgc.live_nodes() if n.kind == "cond" and "self._piq" in utext(n.exprs[0])]
    good = len(q) == 1
    if good:
        o = canon_compare(q[0].exprs[0])
        good = o is not None and " ".join(o[0].split()) == "self._piq - _traded_size" and o[1] == "<" and o[2] == "0"
        tn = cfgc.reachable([m for l, m in q[0].succ if l == "T"][0])
        fn = cfgc.reachable([m for l, m in q[0].succ if l == "F"][0])
        t_txt = " ".join(cfgc.nodes[x].text(200) for x in tn)
        f_txt = " ".join(cfgc.nodes[x].text(200) for x in fn)
        good = good and "size = _traded_size - self._piq" in t_txt and "self._piq = 0" in t_txt \
            and "_update_matched" not in f_txt and "self._piq -= _traded_size" in f_txt and "return traded_size" in f_txt
    rep.check(good, "R2", key(cp, None, "the queue ahead is consumed before the order is filled; a level that only shrinks the queue is consumed entirely"), cp)

    # ------------------------------------------------------------------ R3 eligibility and service order
    head = [n for n in cfg.live_nodes() if n.kind == "for" and n.ast is lp][0]
    start = [m for l, m in head.succ if l == "iter"][0]
    bad = []
    for side, rel in itertools.product(("BACK", "LAY"), ORD):
        def ev(e, side=side, rel=rel):
            t = utext(e)
            if t == "side == 'BACK'":
                return side == "BACK"
            if t == "side == 'LAY'":
                return side == "LAY"
            if t.startswith("logger."):
                return False
            o = oriented(canon_compare(e), kv[0])
            if o and o[2] == "price":
                return _cmp_eval(o[1], rel)
            return None
        hit = reach_under(cfg, start, {n.id for n, c in calls}, ev, stop={head.id})
        want = (side == "BACK" and rel in (">", "=")) or (side == "LAY" and rel in ("<", "="))
        if bool(hit) != want:
            bad.append("%s traded %s limit: eligible %s, expected %s" % (side, rel, bool(hit), want))
    rep.check(not bad, "R3", key(pt, None, "eligible traded prices: BACK >= limit, LAY <= limit"), pt, None, "; ".join(bad))
    d = {utext(s.targets[0]): utext(s.value) for s in walk_nodes(pt.node.body, ast.Assign)}
    rep.check(d.get("price") == "self.order.order_type.price" and d.get("side") == "self.side", "R3",
              key(pt, None, "limit and side are the order's own"), pt)
    so = prog.own_method("SimulatedMiddleware", "_sort_orders")
    keys = {}
    for s in walk_nodes(so.node.body, ast.Assign):
        v = s.value
        if isinstance(v, ast.Call) and call_name(v) == "sorted":
            kw = {k.arg: k.value for k in v.keywords}
            flt = utext(v.args[0])
            side = "LAY" if "o.side == 'LAY'" in flt else ("BACK" if "o.side == 'BACK'" in flt else "?")
            kk = utext(kw["key"].body) if "key" in kw and isinstance(kw["key"], ast.Lambda) else None
            rev = utext(kw["reverse"]) if "reverse" in kw else "False"
            keys[side] = (kk, rev, utext(s.targets[0]))
    good = keys.get("LAY", (None,))[0:2] in (("-x.order_type.price", "False"), ("x.order_type.price", "True")) and \
        keys.get("BACK", (None,))[0:2] in (("x.order_type.price", "False"), ("-x.order_type.price", "True"))
    rep.check(good, "R3", key(so, None, "LAY orders served by descending, BACK orders by ascending price"), so, None, str(keys))
    r = [x for x in walk_nodes(so.node.body, ast.Return)]
    rep.check(len(r) == 1 and good and set(n.id for n in ast.walk(r[0].value) if isinstance(n, ast.Name)) >=
              {keys["LAY"][2], keys["BACK"][2]}, "R3", key(so, None, "every order is in the served list"), so)
    mw = prog.own_method("SimulatedMiddleware", "_process_simulated_orders")
    n_l = 0
    for lp2 in walk_nodes(mw.node.body, ast.For):
        if any(isinstance(c.func, ast.Attribute) and c.func.attr == "simulated" for c in walk_calls(lp2.body)):
            if utext(lp2.target) != "order":
                continue
            n_l += 1
            # the iterable, directly or through the local(s) that name it
            dd = [s.value for s in walk_nodes(mw.node.body, ast.Assign) if utext(s.targets[0]) == utext(lp2.iter)] \
                if isinstance(lp2.iter, ast.Name) else [lp2.iter]
            rep.check(bool(dd) and all(utext(v) == "self._sort_orders(live_orders)" for v in dd), "R3",
                      key(mw, lp2.iter, "the matcher iterates the sorted orders"), mw, lp2)
    rep.floor("R3", "matching loops", n_l, 2)

    # ------------------------------------------------------------------ R4 queue capture
    pl = prog.own_method("SimulatedOrder", "place")
    cfgp = ctx.cfg(pl)
    av = {}
    for n in cfgp.live_nodes():
        if n.kind == "stmt" and isinstance(n.ast, ast.Assign) and utext(n.ast.targets[0]) == "available":
            gs = [(utext(g.exprs[0]), pol) for g, pol in cfgp.guards(n.id)]
            side = "BACK" if ("self.order.side == 'BACK'", True) in gs else ("LAY" if ("self.order.side == 'BACK'", False) in gs else "?")
            av[side] = utext(n.ast.value)
    rep.check(av == {"BACK": "runner.ex.available_to_lay", "LAY": "runner.ex.available_to_back"}, "R4",
              key(pl, None, "the queue ahead is read from the opposite side of the book"), pl, None, str(av))
    ql = [lp3 for lp3 in walk_nodes(pl.node.body, ast.For) if utext(lp3.iter) == "available"]
    good = len(ql) == 1
    if good:
        body = " ".join(utext(s) for s in ql[0].body)
        good = "avail['price'] == price" in body and "self._piq = avail['size']" in body
    if good:
        # the scan may stop only once the order's own price has been found: the two sides of the book
        # are sorted in opposite directions, so no price comparison other than equality is a valid exit
        cfgq = ctx.cfg(pl)
        for n in cfgq.live_nodes():
            if n.kind == "stmt" and isinstance(n.ast, (ast.Break,)) and n.ast in walk_nodes(ql[0].body, ast.Break):
                gs = [(utext(g.exprs[0]), pol) for g, pol in cfgq.guards(n.id)]
                inner = [g for g in gs if "avail" in g[0]]
                good = good and inner == [("avail['price'] == price", True)]
        good = good and not walk_nodes(ql[0].body, (ast.Return, ast.Continue))
    rep.check(good, "R4", key(pl, None, "queue = size available at the order's own price; the scan stops only on that price"), pl)
    piqw = sorted({f.qual for f, s, t, kind in all_stores(prog, "_piq")})
    rep.check(set(piqw) <= {"SimulatedOrder.__init__", "SimulatedOrder._calculate_process_available",
                            "SimulatedOrder._calculate_process_traded", "SimulatedOrder.place"} and "SimulatedOrder.place" in piqw, "R4",
              "the queue position is written only at placement and by the passive matcher", None, None, str(piqw))

    # ------------------------------------------------------------------ R5
    matchable_statuses(ctx, rep, "R5")

    # ------------------------------------------------------------------ R6 per-update traded volume
    ra = prog.own_method("RunnerAnalytics", "_calculate_traded")
    cfgr = ctx.cfg(ra)
    st = [n for n in cfgr.live_nodes() if n.kind == "stmt" and isinstance(n.ast, ast.Assign) and utext(n.ast.targets[0]) == "traded[key]"]
    tab = {}
    for n in st:
        gs = tuple(sorted((utext(g.exprs[0]), pol) for g, pol in cfgr.guards(n.id)))
        tab[gs] = utext(n.ast.value)
    want = {(("key in p_v", True), ("new_value > 0", True)): "round(new_value, 2)", (("key in p_v", False),): "value"}
    rep.check(tab == want, "R6", key(ra, None, "traded = positive increase of a known price, or the full amount of a new price"), ra, None, str(tab))
    nv = [s for s in walk_nodes(ra.node.body, ast.Assign) if utext(s.targets[0]) == "new_value"]
    rep.check(len(nv) == 1 and utext(nv[0].value) == "float(value) - float(p_v[key])", "R6",
              key(ra, None, "difference of the cumulative ladders (current - previous)"), ra)
    rep.check(any(utext(s) == "self._p_v = c_v" for s in walk_nodes(ra.node.body, ast.Assign)), "R6",
              key(ra, None, "the current ladder becomes the reference for the next update"), ra)
    rc = prog.own_method("RunnerAnalytics", "__call__")
    cfgc2 = ctx.cfg(rc)
    tb = {}
    for n in cfgc2.live_nodes():
        if n.kind == "stmt" and isinstance(n.ast, ast.Assign) and utext(n.ast.targets[0]) == "self.traded":
            gs = [(utext(g.exprs[0]), pol) for g, pol in cfgc2.guards(n.id)]
            tb[gs[0][1] if gs else None] = utext(n.ast.value)
    rep.check(tb == {True: "{}", False: "self._calculate_traded(_tv)"}, "R6",
              key(rc, None, "an unchanged ladder yields no traded volume"), rc, None, str(tb))
    ca = prog.own_method("SimulatedOrder", "__call__")
    cfga = ctx.cfg(ca)
    pa = node_calls(cfga, "_process_available")
    good = len(pa) == 1 and ("config.simulation_available_prices", True) in [(utext(g.exprs[0]), pol) for g, pol in cfga.guards(pa[0][0].id)]
    rep.check(good, "R6", key(ca, None, "the (documented double-counting) available-prices mode stays behind its switch"), ca)
    dflt = prog.const_value("flumine.config", "simulation_available_prices")
    rep.check(dflt is False, "R6", "config.simulation_available_prices defaults to False", None, None, str(dflt))
    ptc = node_calls(cfga, "_process_traded")
    good = len(ptc) == 1 and utext(ptc[0][1].args[1]) == "traded"
    d2 = [s for s in walk_nodes(ca.node.body, ast.Assign) if utext(s.targets[0]) == "traded"]
    good = good and len(d2) == 1 and utext(d2[0].value) == "%s[1]" % ca.params[2]
    rep.check(good, "R6", key(ca, None, "the matcher consumes the ladder copy it was handed"), ca)


MUTANTS = [
    dict(id="c06-copy-per-order", file=MW, func="SimulatedMiddleware._process_simulated_orders",
         old="                    for order in live_orders_sorted:\n                        runner_traded = _lookup[(order.selection_id, order.handicap)]\n                        order.simulated(market.market_book, runner_traded)\n        else:",
         new="                    for order in live_orders_sorted:\n                        _lookup = {\n                            k: (v.runner, v.traded.copy())\n                            for k, v in market_analytics.items()\n                        }\n                        runner_traded = _lookup[(order.selection_id, order.handicap)]\n                        order.simulated(market.market_book, runner_traded)\n        else:",
         expect=["R1"], why="every order is filled by the full traded volume"),
    dict(id="c06-lookup-outside-strategy-loop", file=MW, func="SimulatedMiddleware._process_simulated_orders",
         old="            for strategy, orders in market.blotter._strategy_orders.items():\n                live_orders = [\n                    o for o in orders if o.status in LIVE_STATUS and o.simulated\n                ]\n                if live_orders:\n                    _lookup = {\n                        k: (v.runner, v.traded.copy())\n                        for k, v in market_analytics.items()\n                    }\n",
         new="            _lookup = {\n                k: (v.runner, v.traded.copy())\n                for k, v in market_analytics.items()\n            }\n            for strategy, orders in market.blotter._strategy_orders.items():\n                live_orders = [\n                    o for o in orders if o.status in LIVE_STATUS and o.simulated\n                ]\n                if live_orders:\n",
         expect=["R1"], why="strategies starve each other (isolation lost)"),
    dict(id="c06-no-write-back", file=SIM, func="SimulatedOrder._process_traded",
         old="                if matched:\n                    traded[traded_price] = max(traded_size - matched, 0.0)\n            elif side == \"LAY\"",
         new="            elif side == \"LAY\"", expect=["R2"], why="BACK orders double count traded volume"),
    dict(id="c06-write-back-not-doubled", file=SIM, func="SimulatedOrder._calculate_process_traded",
         old="            _matched = (self._piq + size) * 2", new="            _matched = self._piq + size", expect=["R2"],
         why="only half of the consumption is removed"),
    dict(id="c06-sort-reversed", file=MW, func="SimulatedMiddleware._sort_orders",
         old="            key=lambda x: -x.order_type.price,", new="            key=lambda x: x.order_type.price,", expect=["R3"],
         why="worse-priced lays served first"),
    dict(id="c06-queue-same-side", file=SIM, func="SimulatedOrder.place",
         old="                available = runner.ex.available_to_lay\n", new="                available = runner.ex.available_to_back\n", expect=["R4"],
         why="queue read from the wrong side"),
    dict(id="c06-queue-scan-sorted-exit", file=SIM, func="SimulatedOrder.place",
         old="                    self._piq = avail[\"size\"]\n                    break\n",
         new="                    self._piq = avail[\"size\"]\n                    break\n                elif avail[\"price\"] > price:\n                    break\n",
         expect=["R4"], why="a LAY behind the best back price gets no queue (back side is sorted descending)"),
    dict(id="c06-pending-matchable", file=MW, old="LIVE_STATUS = [\n    OrderStatus.EXECUTABLE,",
         new="LIVE_STATUS = [\n    OrderStatus.PENDING,\n    OrderStatus.EXECUTABLE,", expect=["R5"], why="orders matched before they arrive"),
    dict(id="c06-eligibility-lay-flipped", file=SIM, func="SimulatedOrder._process_traded",
         old='            elif side == "LAY" and traded_price <= price:', new='            elif side == "LAY" and traded_price >= price:', expect=["R3"],
         why="lays filled by trades above their limit"),
    dict(id="c06-queue-ignored", file=SIM, func="SimulatedOrder._calculate_process_traded",
         old="        if self._piq - _traded_size < 0:\n            size = _traded_size - self._piq", new="        if self._piq - _traded_size < 0:\n            size = _traded_size",
         expect=["R2"], why="queue ahead not honoured"),
    dict(id="c06-traded-not-reset", file=MW, func="RunnerAnalytics.__call__",
         old="        if self._traded_volume == _tv:\n            self.traded = {}\n        else:", new="        if self._traded_volume == _tv:\n            pass\n        else:",
         expect=["R6"], why="the previous update's volume is matched again"),
    dict(id="c06-cumulative-not-diffed", file=MW, func="RunnerAnalytics._calculate_traded",
         old="                new_value = float(value) - float(p_v[key])", new="                new_value = float(value)", expect=["R6"],
         why="cumulative volume treated as new volume"),
    dict(id="c06-unsorted-iteration", file=MW, func="SimulatedMiddleware._process_simulated_orders",
         old="                    live_orders_sorted = self._sort_orders(live_orders)\n                    for order in live_orders_sorted:\n                        runner_traded",
         new="                    live_orders_sorted = self._sort_orders(live_orders)\n                    for order in live_orders:\n                        runner_traded",
         expect=["R3", "R1"], why="service order ignored"),
    dict(id="c06-available-prices-always", file=SIM, func="SimulatedOrder.__call__",
         old="            if config.simulation_available_prices:\n", new="            if True:\n", expect=["R6"], why="double-counting mode always on"),
    dict(id="c06-cache-not-updated", file=MW, func="RunnerAnalytics._calculate_traded",
         old="        self._p_v = c_v\n", new="", expect=["R6"], why="old increments counted again on every update"),
]
