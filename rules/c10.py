"""C10 - Trade and runner accounting follows the real state of the orders."""

import ast
import itertools

from sa import AnalysisError
from sa.kinds import (key, utext, call_name, recv_text, calls_in, node_calls, all_stores,
                      all_mutator_calls, canon_compare, oriented)
from sa.cfg import walk_calls, walk_nodes

EXPLANATION = (
    "Structural decision of C10: (R1) order status changes only through BaseOrder._update_status, which "
    "recomputes `complete` before it consults trade.complete and never completes a trade for a VIOLATION; "
    "Trade.status changes only through Trade._update_status; (R2) Trade.complete is exactly "
    "status == LIVE and not pending_orders and every order complete; (R3) RunnerContext.place is called only "
    "for executed placements and for adoption, RunnerContext.reset only from Trade.complete_trade, which is "
    "called only from the two guarded funnels, both with the key (market, selection, handicap) that place "
    "used; the two lists are written nowhere else and place/reset keep them duplicate-free; (R4) every status "
    "setter call in a response handler or reset_orders sits inside `with <order>.trade`, whose __exit__ "
    "restores LIVE, so a trade cannot complete half-way through a response that is about to add a replacement "
    "order; (R5) validate_order, evaluated by the checker over the finite abstract domain "
    "ordering(count, max) x membership x cool-down, refuses exactly when a limit would be exceeded. Finality "
    "of completion (a freed slot is not re-occupied by a re-opened order) is C03-R2."
)

SETTERS = ("placing", "executable", "execution_complete", "cancelling", "updating", "replacing", "violation")


def run(ctx, rep):
    prog, res = ctx.prog, ctx.res

    # ------------------------------------------------------------------ R1 funnel
    us = prog.own_method("BaseOrder", "_update_status")
    cfg = ctx.cfg(us)
    comp = [n for n in cfg.live_nodes() if n.kind == "stmt" and isinstance(n.ast, ast.Assign)
            and utext(n.ast.targets[0]) == "self.complete"]
    ct = node_calls(cfg, "complete_trade")
    good = len(comp) == 1 and len(ct) == 1 and utext(comp[0].ast.value) == "self._is_complete()"
    if good:
        n = ct[0][0]
        gs = {(utext(g.exprs[0]), pol) for g, pol in cfg.guards(n.id)}
        want = {("self.complete", True), ("self.trade.complete", True)}
        viol_ok = ("status != OrderStatus.VIOLATION", True) in gs or ("status == OrderStatus.VIOLATION", False) in gs
        good = want <= gs and viol_ok
        tcn = [x for x in cfg.live_nodes() if x.kind == "cond" and utext(x.exprs[0]) == "self.trade.complete"]
        good = good and bool(tcn) and all(cfg.dominates(comp[0].id, x.id) for x in tcn)
        st = [x for x in cfg.live_nodes() if x.kind == "stmt" and isinstance(x.ast, ast.Assign)
              and utext(x.ast.targets[0]) == "self.status"]
        good = good and len(st) == 1 and cfg.dominates(st[0].id, comp[0].id)
    rep.check(good, "R1", key(us, None, "complete recomputed before trade.complete is consulted; VIOLATION skipped"),
              us, None, "a trade completes exactly when its last order completes")
    tus = prog.own_method("Trade", "_update_status")
    cfg = ctx.cfg(tus)
    ct = node_calls(cfg, "complete_trade")
    good = len(ct) == 1 and [(utext(g.exprs[0]), pol) for g, pol in cfg.guards(ct[0][0].id)] == [("self.complete", True)]
    rep.check(good, "R1", key(tus, None, "trade funnel completes the trade when it has become complete"), tus)
    n_w = 0
    for f, s, t, kind in all_stores(prog, "status"):
        bt = res.type_of(t.value, f)
        if bt is not None and bt.name == "Trade":
            n_w += 1
            rep.check(f.qual in ("Trade.__init__", "Trade._update_status"), "R1",
                      "store to Trade.status in " + key(f, s), f, s)
    rep.floor("R1", "stores to Trade.status", n_w, 2)
    tinit = prog.own_method("Trade", "__init__")
    rep.check(any(utext(s) == "self.status = TradeStatus.LIVE" for s in walk_nodes(tinit.node.body, ast.Assign)),
              "R1", key(tinit, None, "a trade starts LIVE"), tinit)

    # ------------------------------------------------------------------ R2 Trade.complete
    tc = prog.own_method("Trade", "complete")
    cfg = ctx.cfg(tc)
    # two orders per trade distinguish "every order" from "some order"
    table = _truth_table(cfg, ["self.status == TradeStatus.LIVE", "self.pending_orders"], "order.complete", 2)
    ok2 = True
    detail = []
    for (live, pending, oc), outs in sorted(table.items()):
        want = {"True"} if (live and not pending and all(oc)) else {"False"}
        if outs != want:
            ok2 = False
            detail.append("status==LIVE=%s pending_orders=%s order.complete=%s -> %s (want %s)" % (
                live, pending, list(oc), sorted(outs), sorted(want)))
    lps = walk_nodes(tc.node.body, ast.For)
    ok2 = ok2 and len(lps) == 1 and utext(lps[0].iter) == "self.orders"
    rep.check(ok2, "R2", key(tc, None, "complete <=> LIVE and not pending_orders and every order complete"), tc, None,
              "; ".join(detail))
    for f, s, t, kind in all_stores(prog, "pending_orders"):
        pass  # user-facing flag (outside the property by its own statement)
    # Trade.orders only appended by the create_* factories
    for f, c, mut in all_mutator_calls(prog, "orders"):
        bt = res.type_of(c.func.value.value, f) if isinstance(c.func.value, ast.Attribute) else None
        if bt is not None and bt.name == "Trade":
            rep.check(mut == "append" and f.cls is not None and f.cls.name == "Trade"
                      and f.name.startswith("create_"), "R2", "mutation of Trade.orders in " + key(f, c), f, c,
                      "only the create_* factories add orders to a trade; nothing removes them")

    # ------------------------------------------------------------------ R3 charging / freeing
    rc_place = prog.own_method("RunnerContext", "place")
    rc_reset = prog.own_method("RunnerContext", "reset")
    allowed_place = {"Transaction.place_order": "executed placements", "process.create_order_from_current": "adoption"}
    sites = res.call_sites_of(rc_place)
    rep.floor("R3", "call sites of RunnerContext.place", len(sites), 2)
    for cs in sites:
        if not rep.check(cs.func.qual in allowed_place, "R3", "caller of RunnerContext.place: " + key(cs.func, cs.node),
                         cs.func, cs.node, "only executed placements and adoption charge a runner"):
            continue
        cfgf = ctx.cfg(cs.func)
        n = [x for x in cfgf.live_nodes() if cs.node in walk_calls(x.exprs)][0]
        if cs.func.qual == "Transaction.place_order":
            gs = [(utext(g.exprs[0]), pol) for g, pol in cfgf.guards(n.id)]
            rep.check(("execute", True) in gs, "R3", key(cs.func, cs.node, "charged only when the placement is executed"),
                      cs.func, cs.node, "a replacement added with execute=False belongs to an already charged trade")
            rep.check(utext(cs.node.args[0]) == "order.trade.id", "R3", key(cs.func, cs.node, "charged with the trade id"),
                      cs.func, cs.node)
            from sa.kinds import resolve_local
            rv = resolve_local(cs.func, cs.node.func.value)   # the receiver, through the local that may name it
            rep.check(utext(rv) == "order.trade.strategy.get_runner_context(*order.lookup)",
                      "R3", key(cs.func, None, "context of (market, selection, handicap) of the order's strategy"),
                      cs.func, cs.node)
        else:
            rep.check(utext(cs.node.args[0]) == "trade.id", "R3", key(cs.func, cs.node, "adoption charges the new trade"),
                      cs.func, cs.node)
    sites = res.call_sites_of(rc_reset)
    rep.floor("R3", "call sites of RunnerContext.reset", len(sites), 1)
    for cs in sites:
        rep.check(cs.func.qual == "Trade.complete_trade", "R3", "caller of RunnerContext.reset: " + key(cs.func, cs.node),
                  cs.func, cs.node, "a slot is freed only by the completion of its trade")
    ctf = prog.own_method("Trade", "complete_trade")
    sites = res.call_sites_of(ctf)
    rep.floor("R3", "call sites of Trade.complete_trade", len(sites), 2)
    for cs in sites:
        rep.check(cs.func.qual in ("BaseOrder._update_status", "Trade._update_status"), "R3",
                  "caller of Trade.complete_trade: " + key(cs.func, cs.node), cs.func, cs.node,
                  "only the two guarded status funnels complete a trade")
    cfg = ctx.cfg(ctf)
    st = [n for n, c in node_calls(cfg, "_update_status") if utext(c.args[0]) == "TradeStatus.COMPLETE"]
    rs = node_calls(cfg, "reset")
    good = len(st) == 1 and len(rs) == 1 and cfg.unconditional(rs[0][0].id) and utext(rs[0][1].args[0]) == "self.id"
    from sa.kinds import resolve_local as _rl
    rcv = _rl(ctf, rs[0][1].func.value) if rs else None   # the context, directly or through the local naming it
    good = good and rcv is not None and " ".join(utext(rcv).split()) == \
        "self.strategy.get_runner_context(self.market_id, self.selection_id, self.handicap)"
    rep.check(good, "R3", key(ctf, None, "completion marks COMPLETE and frees the slot of (market, selection, handicap)"),
              ctf)
    bo = prog.own_method("BaseOrder", "__init__")
    rep.check(any(" ".join(utext(s).split()) == "self.lookup = (self.market_id, self.selection_id, self.handicap)"
                  for s in walk_nodes(bo.node.body, ast.Assign)), "R3",
              key(bo, None, "order.lookup is (market_id, selection_id, handicap) - the key complete_trade uses"), bo)
    # key agreement: every lookup of a runner context names the full key (market, selection, handicap)
    grc = prog.own_method("BaseStrategy", "get_runner_context")
    n_k = 0
    for cs in res.call_sites_of(grc):
        if cs.func.qual == "BaseStrategy.has_executable_orders":
            continue
        n_k += 1
        c = cs.node
        full = (len(c.args) == 1 and isinstance(c.args[0], ast.Starred) and utext(c.args[0].value).endswith(".lookup")) or \
            (len(c.args) + len(c.keywords) == 3 and (len(c.args) == 3 and "handicap" in utext(c.args[2]) or
                                                      any(k.arg == "handicap" for k in c.keywords)))
        rep.check(full, "R3", key(cs.func, c, "runner context looked up by the full key (market, selection, handicap)"), cs.func, c,
                  "a lookup without the handicap reads the handicap-0 context, which nothing charges or frees: limits and "
                  "cool-downs are not enforced on other handicap lines")
    rep.floor("R3", "runner context lookups", n_k, 4)
    # list discipline
    for attr in ("trades", "live_trades"):
        for f, s, t, kind in all_stores(prog, attr):
            bt = res.type_of(t.value, f)
            if bt is not None and bt.name != "RunnerContext":
                continue
            rep.check(f.qual == "RunnerContext.__init__", "R3", "rebinding of RunnerContext.%s in %s" % (attr, key(f, s)),
                      f, s)
        for f, c, mut in all_mutator_calls(prog, attr):
            r = c.func.value
            bt = res.type_of(r.value, f) if isinstance(r, ast.Attribute) else None
            if bt is not None and bt.name != "RunnerContext":
                continue
            allowed = (f.qual == "RunnerContext.place" and mut == "append") or (
                f.qual == "RunnerContext.reset" and mut == "remove" and attr == "live_trades")
            rep.check(allowed, "R3", "%s() on RunnerContext.%s in %s" % (mut, attr, key(f, c)), f, c)
    cfg = ctx.cfg(rc_place)
    for attr in ("trades", "live_trades"):
        ap = [(n, c) for n, c in node_calls(cfg, "append") if recv_text(c) == "self." + attr]
        good = len(ap) == 1
        if good:
            gs = [(utext(g.exprs[0]), pol) for g, pol in cfg.guards(ap[0][0].id)]
            good = gs in ([("trade_id not in self.%s" % attr, True)], [("trade_id in self.%s" % attr, False)])
        rep.check(good, "R3", key(rc_place, None, "%s: appended once, under an absence test" % attr), rc_place)

    # ------------------------------------------------------------------ R4 with-scope
    n_sites = 0
    funcs = []
    for cname in ("SimulatedExecution", "BetfairExecution", "BetdaqExecution"):
        for hn in ("execute_place", "execute_cancel", "execute_update", "execute_replace"):
            f = prog.cls(cname).methods.get(hn)
            if f is not None:
                funcs.append(f)
    funcs.append(prog.own_method("BaseOrderPackage", "reset_orders"))
    for f in funcs:
        for w_ok, c in _setter_calls_with_scope(f):
            n_sites += 1
            rep.check(w_ok, "R4", key(f, c, "inside `with <order>.trade`"), f, c,
                      "outside the pending scope the trade can complete in the middle of a response")
    rep.floor("R4", "status setter calls in response handlers", n_sites, 15)
    tx = prog.own_method("Trade", "__exit__")
    cfg = ctx.cfg(tx)
    live_calls = [n for n, c in node_calls(cfg, "_update_status") if utext(c.args[0]) == "TradeStatus.LIVE"]
    good = len(live_calls) == 1 and [(utext(g.exprs[0]), pol) for g, pol in cfg.guards(live_calls[0].id)] in (
        [("exc_tb is None", True)], [("exc_type is None", True)], [])
    rep.check(good, "R4", key(tx, None, "__exit__ restores LIVE (and thereby re-evaluates completion)"), tx)
    te = prog.own_method("Trade", "__enter__")
    rep.check([utext(c.args[0]) for c in walk_calls(te.node.body) if call_name(c) == "_update_status"] ==
              ["TradeStatus.PENDING"], "R4", key(te, None, "__enter__ sets PENDING"), te)

    # ------------------------------------------------------------------ R5 validate_order
    vo = prog.own_method("BaseStrategy", "validate_order")
    cfg = ctx.cfg(vo)
    _r5(ctx, rep, vo, cfg)
    se = prog.own_method("StrategyExposure", "_validate")
    cfgs = ctx.cfg(se)
    vcalls = node_calls(cfgs, "validate_order")
    good = len(vcalls) == 1
    if good:
        n, c = vcalls[0]
        gs = [(utext(g.exprs[0]), pol) for g, pol in cfgs.guards(n.id)]
        good = ("package_type == OrderPackageType.PLACE", True) in gs and n.kind == "cond"
        tgt = [m for lab, m in n.succ if lab == "T"]
        is_false = isinstance(n.exprs[0], ast.Compare) and utext(n.exprs[0].comparators[0]) == "False"
        good = good and is_false and bool(tgt) and any(
            call_name(cc) == "_on_error" for x in cfgs.reachable(tgt[0]) for cc in calls_in(cfgs.nodes[x]))
    rep.check(good, "R5", key(se, None, "every placement passes strategy.validate_order, a False refuses it"), se)


def _setter_calls_with_scope(func):
    """[(inside `with <recv>.trade`, call)] for every status setter call on an order in func"""
    out = []

    def visit(stmts, scopes):
        for s in stmts:
            if isinstance(s, ast.With):
                sc = scopes + [utext(i.context_expr) for i in s.items]
                visit(s.body, sc)
                continue
            own = []
            if isinstance(s, (ast.If, ast.While)):
                own = [s.test]
            elif isinstance(s, ast.For):
                own = [s.iter]
            elif isinstance(s, ast.Try):
                own = []
            else:
                own = [s]
            if isinstance(s, (ast.If, ast.While, ast.For, ast.Try)):
                for c in walk_calls(own):
                    _rec(c, scopes)
                for fld in ("body", "orelse", "finalbody"):
                    visit(getattr(s, fld, []) or [], scopes)
                for h in getattr(s, "handlers", []) or []:
                    visit(h.body, scopes)
            else:
                for c in walk_calls(own):
                    _rec(c, scopes)

    def _rec(c, scopes):
        if isinstance(c.func, ast.Attribute) and c.func.attr in SETTERS:
            r = utext(c.func.value)
            if r == "self":
                return
            ok = ("%s.trade" % r) in scopes or (r == "replacement_order" and "order.trade" in scopes)
            out.append((ok, c))

    visit(func.node.body, [])
    return out


def _truth_table(cfg, atoms, loop_atom, n_iter):
    """walk the CFG for every assignment of the atom texts and of `loop_atom` per loop iteration
    (the single for loop is taken n_iter times).  {(atom values..., (loop values...)): returned constants}"""
    out = {}
    for vals in itertools.product([False, True], repeat=len(atoms)):
        for lvals in itertools.product([False, True], repeat=n_iter):
            env = dict(zip(atoms, vals))
            rets = set()
            seen = set()
            todo = [(cfg.entry, 0)]
            while todo:
                nid, it = todo.pop()
                if (nid, it) in seen:
                    continue
                seen.add((nid, it))
                n = cfg.nodes[nid]
                if n.kind == "return":
                    rets.add(utext(n.ast.value) if n.ast.value is not None else "None")
                    continue
                if n.kind == "cond":
                    t = utext(n.exprs[0])
                    v = None
                    if t in env:
                        v = env[t]
                    elif t == loop_atom and 1 <= it <= n_iter:
                        v = lvals[it - 1]
                    if v is not None:
                        todo += [(m, it) for l, m in n.succ if l == ("T" if v else "F")]
                        continue
                if n.kind == "for":
                    if it < n_iter:
                        todo += [(m, it + 1) for l, m in n.succ if l == "iter"]
                    else:
                        todo += [(m, it) for l, m in n.succ if l == "done"]
                    continue
                todo += [(m, it) for l, m in n.succ if l != "exc"]
            if cfg.exit in {x for x, _ in seen} and not rets:
                rets.add("None")
            out[vals + (lvals,)] = rets
    return out


def _r5(ctx, rep, vo, cfg):
    """finite truth table: ordering(count,max) in {<,=,>}, membership, cool-downs"""
    fams = {
        "trade": ("runner_context.trade_count", "self.max_trade_count", "runner_context.trades"),
        "live": ("runner_context.live_trade_count", "self.max_live_trade_count", "runner_context.live_trades"),
    }

    def walk(assign):
        """returns set of returned constants under the abstract assignment"""
        rets = set()
        seen = set()
        todo = [cfg.entry]
        while todo:
            nid = todo.pop()
            if nid in seen:
                continue
            seen.add(nid)
            n = cfg.nodes[nid]
            if n.kind == "return":
                rets.add(utext(n.ast.value) if n.ast.value is not None else "None")
                continue
            if n.kind == "cond":
                v = _eval_atom(n.exprs[0], assign, fams)
                if v is not None:
                    todo += [m for l, m in n.succ if l == ("T" if v else "F")]
                    continue
            todo += [m for l, m in n.succ if l != "exc"]
        return rets

    n_cases = 0
    bad = []
    for dt, in_t, dl, in_l, multi, cool_r, cool_p in itertools.product(
            (-1, 0, 1), (False, True), (-1, 0, 1), (False, True), (False, True), (False, True), (False, True)):
        if in_l and not in_t:
            continue  # a live trade has been placed
        assign = {"trade": (dt, in_t), "live": (dl, in_l), "multi": multi, "cool_reset": cool_r, "cool_place": cool_p}
        got = walk(assign)
        n_cases += 1
        escape = multi and in_l
        refuse = cool_r or cool_p or dt > 0 or (dt == 0 and not in_t) or dl > 0 or (dl == 0 and not in_l)
        want = {"True"} if (escape or not refuse) else {"False"}
        if got != want:
            bad.append("count-max(trades)=%+d in_trades=%s count-max(live)=%+d in_live=%s multi_order=%s "
                       "reset_cooldown=%s place_cooldown=%s -> %s, want %s" % (
                           dt, in_t, dl, in_l, multi, cool_r, cool_p, sorted(got), sorted(want)))
    rep.note("validate_order_truth_table_cases", n_cases)
    rep.check(not bad, "R5", key(vo, None, "refuses exactly when a count limit or a cool-down is violated "
                                            "(%d abstract cases)" % n_cases), vo, None, "; ".join(bad[:4]))
    # cool-down atoms are oriented `elapsed < configured`
    n_cd = 0
    for n in cfg.live_nodes():
        if n.kind == "cond":
            c = canon_compare(n.exprs[0])
            if c and ("elapsed_seconds" in c[0] or "elapsed_seconds" in c[2]):
                n_cd += 1
                o = oriented(c, "reset_elapsed_seconds") or oriented(c, "placed_elapsed_seconds")
                if o is not None:
                    # a threshold that is provably never below the trade's own seconds (the larger of it and some
                    # floor) still refuses everything the trade's seconds refuse
                    base = _never_below(ctx, vo, o[2])
                    if base is not None:
                        o = (o[0], o[1], base)
                good = o is not None and o[1] == "<" and o[2] in ("order.trade.reset_seconds",
                                                                  "order.trade.place_reset_seconds")
                pair = o is not None and ((o[0].startswith("reset_") and o[2].endswith(".reset_seconds")) or
                                          (o[0].startswith("placed_") and o[2].endswith("place_reset_seconds")))
                rep.check(good and pair, "R5", key(vo, n.exprs[0], "cool-down refuses while elapsed < configured seconds"),
                          vo, n.exprs[0])
    rep.floor("R5", "cool-down comparisons", n_cd, 2)
    src = {utext(s.targets[0]): utext(s.value) for s in walk_nodes(vo.node.body, ast.Assign)}
    rep.check(src.get("reset_elapsed_seconds") == "runner_context.reset_elapsed_seconds"
              and src.get("placed_elapsed_seconds") == "runner_context.placed_elapsed_seconds", "R5",
              key(vo, None, "cool-downs read the runner context's own clocks"), vo, None, str(src))
    # ... and those clocks are stamped with the time of the placement / the reset itself (the framework clock at
    # that moment), not with a time carried in from elsewhere (an order's creation time lies arbitrarily far back)
    rc = ctx.prog.cls("RunnerContext")
    stamps = {"place": "self.datetime_last_placed", "reset": "self.datetime_last_reset"}
    for mn_, tgt_ in stamps.items():
        m_ = rc.methods.get(mn_)
        vals = [utext(s_.value) for s_ in walk_nodes(m_.node.body, ast.Assign) if utext(s_.targets[0]) == tgt_] if m_ else []
        rep.check(vals == ["datetime.datetime.utcnow()"], "R5",
                  key(m_, None, "%s is stamped with the current framework time" % tgt_.split(".")[1]), m_, None, str(vals))
    for pn_, tgt_ in (("placed_elapsed_seconds", "self.datetime_last_placed"), ("reset_elapsed_seconds", "self.datetime_last_reset")):
        m_ = rc.methods.get(pn_)
        txt_ = utext(m_.node) if m_ else ""
        rep.check("datetime.datetime.utcnow() - %s" % tgt_ in txt_, "R5",
                  key(m_, None, "%s is measured from that stamp to now" % pn_), m_)


def _eval_atom(e, a, fams):
    t = utext(e)
    if t == "self.multi_order_trades":
        return a["multi"]
    for nm, (cnt, mx, lst) in fams.items():
        d, member = a[nm]
        c = canon_compare(e)
        if c:
            o = oriented(c, cnt)
            if o and o[2] == mx:
                return {"==": d == 0, "!=": d != 0, ">": d > 0, ">=": d >= 0, "<": d < 0, "<=": d <= 0}[o[1]]
            if c[0] == "order.trade.id" and c[2] == lst and c[1] in ("in", "not in"):
                return member if c[1] == "in" else not member
    c = canon_compare(e)
    if c:
        for var, k in (("reset_elapsed_seconds", "cool_reset"), ("placed_elapsed_seconds", "cool_place")):
            o = oriented(c, var)
            if o:
                # elapsed < configured  <=> inside the cool-down
                if o[1] == "<":
                    return a[k]
                if o[1] == ">=":
                    return not a[k]
                if o[1] == "<=":
                    return a[k]
                if o[1] == ">":
                    return not a[k]
    if t == "reset_elapsed_seconds":
        return True if a["cool_reset"] else None
    if t == "placed_elapsed_seconds":
        return True if a["cool_place"] else None
    return None


_ST = "flumine/strategy/strategy.py"
_TR = "flumine/order/trade.py"
MUTANTS = [
    dict(id="c10-drop-trade-complete-test", file="flumine/order/order.py", func="BaseOrder._update_status",
         old="if self.complete and self.trade.complete and status != OrderStatus.VIOLATION:",
         new="if self.complete and status != OrderStatus.VIOLATION:", expect=["R1"],
         why="trade completes while another order is live"),
    dict(id="c10-complete-after-trade-check", file="flumine/order/order.py", func="BaseOrder._update_status",
         old="        self.complete = self._is_complete()\n", new="", expect=["R1"], why="complete flag stale"),
    dict(id="c10-violation-completes-trade", file="flumine/order/order.py", func="BaseOrder._update_status",
         old="if self.complete and self.trade.complete and status != OrderStatus.VIOLATION:",
         new="if self.complete and self.trade.complete:", expect=["R1"], why="a refused order frees a slot never charged"),
    dict(id="c10-trade-complete-ignores-status", file=_TR, func="Trade.complete",
         old="        if self.status != TradeStatus.LIVE:\n            return False\n", new="", expect=["R2"],
         why="trade completes inside its pending scope / twice"),
    dict(id="c10-trade-complete-any-order", file=_TR, func="Trade.complete",
         old="            if not order.complete:\n                return False\n        return True",
         new="            if order.complete:\n                return True\n        return False", expect=["R2"],
         why="trade completes with a live order"),
    dict(id="c10-place-outside-execute", file="flumine/execution/transaction.py", func="Transaction.place_order",
         old="        if execute:  # handles replaceOrder\n            runner_context = order.trade.strategy.get_runner_context(*order.lookup)\n            runner_context.place(order.trade.id)\n",
         new="        runner_context = order.trade.strategy.get_runner_context(*order.lookup)\n        runner_context.place(order.trade.id)\n        if execute:  # handles replaceOrder\n",
         expect=["R3"], why="replacement re-charges the runner after its trade completed"),
    dict(id="c10-reset-from-handler", file="flumine/execution/simulatedexecution.py",
         func="SimulatedExecution.execute_cancel",
         old="                        order.execution_complete()\n",
         new="                        order.execution_complete()\n                        order.trade.strategy.get_runner_context(*order.lookup).reset(order.trade.id)\n",
         expect=["R3"], why="slot freed while the trade may still be live"),
    dict(id="c10-drop-with-trade", file="flumine/order/orderpackage.py", func="BaseOrderPackage.reset_orders",
         old="            with order.trade:\n                if complete:\n                    order.execution_complete()\n                else:\n                    order.executable()",
         new="            if complete:\n                order.execution_complete()\n            else:\n                order.executable()",
         expect=["R4"], why="status change outside the pending scope"),
    dict(id="c10-exit-not-live", file=_TR, func="Trade.__exit__",
         old="            self._update_status(TradeStatus.LIVE)", new="            self.status = TradeStatus.LIVE",
         expect=["R1", "R4"], why="completion not re-evaluated after a response"),
    dict(id="c10-live-count-ge", file=_ST, func="BaseStrategy.validate_order",
         old=") or (runner_context.live_trade_count > self.max_live_trade_count):",
         new=") or (runner_context.live_trade_count > self.max_live_trade_count + 1):", expect=["R5"],
         why="one live trade too many"),
    dict(id="c10-trade-count-drop-eq", file=_ST, func="BaseStrategy.validate_order",
         old="            (runner_context.trade_count == self.max_trade_count)\n            and (order.trade.id not in runner_context.trades)\n        ) or (runner_context.trade_count > self.max_trade_count):",
         new="            runner_context.trade_count > self.max_trade_count\n        ):", expect=["R5"],
         why="max_trade_count exceeded by one"),
    dict(id="c10-cooldown-flipped", file=_ST, func="BaseStrategy.validate_order",
         old="if reset_elapsed_seconds and reset_elapsed_seconds < order.trade.reset_seconds:",
         new="if reset_elapsed_seconds and reset_elapsed_seconds > order.trade.reset_seconds:", expect=["R5"],
         why="cool-down inverted"),
    dict(id="c10-multi-order-escape-any", file=_ST, func="BaseStrategy.validate_order",
         old="            if order.trade.id in runner_context.live_trades:\n                return True",
         new="            return True", expect=["R5"], why="multi_order_trades bypasses every limit"),
    dict(id="c10-place-dup-live", file="flumine/strategy/runnercontext.py", func="RunnerContext.place",
         old="        if trade_id not in self.live_trades:\n            self.live_trades.append(trade_id)",
         new="        self.live_trades.append(trade_id)", expect=["R3"], why="a multi-order trade counted twice"),
    dict(id="c10-reset-key", file=_TR, func="Trade.complete_trade",
         old="self.market_id, self.selection_id, self.handicap\n", new="self.market_id, self.selection_id\n",
         expect=["R3"], why="slot freed on another handicap's context"),
    dict(id="c10-validate-order-replace-too", file="flumine/controls/tradingcontrols.py", func="StrategyExposure._validate",
         old="        if package_type == OrderPackageType.PLACE:\n            # strategy.validate_order",
         new="        if package_type == OrderPackageType.CANCEL:\n            # strategy.validate_order", expect=["R5"],
         why="placements no longer pass validate_order"),
]


def _never_below(ctx, caller, text):
    """`text` is a call `g(.., order.trade.<x>seconds, ..)` of a package function every return of which is that
    parameter itself or a value tested to be greater (or not smaller) than it on the way: returns the
    argument's text, else None"""
    from sa.kinds import guard_pairs, holds
    try:
        e = ast.parse(text, mode="eval").body
    except SyntaxError:
        return None
    if not isinstance(e, ast.Call) or e.keywords:
        return None
    callees, conf = ctx.res.resolve_call(e, caller)
    if len(callees) != 1:
        return None
    g = list(callees)[0]
    params = [p_ for p_ in g.params if p_ not in ("self", "cls")]
    if len(params) != len(e.args):
        return None
    hit = [(p_, utext(a)) for p_, a in zip(params, e.args) if utext(a) in ("order.trade.reset_seconds", "order.trade.place_reset_seconds")]
    if len(hit) != 1:
        return None
    pn, arg = hit[0]
    cfg = ctx.cfg(g)
    rets = [n for n in cfg.live_nodes() if n.kind == "return"]
    if not rets or any(isinstance(x, (ast.Assign, ast.AugAssign)) and pn in utext(x) for x in ast.walk(g.node) if isinstance(x, (ast.Assign, ast.AugAssign))):
        return None
    # the function always returns explicitly
    if cfg.exit in cfg.reachable(cfg.entry, blocked_nodes={n.id for n in rets}):
        return None
    for n in rets:
        v = utext(n.ast.value) if n.ast.value is not None else "None"
        if v == pn:
            continue
        gs = guard_pairs(cfg, n.id)
        if holds(gs, "%s > %s" % (v, pn)) or holds(gs, "%s >= %s" % (v, pn)):
            continue
        return None
    return arg
