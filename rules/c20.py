"""C20 - Market closure is processed once, with results, for the right strategies."""

import ast

from sa import AnalysisError
from sa.kinds import (key, utext, call_name, recv_text, calls_in, node_calls, canon_compare, oriented,
                      loop_body_exits_early, all_stores)
from sa.cfg import walk_calls, walk_nodes
from sa.kinds import resolve_local
from sa.kinds import expanded as _expanded
from sa.astutil import canon_text as ct

EXPLANATION = (
    "Decided part of C20: (R1) _process_close_market, for a book (non-recorder) update of a known market, "
    "executes in this order and unconditionally: close_market() when not yet closed, market(final book), "
    "blotter.process_closed_market(market, book), the strategy loop, in simulation one cleared-orders event "
    "followed by one cleared-market event per client, log_control(event), the removal policy; an unknown "
    "market returns before any effect; (R2) the strategy loop cannot be left early, calls "
    "process_closed_market(market, final book) once per strategy under `stream id subscribed or empty market "
    "filter` and nothing else; (R3) a known market id is re-opened by add_market -> open_market, which resets "
    "closed and both cleared lists; both book loops and the raw-data loop re-open a closed market when data "
    "arrives; the simulation loop does not process a CLOSED book as a normal update; (R4) _remove_market "
    "releases every middleware's and every strategy's state for the market (and the market itself when "
    "clear); live trading removes only markets closed for more than 3600 s, simulation releases the closing "
    "market with clear=False; (R5) Blotter.process_closed_market gives every order of the blotter the status "
    "of its own runner and the market's settlement terms. Not decided: the number of events over repeated "
    "closes in a whole run."
)


class _Missing(Exception):
    pass


def run(ctx, rep):
    try:
        _sequence(ctx, rep)
    except _Missing:
        pass
    _rest(ctx, rep)


def _sequence(ctx, rep):
    prog, res = ctx.prog, ctx.res
    f = prog.own_method("BaseFlumine", "_process_close_market")
    cfg = ctx.cfg(f)

    def one(name, pred=None):
        ns = [(n, c) for n, c in node_calls(cfg, name) if pred is None or pred(c)]
        if len(ns) == 0:
            rep.violation("R1", key(f, None, "closure step present: %s" % name), f, None,
                          "the closure sequence no longer calls %s" % name)
            raise _Missing()
        if len(ns) != 1:
            raise AnalysisError("_process_close_market: expected exactly one call of %s, found %d" % (name, len(ns)))
        rep.ok("R1", key(f, None, "closure step present: %s" % name), f, ns[0][1])
        return ns[0]

    # ------------------------------------------------------------------ R1 sequence
    assume = cfg.assume({"recorder": False, "market is None": False})
    close_n, close_c = one("close_market")
    mk = [n for n in cfg.live_nodes() if any(isinstance(c.func, ast.Name) and c.func.id == "market" for c in calls_in(n))]
    if len(mk) != 1:
        raise AnalysisError("_process_close_market: market(final book) call not found")
    mk = mk[0]
    pcm_n, pcm_c = one("process_closed_market", lambda c: "blotter" in (recv_text(c) or ""))
    sloops = [lp for lp in walk_nodes(f.node.body, ast.For) if utext(lp.iter) == "self.strategies"]
    if len(sloops) != 1:
        raise AnalysisError("_process_close_market: strategy loop not found")
    sl = [n for n in cfg.live_nodes() if n.kind == "for_init" and n.ast is sloops[0]][0]
    log_n, log_c = one("log_control")
    gs = [(utext(g.exprs[0]), pol) for g, pol in cfg.guards(close_n.id)]
    rep.check(sorted(gs) == sorted([("market is None", False), ("market.closed is False", True)]), "R1",
              key(f, None, "the market is marked closed unless it already is"), f, close_c, str(gs))
    for n, what in ((mk, "the market receives the final book"), (pcm_n, "orders receive results and settlement terms")):
        gs = [(utext(g.exprs[0]), pol) for g, pol in cfg.guards(n.id)]
        rep.check(sorted(gs) == sorted([("market is None", False), ("recorder", False)]), "R1",
                  key(f, None, "%s for every book update" % what), f, n.exprs[0], str(gs))
    mkc = [c for c in calls_in(mk) if isinstance(c.func, ast.Name) and c.func.id == "market"][0]
    rep.check(utext(mkc.args[0]) == "market_book" and [utext(a) for a in pcm_c.args] == ["market", "event.event"], "R1",
              key(f, None, "both are given the closing book"), f)
    chain = [(close_n, "close_market"), (mk, "market(book)"), (pcm_n, "blotter.process_closed_market"), (sl, "strategy loop"),
             (log_n, "log_control(event)")]
    for (a, an), (b, bn) in zip(chain[1:], chain[2:]):
        rep.check(cfg.dominates(a.id, b.id, assume), "R1", key(f, None, "%s precedes %s" % (an, bn)), f, b.exprs[0] if b.exprs else None)
    rep.check(mk.id not in cfg.reachable(cfg.entry, [close_n.id], cfg.assume({"market.closed is False": True, "market is None": False, "recorder": False})),
              "R1", key(f, None, "close_market precedes market(book) when the market was open"), f)
    gs = [(utext(g.exprs[0]), pol) for g, pol in cfg.guards(log_n.id)]
    rep.check(gs == [("market is None", False)] and utext(log_c.args[0]) == "event", "R1",
              key(f, None, "the closing event is logged once, unconditionally"), f, log_c, str(gs))
    # unknown market: nothing happens
    none_c = [n for n in cfg.live_nodes() if n.kind == "cond" and utext(n.exprs[0]) == "market is None"]
    good = len(none_c) == 1
    if good:
        t = [m for l, m in none_c[0].succ if l == "T"][0]
        r = cfg.reachable(t)
        good = all(cfg.nodes[x].kind in ("return", "exit") or (cfg.nodes[x].kind == "stmt" and "logger." in cfg.nodes[x].text())
                   for x in r)
    rep.check(good, "R1", key(f, None, "a close for an unknown market has no effect"), f)
    # simulated cleared events
    co_n, co_c = one("_process_cleared_orders")
    cm_n, cm_c = one("_process_cleared_markets")
    gs_o = sorted((utext(g.exprs[0]), pol) for g, pol in cfg.guards(co_n.id))
    want = sorted([("market is None", False), ("recorder", False), ("self.clients.simulated", True)])
    cl = [lp for lp in walk_nodes(f.node.body, ast.For) if utext(lp.iter) == "self.clients"]
    good = gs_o == want and len(cl) == 1 and cm_c in walk_calls(cl[0].body) and co_c not in walk_calls(cl[0].body) \
        and not loop_body_exits_early(cl[0]) and co_c.lineno < cl[0].lineno
    rep.check(good, "R1", key(f, None, "simulation: one cleared-orders event, then one cleared-market event per client"), f,
              co_c, "guards of the cleared-orders event: %s" % gs_o)
    mc = [c for c in walk_calls(cl[0].body) if call_name(c) == "cleared"] if cl else []
    rep.check(len(mc) == 1 and utext(mc[0].args[0]) == utext(cl[0].target) and recv_text(mc[0]) == "market", "R1",
              key(f, None, "each client's summary is computed for that client"), f)
    rep.check(cfg.dominates(sl.id, co_n.id, assume) and cfg.dominates(co_n.id, log_n.id, cfg.assume(
        {"recorder": False, "market is None": False, "self.clients.simulated": True})), "R1",
        key(f, None, "cleared events come after the strategy callbacks and before the log"), f)
    pco = prog.own_method("BaseFlumine", "_process_cleared_orders")
    cfgp = ctx.cfg(pco)
    meta = [(n, c) for n, c in node_calls(cfgp, "log_control")]
    good = len(meta) == 1 and ("meta_orders", True) in [(utext(g.exprs[0]), pol) for g, pol in cfgp.guards(meta[0][0].id)]
    rep.check(good, "R1", key(pco, None, "orders are reported cleared once, when the market has any"), pco)

    # ------------------------------------------------------------------ R2 strategy loop
    lp = sloops[0]
    calls = [c for c in walk_calls(lp.body) if call_name(c) == "process_closed_market"]
    good = len(calls) == 1 and not loop_body_exits_early(lp) and not walk_nodes(lp.body, (ast.Continue, ast.Raise))
    rep.check(good, "R2", key(f, None, "one callback per strategy, the loop cannot be left early"), f, lp)
    if calls:
        c = calls[0]
        n = [x for x in cfg.live_nodes() if c in walk_calls(x.exprs)][0]
        from sa.kinds import sbody
        ifs = [s for s in sbody(lp.body) if isinstance(s, ast.If)]
        cond = utext(ifs[0].test) if len(ifs) == 1 and len(sbody(lp.body)) == 1 else None
        sv = utext(lp.target)
        rep.check(cond == "stream_id in %s.stream_ids or %s.market_filter == {}" % (sv, sv), "R2",
                  key(f, None, "called for subscribed strategies and for strategies with an empty filter"), f, c, str(cond))
        rep.check([utext(a) for a in c.args] == ["market", "event.event"] and recv_text(c) == sv, "R2",
                  key(f, None, "the callback receives the market and the final book"), f, c)
        gsl = [(utext(g.exprs[0]), pol) for g, pol in cfg.guards(sl.id)]
        rep.check(gsl == [("market is None", False)], "R2", key(f, None, "the strategy loop runs for every closing update"), f,
                  None, str(gsl))
    sid = {utext(s.targets[0]): utext(s.value) for s in walk_nodes(f.node.body, ast.Assign) if utext(s.targets[0]) == "stream_id"}
    vals = sorted(utext(s.value) for s in walk_nodes(f.node.body, ast.Assign) if utext(s.targets[0]) == "stream_id")
    rep.check(vals == ["market_book.streaming_unique_id", "market_book['_stream_id']"], "R2",
              key(f, None, "the stream id is the one the closing update arrived on"), f, None, str(vals))



def _rest(ctx, rep):
    prog, res = ctx.prog, ctx.res
    f = prog.own_method("BaseFlumine", "_process_close_market")
    cfg = ctx.cfg(f)
    # ------------------------------------------------------------------ R3 re-open
    am = prog.own_method("Markets", "add_market")
    cfga = ctx.cfg(am)
    om = node_calls(cfga, "open_market")
    good = len(om) == 1 and [(utext(g.exprs[0]), pol) for g, pol in cfga.guards(om[0][0].id)] == [("market_id in self._markets", True)] \
        and _expanded(am, om[0][1].func.value) == "self._markets[market_id]"
    rep.check(good, "R3", key(am, None, "adding a known market id re-opens the stored market"), am)
    opm = prog.own_method("Market", "open_market")
    st = {utext(s.targets[0]): utext(s.value) for s in walk_nodes(opm.node.body, ast.Assign)}
    need_open = {"self.closed": "False", "self.orders_cleared": "[]", "self.market_cleared": "[]"}
    rep.check({k_: v_ for k_, v_ in st.items() if k_ in need_open} == need_open, "R3",
              key(opm, None, "re-opening resets closed and both cleared lists"), opm, None, str(st))
    clm = prog.own_method("Market", "close_market")
    st = {}
    for fn_ in (opm, clm):
        cfgx = ctx.cfg(fn_)
        for n in cfgx.live_nodes():
            if n.kind == "stmt" and isinstance(n.ast, ast.Assign):
                if utext(n.ast.targets[0]) not in ("self.closed", "self.orders_cleared", "self.market_cleared", "self.date_time_closed"):
                    continue   # bookkeeping beside the state the property speaks about
                rep.check(cfgx.unconditional(n.id) and cfgx.all_paths_pass(cfgx.entry, cfgx.exit, [n.id]), "R3",
                          key(fn_, n.ast, "unconditional"), fn_, n.ast,
                          "a conditional reset keeps state of an earlier closure (e.g. the first closing time)")
                if fn_ is clm:
                    st[utext(n.ast.targets[0])] = utext(n.ast.value)
    rep.check(st.get("self.closed") == "True" and st.get("self.date_time_closed") == "datetime.datetime.utcnow()", "R3",
              key(clm, None, "closing sets the flag and the time of THIS closure"), clm, None, str(st))
    for q in ("BaseFlumine._process_market_books", "FlumineSimulation._process_market_books", "BaseFlumine._process_raw_data"):
        cn, mn = q.split(".")
        g = prog.own_method(cn, mn)
        cfgg = ctx.cfg(g)
        re = [(n, c) for n, c in node_calls(cfgg, "add_market") if recv_text(c) == "self.markets"]
        good = len(re) == 1
        if good:
            gs2 = [(utext(x.exprs[0]), pol) for x, pol in cfgg.guards(re[0][0].id)]
            good = ("market.closed", True) in gs2 and [utext(a) for a in re[0][1].args] == ["market_id", "market"]
        rep.check(good, "R3", key(g, None, "a closed market is re-opened when data for it arrives"), g)
    sim = prog.own_method("FlumineSimulation", "_process_market_books")
    cfgs = ctx.cfg(sim)
    cc = node_calls(cfgs, "_process_close_market")
    good = len(cc) == 1
    if good:
        n = cc[0][0]
        gs2 = [(utext(x.exprs[0]), pol) for x, pol in cfgs.guards(n.id)]
        good = ("market_book.status == 'CLOSED'", True) in gs2
        nxt = [cfgs.nodes[m] for l, m in n.succ if l != "exc"]
        good = good and all(x.kind == "stmt" and isinstance(x.ast, ast.Continue) for x in nxt)
        kws = {k.arg: utext(k.value) for k in cc[0][1].keywords}
        good = good and kws.get("event") == "events.CloseMarketEvent(market_book)"
    rep.check(good, "R3", key(sim, None, "a CLOSED book is handed to the closure and not processed as a normal update"), sim)
    live = prog.own_method("BaseFlumine", "_process_market_books")
    cfgl = ctx.cfg(live)
    puts = [(n, c) for n, c in node_calls(cfgl, "put") if "CloseMarketEvent" in utext(c)]
    good = len(puts) == 1 and ("market_book.status == 'CLOSED'", True) in [(utext(x.exprs[0]), pol) for x, pol in cfgl.guards(puts[0][0].id)]
    if good:
        nxt = [cfgl.nodes[m] for l, m in puts[0][0].succ if l != "exc"]
        good = all(x.kind == "stmt" and isinstance(x.ast, ast.Continue) for x in nxt)
    rep.check(good, "R3", key(live, None, "live: a CLOSED book queues exactly one close event and is not processed further"), live)
    # ... and only for a market the framework knows and has open: a market first seen CLOSED is added, a market
    # that was closed before is re-opened (cleared flags reset) before the closure is queued
    look = [n for n in cfgl.live_nodes() if n.kind == "stmt" and isinstance(n.ast, ast.Assign) and utext(n.ast.targets[0]) == "market"
            and utext(n.ast.value) == "self.markets.markets.get(market_id)"]
    adds = [n for n, c in node_calls(cfgl, "_add_market")]
    reopens = [n for n, c in node_calls(cfgl, "add_market") if recv_text(c) == "self.markets"]
    good = len(puts) == 1 and len(look) == 1 and len(adds) == 1 and len(reopens) == 1
    if good:
        pn = puts[0][0]
        unknown = cfgl.assume({"market_is_new": True, "market is None": True})
        closed_before = cfgl.assume({"market_is_new": False, "market is None": False, "market.closed": True})
        good = cfgl.dominates(look[0].id, pn.id) and \
            cfgl.all_paths_pass(look[0].id, pn.id, [adds[0].id], unknown) and \
            cfgl.all_paths_pass(look[0].id, pn.id, [reopens[0].id], closed_before)
    rep.check(good, "R3", key(live, None, "live: the closure is queued for a market that has been added / re-opened first"), live, None,
              "a market first seen CLOSED would be unknown to the closure; a repeated closing update would find the cleared flags still set")
    for attr in ("closed", "orders_cleared", "market_cleared"):
        for fn, s, t, kind in all_stores(prog, attr):
            bt = res.type_of(t.value, fn)
            if bt is not None and bt.name != "Market":
                continue
            rep.check(fn.qual in ("Market.__init__", "Market.open_market", "Market.close_market"), "R3",
                      "Market.%s rebound in %s" % (attr, key(fn, s)), fn, s)

    # ------------------------------------------------------------------ R4 removal
    rm = prog.own_method("BaseFlumine", "_remove_market")
    cfgr = ctx.cfg(rm)
    tab = {}
    for lp2 in walk_nodes(rm.node.body, ast.For):
        calls = [c for c in walk_calls(lp2.body) if call_name(c) == "remove_market"]
        from sa.kinds import sbody
        if len(calls) == 1 and not loop_body_exits_early(lp2) and len(sbody(lp2.body)) == 1:
            tab[utext(lp2.iter)] = utext(calls[0].args[0])
    rep.check(tab == {"self._market_middleware": "market", "self.strategies": "market.market_id"}, "R4",
              key(rm, None, "every middleware and every strategy releases its state for the market"), rm, None, str(tab))
    mr = [(n, c) for n, c in node_calls(cfgr, "remove_market") if recv_text(c) == "self.markets"]
    rep.check(len(mr) == 1 and [(utext(g.exprs[0]), pol) for g, pol in cfgr.guards(mr[0][0].id)] == [("clear", True)], "R4",
              key(rm, None, "the market itself is dropped only when clear"), rm)
    rms = [(n, c) for n, c in node_calls(cfg, "_remove_market")]
    live_rm = [(n, c) for n, c in rms if ("self.clients.simulated", False) in [(utext(g.exprs[0]), pol) for g, pol in cfg.guards(n.id)]]
    sim_rm = [(n, c) for n, c in rms if ("self.clients.simulated", True) in [(utext(g.exprs[0]), pol) for g, pol in cfg.guards(n.id)]]
    good = len(live_rm) == 1 and len(sim_rm) == 1
    if good:
        kw = {k.arg: utext(k.value) for k in sim_rm[0][1].keywords}
        good = kw == {"clear": "False"} and utext(sim_rm[0][1].args[0]) == "market"
    rep.check(good, "R4", key(f, None, "simulation releases the closing market's accounting but keeps the market"), f)
    lcs = [x for x in walk_nodes(f.node.body, ast.ListComp) if utext(x.generators[0].iter) == "self.markets"]
    # the same selection written as a loop: `for m in self.markets: ... closed.append(m)` - the conditions are
    # the guards of the append (locals that name `m.elapsed_seconds_closed` read back)
    loop_form = None
    if not lcs:
        from sa.kinds import expanded
        for lp_ in walk_nodes(f.node.body, ast.For):
            if utext(lp_.iter) == "self.markets" and isinstance(lp_.target, ast.Name):
                apps = [(n_, c_) for n_, c_ in node_calls(cfg, "append") if c_ in walk_calls(lp_.body)
                        and [utext(a) for a in c_.args] == [lp_.target.id] and isinstance(c_.func.value, ast.Name)]
                if len(apps) == 1:
                    gs_ = [(expanded(f, g.exprs[0]), pol) for g, pol in cfg.guards(apps[0][0].id)
                           if lp_.target.id in [x.id for x in ast.walk(g.exprs[0]) if isinstance(x, ast.Name)]
                           or any(isinstance(x, ast.Name) and x.id != "self" for x in ast.walk(g.exprs[0]))]
                    gs_ = [(t_, p_) for t_, p_ in gs_ if "%s." % lp_.target.id in t_]
                    if all(p_ for t_, p_ in gs_):
                        loop_form = (lp_.target.id, [t_ for t_, p_ in gs_], recv_text(apps[0][1]))
    good = len(lcs) == 1 or loop_form is not None
    if good:
        conds = []
        if lcs:
            for c2 in lcs[0].generators[0].ifs:
                conds += [utext(v) for v in c2.values] if isinstance(c2, ast.BoolOp) and isinstance(c2.op, ast.And) else [utext(c2)]
            v = utext(lcs[0].generators[0].target)
        else:
            v, conds = loop_form[0], loop_form[1]
        def at_least_an_hour(txt):
            """the threshold: the literal 3600, or a value that provably is never below it"""
            e = ast.parse(txt, mode="eval").body
            if isinstance(e, ast.Constant):
                return isinstance(e.value, (int, float)) and e.value >= 3600
            e = resolve_local(f, e)
            if isinstance(e, ast.Constant):
                return isinstance(e.value, (int, float)) and e.value >= 3600
            if isinstance(e, ast.Call):
                callees, conf = res.resolve_call(e, f)
                return bool(callees) and all(_returns_at_least(ctx, g_, 3600) for g_ in callees)
            return False
        thr = [oriented(canon_compare(ast.parse(t, mode="eval").body), "%s.elapsed_seconds_closed" % v) for t in conds
               if "elapsed_seconds_closed" in t]
        thr = [x for x in thr if x is not None]
        good = "%s.closed" % v in conds and len(thr) == 1 and thr[0] is not None and thr[0][1] == ">" and at_least_an_hour(thr[0][2])
        lp3 = [x for x in walk_nodes(f.node.body, ast.For) if live_rm and live_rm[0][1] in walk_calls(x.body)]
        d = [s for s in walk_nodes(f.node.body, ast.Assign) if lcs and s.value is lcs[0]]
        if loop_form:
            d = [s for s in walk_nodes(f.node.body, ast.Assign) if utext(s.targets[0]) == loop_form[2] and utext(s.value) in ("[]", "list()")]
            d = d if len(d) == 1 else []
        good = good and len(lp3) == 1 and d and utext(lp3[0].iter) == utext(d[0].targets[0]) and \
            utext(live_rm[0][1].args[0]) == utext(lp3[0].target) and not live_rm[0][1].keywords
    rep.check(good, "R4", key(f, None, "live trading removes only markets closed for more than 3600 seconds"), f)
    esc = prog.own_method("Market", "elapsed_seconds_closed")
    rep.check("self.closed and self.date_time_closed" in utext(esc.node) and
              "(datetime.datetime.utcnow() - self.date_time_closed).total_seconds()" in utext(esc.node), "R4",
              key(esc, None, "time since closure measured from the closing time"), esc)
    from sa.kinds import key_removals
    srm = prog.own_method("BaseStrategy", "remove_market")
    cfgm = ctx.cfg(srm)
    rms = key_removals(srm.node, "self._invested")
    good = len(rms) == 1
    if good:
        node, ktxt = rms[0]
        lps = [lp for lp in walk_nodes(srm.node.body, ast.For) if node in list(ast.walk(lp)) and utext(lp.target) == ktxt]
        good = len(lps) == 1 and not loop_body_exits_early(lps[0]) and not walk_nodes(lps[0].body, (ast.If, ast.Continue))
        if good:
            # the keys removed: exactly those of self._invested whose first component is the market id
            src = resolve_local(srm, lps[0].iter)
            good = isinstance(src, ast.ListComp) and len(src.generators) == 1
            if good:
                g = src.generators[0]
                v = utext(g.target)
                good = utext(src.elt) == v and utext(g.iter) in ("self._invested", "list(self._invested)", "self._invested.keys()") \
                    and [utext(c) for c in g.ifs] == [ct("%s[0] == %s" % (v, srm.params[1]))]
            lpn = [x for x in cfgm.live_nodes() if x.kind == "for_init" and x.ast is lps[0]]
            good = good and len(lpn) == 1 and cfgm.unconditional(lpn[0].id)
    rep.check(good, "R4", key(srm, None, "runner contexts of exactly that market are released"), srm)
    mrm = prog.own_method("SimulatedMiddleware", "remove_market")
    rep.check([k for n_, k in key_removals(mrm.node, "self.markets")] == ["market.market_id"], "R4",
              key(mrm, None, "the simulated middleware drops its analytics for the market"), mrm)
    mk_rm = prog.own_method("Markets", "remove_market")
    cfgk = ctx.cfg(mk_rm)
    rms = key_removals(mk_rm.node, "self._markets")
    good = [k for n_, k in rms] == [mk_rm.params[1]]
    if good:
        nn = [x for x in cfgk.live_nodes() if x.ast is rms[0][0] or rms[0][0] in walk_calls(x.exprs)]
        good = len(nn) == 1 and cfgk.unconditional(nn[0].id)
    rep.check(good, "R4", key(mk_rm, None, "a removed market leaves the registry"), mk_rm)

    # ------------------------------------------------------------------ R5 results for every order
    closed_market_results(ctx, rep, "R5")


def _returns_at_least(ctx, func, bound):
    """every return of func is a numeric literal >= bound, or a name returned only where `name >= bound` holds"""
    from sa.kinds import guard_pairs, holds
    cfgx = ctx.cfg(func)
    rets = [n for n in cfgx.live_nodes() if n.kind == "return"]
    if not rets or cfgx.exit in {m for n in cfgx.live_nodes() if n.kind != "return" for l, m in n.succ if l != "exc"}:
        return False
    for n in rets:
        v = n.ast.value
        if isinstance(v, ast.Constant) and isinstance(v.value, (int, float)) and not isinstance(v.value, bool) and v.value >= bound:
            continue
        if isinstance(v, ast.Name) and holds(guard_pairs(cfgx, n.id), "%s >= %s" % (v.id, bound)):
            continue
        return False
    return True


def closed_market_results(ctx, rep, R):
    """Blotter.process_closed_market (shared with C08-R3)"""
    prog = ctx.prog
    f = prog.own_method("Blotter", "process_closed_market")
    cfg = ctx.cfg(f)
    from sa.kinds import expanded
    own = "(order.selection_id, order.handicap)"
    ol = [lp for lp in walk_nodes(f.node.body, ast.For) if utext(lp.iter) == "self"]
    rl = [lp for lp in walk_nodes(f.node.body, ast.For) if utext(lp.iter) == "market_book.runners"]
    # accepted alternative: the final book indexed once by (selection id, handicap) - every runner under its own
    # full key, duplicates kept in book order - and each order reading the entry of its own key
    index = None
    for lp in rl:
        body = [x for x in lp.body if not isinstance(x, ast.Pass)]
        if len(body) == 1 and isinstance(body[0], ast.Expr) and isinstance(body[0].value, ast.Call) and call_name(body[0].value) == "append" \
                and utext(body[0].value.args[0]) == utext(lp.target) and lp not in [x for o in ol for x in walk_nodes(o.body, ast.For)]:
            r = body[0].value.func.value
            k_ = None
            if isinstance(r, ast.Subscript):
                k_, d_ = r.slice, r.value
            elif isinstance(r, ast.Call) and call_name(r) == "setdefault" and len(r.args) == 2 and utext(r.args[1]) == "[]":
                k_, d_ = r.args[0], r.func.value
            tv = utext(lp.target)
            if k_ is not None and utext(k_) in ("(%s.selection_id, %s.handicap)" % (tv, tv), "%s.selection_id, %s.handicap" % (tv, tv)):
                index = utext(d_)
    inner_idx = [lp for o in ol for lp in walk_nodes(o.body, ast.For)
                 if index and isinstance(lp.iter, (ast.Subscript, ast.Call)) and (
                     (isinstance(lp.iter, ast.Subscript) and utext(lp.iter.value) == index and expanded(f, lp.iter.slice) == own) or
                     (isinstance(lp.iter, ast.Call) and call_name(lp.iter) == "get" and recv_text(lp.iter) == index
                      and expanded(f, lp.iter.args[0]) == own))]
    nested = [lp for lp in rl if ol and lp in walk_nodes(ol[0].body, ast.For)]
    # second accepted alternative: the final book indexed by the full key with ONE runner per key (a later runner
    # of the same key replaces the earlier one - the nested scan also ends on the last match) and each order
    # looking up its own key once: `rv = index.get(own)` with everything below guarded by `rv is not None`
    single = None
    for st in walk_nodes(f.node.body, ast.Assign):
        v = st.value
        if isinstance(v, ast.DictComp) and len(v.generators) == 1 and not v.generators[0].ifs \
                and utext(v.generators[0].iter) == "market_book.runners" and not (ol and st in list(ast.walk(ol[0]))):
            tv = utext(v.generators[0].target)
            if utext(v.key) == "(%s.selection_id, %s.handicap)" % (tv, tv) and utext(v.value) == tv:
                idx1 = utext(st.targets[0])
                for st2 in (walk_nodes(ol[0].body, ast.Assign) if ol else []):
                    v2 = st2.value
                    if isinstance(v2, ast.Call) and call_name(v2) == "get" and recv_text(v2) == idx1 and len(v2.args) == 1 \
                            and expanded(f, v2.args[0]) == own and isinstance(st2.targets[0], ast.Name):
                        single = (idx1, st2.targets[0].id)
    if single and (nested or inner_idx):
        single = None
    good = len(ol) == 1 and not loop_body_exits_early(ol[0]) and (
        (len(nested) == 1 and not loop_body_exits_early(nested[0]) and not inner_idx) or
        (len(inner_idx) == 1 and not loop_body_exits_early(inner_idx[0]) and not nested) or
        (single is not None and len([x for st in walk_nodes(f.node.body, (ast.Assign, ast.AugAssign, ast.AnnAssign, ast.For))
                                     for t in (st.targets if isinstance(st, ast.Assign) else [st.target])
                                     for x in ast.walk(t) if isinstance(x, ast.Name) and x.id == single[1]]) == 1))
    rep.check(good, R, key(f, None, "every order of the blotter is matched against every runner of the final book"), f)
    want = {"order.runner_status": "runner.status", "order.market_type": "market_book.market_definition.market_type",
            "order.each_way_divisor": "market_book.market_definition.each_way_divisor"}
    sel = (ct("(order.selection_id, order.handicap) == (runner.selection_id, runner.handicap)"), True)

    def own_runner_only(gs):
        """the statement runs for the order's own runner and for nothing else"""
        gs = [g for g in gs if g != ("self._orders", True)]
        if single:
            return gs == [("%s is None" % single[1], False)]
        if inner_idx:
            return all(t in ("%s in %s" % (own, index), "%s in %s" % (own.strip("()"), index)) and pol for t, pol in
                       [(expanded(f, ast.parse(t_, mode="eval").body), p_) for t_, p_ in gs])
        return gs == [sel]
    for tgt, val in want.items():
        ns = [n for n in cfg.live_nodes() if n.kind == "stmt" and isinstance(n.ast, ast.Assign) and utext(n.ast.targets[0]) == tgt]
        rname = single[1] if single else (utext(inner_idx[0].target) if inner_idx else None)
        good = len(ns) == 1 and utext(ns[0].ast.value) == (val if not (rname and tgt == "order.runner_status") else
                                                           "%s.status" % rname) and \
            own_runner_only([(utext(g.exprs[0]), pol) for g, pol in cfg.guards(ns[0].id)])
        rep.check(good, R, key(f, None, "%s taken from the order's own runner (selection and handicap), unconditionally" % tgt), f)
    dh = {}
    for n in cfg.live_nodes():
        if n.kind == "stmt" and isinstance(n.ast, ast.Assign) and utext(n.ast.targets[0]) == "order.number_of_dead_heat_winners":
            gs = tuple(sorted((utext(g.exprs[0]), pol) for g, pol in cfg.guards(n.id) if utext(g.exprs[0]) != sel[0]
                              and utext(g.exprs[0]) != "self._orders" and not (index and utext(g.exprs[0]).endswith(" in %s" % index))
                              and not (single and utext(g.exprs[0]) == "%s is None" % single[1])))
            dh[gs] = utext(n.ast.value)
    want_dh = {(("market_book.number_of_winners == 0", True),): "1",
               tuple(sorted([("market_book.number_of_winners == 0", False), (ct("number_of_winners > market_book.number_of_winners"), True)])): "number_of_winners"}
    rep.check(dh == want_dh, R, key(f, None, "dead-heat count: more WINNER runners than the market's number of winners"), f, None, str(dh))
    nw = [s for s in walk_nodes(f.node.body, ast.Assign) if utext(s.targets[0]) == "number_of_winners"]
    from sa.kinds import counted
    cnt = counted(nw[0].value) if len(nw) == 1 else None
    rep.check(cnt is not None and cnt[1] == "market_book.runners" and cnt[2] == ["%s.status == 'WINNER'" % cnt[0]], R,
              key(f, None, "winners are counted from the final book"), f)
    lr = [n for n in cfg.live_nodes() if n.kind == "stmt" and isinstance(n.ast, ast.Assign) and utext(n.ast.targets[0]) == "order.line_range_result"]
    good = len(lr) == 1
    if good:
        gs = [(utext(g.exprs[0]), pol) for g, pol in cfg.guards(lr[0].id)]
        good = ("order.order_type.price_ladder_definition == 'LINE_RANGE'", True) in gs and ("line_range_result", True) in gs
    rep.check(good, R, key(f, None, "line orders receive the line result from the market context"), f)


_BF = "flumine/baseflumine.py"
MUTANTS = [
    dict(id="c20-live-closed-before-lookup", file=_BF, func="BaseFlumine._process_market_books",
         old="            market = self.markets.markets.get(market_id)\n            market_is_new = market is None\n",
         new="            if market_book.status == \"CLOSED\":\n                self.handler_queue.put(events.CloseMarketEvent(market_book))\n                continue\n            market = self.markets.markets.get(market_id)\n            market_is_new = market is None\n",
         expect=["R3"], why="a market first seen CLOSED is never added; a repeated CLOSED update is not re-opened"),
    dict(id="c20-skip-blotter-results", file=_BF, func="BaseFlumine._process_close_market",
         old="            market.blotter.process_closed_market(market, event.event)\n", new="", expect=["R1"], why="orders never get results"),
    dict(id="c20-break-strategy-loop", file=_BF, func="BaseFlumine._process_close_market",
         old="                strategy.process_closed_market(market, event.event)\n", new="                strategy.process_closed_market(market, event.event)\n                break\n",
         expect=["R2"], why="only the first strategy is told"),
    dict(id="c20-drop-empty-filter", file=_BF, func="BaseFlumine._process_close_market",
         old="            if stream_id in strategy.stream_ids or strategy.market_filter == {}:", new="            if stream_id in strategy.stream_ids:",
         expect=["R2"], why="strategies with an empty filter miss closures"),
    dict(id="c20-cleared-orders-per-client", file=_BF, func="BaseFlumine._process_close_market",
         old="            self._process_cleared_orders(events.ClearedOrdersEvent(cleared_orders))\n            for client in self.clients:\n",
         new="            for client in self.clients:\n                self._process_cleared_orders(events.ClearedOrdersEvent(cleared_orders))\n",
         expect=["R1"], why="orders reported cleared once per client"),
    dict(id="c20-open-market-keeps-cleared", file="flumine/markets/market.py", func="Market.open_market",
         old="        self.market_cleared = []\n", new="", expect=["R3"], why="re-opened market never reports cleared again"),
    dict(id="c20-first-closing-time-kept", file="flumine/markets/market.py", func="Market.close_market",
         old="        self.date_time_closed = datetime.datetime.utcnow()\n",
         new="        if self.date_time_closed is None:\n            self.date_time_closed = datetime.datetime.utcnow()\n", expect=["R3"],
         why="a re-closed market is removed at once (closed 'for an hour' since its first closure)"),
    dict(id="c20-remove-without-3600", file=_BF, func="BaseFlumine._process_close_market",
         old="                and m.elapsed_seconds_closed > 3600\n", new="", expect=["R4"], why="live markets dropped at closure"),
    dict(id="c20-skip-strategy-remove", file=_BF, func="BaseFlumine._remove_market",
         old="        for strategy in self.strategies:\n            strategy.remove_market(market.market_id)\n", new="", expect=["R4"],
         why="runner contexts leak across markets"),
    dict(id="c20-callbacks-before-results", file=_BF, func="BaseFlumine._process_close_market",
         old="        if recorder is False:\n            market(market_book)\n            market.blotter.process_closed_market(market, event.event)\n\n        for strategy in self.strategies:\n            if stream_id in strategy.stream_ids or strategy.market_filter == {}:\n                strategy.process_closed_market(market, event.event)\n",
         new="        for strategy in self.strategies:\n            if stream_id in strategy.stream_ids or strategy.market_filter == {}:\n                strategy.process_closed_market(market, event.event)\n        if recorder is False:\n            market(market_book)\n            market.blotter.process_closed_market(market, event.event)\n",
         expect=["R1"], why="strategies see orders without results"),
    dict(id="c20-closed-book-processed", file="flumine/simulation/simulation.py", func="FlumineSimulation._process_market_books",
         old="                self._process_close_market(event=events.CloseMarketEvent(market_book))\n                continue\n",
         new="                self._process_close_market(event=events.CloseMarketEvent(market_book))\n", expect=["R3"],
         why="closed book processed as a normal update"),
    dict(id="c20-no-reopen", file="flumine/simulation/simulation.py", func="FlumineSimulation._process_market_books",
         old="            elif market.closed:\n                self.markets.add_market(market_id, market)\n", new="", expect=["R3"],
         why="data after a close leaves the market closed"),
    dict(id="c20-sim-clears-market", file=_BF, func="BaseFlumine._process_close_market",
         old="            self._remove_market(market, clear=False)", new="            self._remove_market(market)", expect=["R4"],
         why="simulated market dropped before results are read"),
    dict(id="c20-only-live-orders-get-results", file="flumine/markets/blotter.py", func="Blotter.process_closed_market",
         old="        for order in self:\n", new="        for order in self.live_orders:\n", expect=["R5"], why="completed orders have no result"),
    dict(id="c20-result-by-selection-only", file="flumine/markets/blotter.py", func="Blotter.process_closed_market",
         old="                if (order.selection_id, order.handicap) == (\n                    runner.selection_id,\n                    runner.handicap,\n                ):",
         new="                if order.selection_id == runner.selection_id:", expect=["R5"], why="handicap lines get each other's result"),
    dict(id="c20-close-only-when-open-dropped", file=_BF, func="BaseFlumine._process_close_market",
         old="        if market.closed is False:\n            market.close_market()\n", new="", expect=["R1"], why="market never marked closed"),
    dict(id="c20-log-inside-recorder", file=_BF, func="BaseFlumine._process_close_market",
         old="        self.log_control(event)\n        logger.info(\"Market closed\"", new="        if recorder is False:\n            self.log_control(event)\n        logger.info(\"Market closed\"",
         expect=["R1"], why="recorder closures not logged"),
]
