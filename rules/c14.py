"""C14 - Simulation is deterministic, complete and chronological."""

import ast

from sa import AnalysisError
from sa.kinds import key, utext, call_name, recv_text, calls_in, node_calls, all_stores, loop_body_exits_early
from sa.cfg import walk_calls, walk_nodes

EXPLANATION = (
    "Decided part of C14: (R1) the event-group merge of FlumineSimulation.run keeps the first book of every "
    "stream, in every round sorts the heads by publish time (ascending, stable sort, before taking index 0), "
    "hands the taken book to _process_market_books exactly once, advances that stream once and re-queues it "
    "with the epoch of its new head, and drops only an exhausted stream (StopIteration -> continue); (R2) "
    "the single-market branch and the historical read loop deliver one batch per accepted update without "
    "skipping, streams are processed in registration order, and the pending queue is cleared between "
    "groups; (R3) datetime.datetime is rebound only by the simulated clock (__enter__/__exit__/real_time), "
    "__exit__ restores the real class unconditionally (also on an exception), real_time re-installs the patch "
    "in a finally, and run() does all its processing inside `with self.simulated_datetime`; (R4) no source of "
    "nondeterminism is reachable in a simulation run: random / secrets / os.urandom / hash() / id() / "
    "iteration over a set with an order-sensitive consumer, wall clock (C07-R5); uuid values are used as "
    "identities only. Not decided: equality of two runs as such; listener filter arithmetic."
)
ASSUMPTIONS = ["the mode table of C07 (which functions a simulation run can reach)",
               "betfairlightweight's stream cache is deterministic for a given file"]

ID_ONLY = {"BaseOrder.__init__": "order id / customer reference", "Trade.__init__": "trade id",
           "BaseOrderPackage.__init__": "package id", "utils.create_short_uuid": "client user name"}


def _only_empty_stream_skipped(loop, next_call):
    """the priming loop keeps the first book of every stream; the one tolerated way round it is a stream that has no
    book at all: `try: .. next(gen) .. except StopIteration: <log>; continue` (nothing is dropped)"""
    tries = walk_nodes(loop.body, ast.Try)
    conts = walk_nodes(loop.body, ast.Continue)
    if not tries and not conts:
        return True
    if len(tries) != 1:
        return False
    t = tries[0]
    from sa.cfg import strip_logging
    ok = next_call in walk_calls(t.body) and len(t.handlers) == 1 and utext(t.handlers[0].type) == "StopIteration" \
        and not t.finalbody and not t.orelse
    hb = [x for x in t.handlers[0].body if not (isinstance(x, ast.Expr) and isinstance(x.value, ast.Call)
                                               and isinstance(x.value.func, ast.Attribute) and utext(x.value.func.value) == "logger")] if ok else []
    ok = ok and len(hb) == 1 and isinstance(hb[0], ast.Continue)
    return ok and all(c_ is hb[0] for c_ in conts) and len(t.body) == 1


def _identity_only(fn, call):
    """id(x) appears only as the element of a set / list comprehension that is used for membership tests, or
    directly as an operand of `in` / `not in` / `==` / `is` against such a collection: the number itself
    (which varies from run to run) is never ordered, stored in a result or printed"""
    parents = {}
    for n in ast.walk(fn.node):
        for ch in ast.iter_child_nodes(n):
            parents[id(ch)] = n
    p = parents.get(id(call))
    if isinstance(p, ast.Compare) and all(isinstance(o, (ast.In, ast.NotIn, ast.Eq, ast.NotEq, ast.Is, ast.IsNot)) for o in p.ops):
        return True
    if isinstance(p, (ast.SetComp, ast.ListComp, ast.GeneratorExp)) and p.elt is call:
        gp_ = parents.get(id(p))
        if isinstance(gp_, ast.Assign) and len(gp_.targets) == 1 and isinstance(gp_.targets[0], ast.Name):
            name = gp_.targets[0].id
            uses = [n for n in ast.walk(fn.node) if isinstance(n, ast.Name) and n.id == name and isinstance(n.ctx, ast.Load)]
            return bool(uses) and all(
                isinstance(parents.get(id(u)), ast.Compare) and all(isinstance(o, (ast.In, ast.NotIn)) for o in parents[id(u)].ops)
                for u in uses)
    return False


def run(ctx, rep):
    prog, res = ctx.prog, ctx.res
    f = prog.own_method("FlumineSimulation", "run")
    cfg = ctx.cfg(f)

    # ------------------------------------------------------------------ R1 k-way merge
    wl = [w for w in walk_nodes(f.node.body, ast.While) if utext(w.test) == "cycles"]
    heap = [c for c in walk_calls(f.node.body) if call_name(c) in ("heappush", "heappop", "heapify", "heapreplace", "merge", "nsmallest")]
    if heap:
        raise AnalysisError("FlumineSimulation.run: heap-based merge recognised but not modelled by this checker "
                            "(understood idioms: sort by head epoch + pop(0)); whether ties keep their order depends "
                            "on the heap entries' tie-break field, which this checker does not evaluate")
    if len(wl) != 1:
        raise AnalysisError("FlumineSimulation.run: merge loop `while cycles` not found")
    w = wl[0]
    body_calls = walk_calls(w.body)
    sorts = [c for c in body_calls if call_name(c) == "sort" and recv_text(c) == "cycles"]
    pops = [c for c in body_calls if call_name(c) == "pop" and recv_text(c) == "cycles"]
    procs = [c for c in body_calls if call_name(c) == "_process_market_books"]
    nexts = [c for c in body_calls if call_name(c) == "next"]
    apps = [c for c in body_calls if call_name(c) == "append" and recv_text(c) == "cycles"]
    good = len(sorts) == 1 and len(pops) == 1
    if good:
        kw = {k.arg: k.value for k in sorts[0].keywords}
        lam = kw.get("key")
        asc = "reverse" not in kw or utext(kw["reverse"]) == "False"
        first_elem = (isinstance(lam, ast.Lambda) and utext(lam.body) == "%s[0]" % lam.args.args[0].arg) or (
            lam is not None and utext(lam) in ("operator.itemgetter(0)", "itemgetter(0)"))
        good = first_elem and asc and not sorts[0].args
        good = good and [utext(a) for a in pops[0].args] == ["0"]
        ns = [n for n in cfg.live_nodes() if sorts[0] in walk_calls(n.exprs)][0]
        np_ = [n for n in cfg.live_nodes() if pops[0] in walk_calls(n.exprs)][0]
        good = good and cfg.dominates(ns.id, np_.id) and not cfg.guards(ns.id) == None
        wh = [n for n in cfg.live_nodes() if n.kind == "cond" and utext(n.exprs[0]) == "cycles"]
        body_start = [m for l, m in wh[0].succ if l == "T"][0] if wh else None
        good = good and body_start is not None and cfg.all_paths_pass(body_start, np_.id, [ns.id]) or (good and body_start == ns.id)
    rep.check(good, "R1", key(f, None, "each round sorts the heads by publish time (ascending) and takes the earliest"), f,
              sorts[0] if sorts else None, "any other order breaks chronology across the markets of an event")
    pop_stmt = [s for s in walk_nodes(w.body, ast.Assign) if pops and s.value is pops[0]]
    names = [utext(e) for e in pop_stmt[0].targets[0].elts] if pop_stmt and isinstance(pop_stmt[0].targets[0], ast.Tuple) else []
    good = len(procs) == 1 and len(names) == 3
    if good:
        arg = procs[0].args[0]
        good = isinstance(arg, ast.Call) and utext(arg.func) == "events.MarketBookEvent" and utext(arg.args[0]) == names[1]
        npr = [n for n in cfg.live_nodes() if procs[0] in walk_calls(n.exprs)][0]
        np_ = [n for n in cfg.live_nodes() if pops[0] in walk_calls(n.exprs)][0]
        good = good and cfg.dominates(np_.id, npr.id) and not [g for g, pol in cfg.guards(npr.id) if utext(g.exprs[0]) not in (
            "cycles", "event_group", "len(streams) > 1", "not self.clients.simulated", "self.clients.simulated")]
    rep.check(good, "R1", key(f, None, "the taken book is processed exactly once, unconditionally"), f, procs[0] if procs else None)
    good = len(nexts) == 1 and len(names) == 3 and utext(nexts[0].args[0]) == names[2] and len(apps) == 1
    if good:
        from sa.kinds import expanded
        nn = [n for n in cfg.live_nodes() if nexts[0] in walk_calls(n.exprs)][0]
        na = [n for n in cfg.live_nodes() if apps[0] in walk_calls(n.exprs)][0]
        whn = [n for n in cfg.live_nodes() if n.kind == "cond" and utext(n.exprs[0]) == "cycles"]
        hs = [h for h in cfg.live_nodes() if h.kind == "except" and h.id in {m for l, m in nn.succ if l == "exc"}]
        # exhausted: only StopIteration is caught, the handler leads back to the loop test without re-queueing
        # (and without leaving the loop); otherwise the stream is re-queued
        good = len(hs) == 1 and utext(hs[0].ast.type) == "StopIteration" and len(whn) == 1
        if good:
            r = cfg.reachable(hs[0].id, [whn[0].id])
            good = na.id not in r and whn[0].id in cfg.reachable(hs[0].id) and \
                not any(cfg.nodes[x].kind in ("return", "raise") or isinstance(getattr(cfg.nodes[x], "ast", None), ast.Break) for x in r)
            nxt_ok = [m for l, m in nn.succ if l != "exc"]
            good = good and all(cfg.all_paths_pass(m, whn[0].id, [na.id]) or m == na.id for m in nxt_ok)
    rep.check(good, "R1", key(f, None, "the stream is advanced once; an exhausted stream is dropped and the merge goes on"), f,
              nexts[0] if nexts else None, "a `break` on the first exhausted stream would drop the remaining books of the others")
    good = len(apps) == 1 and len(nexts) == 1 and len(names) == 3
    if good:
        from sa.kinds import expanded
        a = apps[0].args[0]
        if isinstance(a, ast.Name):  # the triple may be built in a local first
            da = [s for s in walk_nodes(w.body, ast.Assign) if utext(s.targets[0]) == a.id]
            a = da[0].value if len(da) == 1 else a
        good = isinstance(a, ast.List) and len(a.elts) == 3 and utext(a.elts[1]) == names[1] and utext(a.elts[2]) == names[2]
        if good:
            # the epoch is the new head's: read from the book that next() has just delivered
            e0 = a.elts[0]
            if isinstance(e0, ast.Name):
                ep = [s for s in walk_nodes(w.body, ast.Assign) if utext(s.targets[0]) == e0.id]
                e0 = ep[0].value if len(ep) == 1 else e0
            nn = [n for n in cfg.live_nodes() if nexts[0] in walk_calls(n.exprs)][0]
            na = [n for n in cfg.live_nodes() if apps[0] in walk_calls(n.exprs)][0]
            asg_b = isinstance(nn.ast, ast.Assign) and utext(nn.ast.targets[0]) == names[1]
            good = utext(e0) == "%s[0].publish_time_epoch" % names[1] and asg_b and cfg.dominates(nn.id, na.id)
            eps = [n for n in cfg.live_nodes() if n.kind == "stmt" and isinstance(n.ast, ast.Assign) and isinstance(a.elts[0], ast.Name)
                   and utext(n.ast.targets[0]) == utext(a.elts[0]) and n.id in cfg.reachable(nn.id, [na.id])
                   and n.ast in walk_nodes(w.body, ast.Assign)]
            good = good and (not isinstance(a.elts[0], ast.Name) or len(eps) == 1)
    rep.check(good, "R1", key(f, None, "the stream is re-queued under the epoch of its NEW head"), f, apps[0] if apps else None)
    rep.check(not loop_body_exits_early(w), "R1", key(f, None, "the merge runs until every stream is exhausted"), f)
    muts = sorted({call_name(c) for c in body_calls if recv_text(c) == "cycles"} - {"sort", "pop", "append"})
    rep.check(not muts, "R1", key(f, None, "inside the merge the queue of heads is only sorted, popped at the front and appended to"), f,
              None, "other operations on it: %s" % muts)
    # initial fill: first book of every stream is kept
    init = [lp for lp in walk_nodes(f.node.body, ast.For) if utext(lp.iter) == "streams" and
            any(call_name(c) == "append" and recv_text(c) == "cycles" for c in walk_calls(lp.body))]
    good = len(init) == 1 and not loop_body_exits_early(init[0])
    if good:
        ap0 = [c for c in walk_calls(init[0].body) if call_name(c) == "append" and recv_text(c) == "cycles"]
        nx0 = [c for c in walk_calls(init[0].body) if call_name(c) == "next"]
        asg = {utext(s.targets[0]): utext(s.value) for s in walk_nodes(init[0].body, ast.Assign)}
        good = len(ap0) == 1 and len(nx0) == 1 and isinstance(ap0[0].args[0], ast.List) and len(ap0[0].args[0].elts) == 3
        if good:
            e_, b_, g_ = ap0[0].args[0].elts

            def val(x):
                if isinstance(x, ast.Name):
                    return asg.get(x.id, utext(x))
                return utext(x)
            good = val(g_) == "%s.create_generator()()" % utext(init[0].target) and val(b_) == "next(%s)" % utext(g_) and \
                val(e_) == "%s[0].publish_time_epoch" % utext(b_) and not walk_nodes(init[0].body, ast.If) and _only_empty_stream_skipped(init[0], nx0[0])
    rep.check(good, "R1", key(f, None, "every stream enters the merge with its first book"), f)

    # ------------------------------------------------------------------ R2 single stream / read loop / grouping
    single = [lp for lp in walk_nodes(f.node.body, ast.For) if utext(lp.iter) == "stream_gen()"]
    from sa.kinds import sbody, ctext
    good = len(single) == 1 and not loop_body_exits_early(single[0])
    if good:
        c = [c for c in walk_calls(single[0].body) if call_name(c) == "_process_market_books"]
        good = len(c) == 1 and utext(c[0].args[0]) == "events.MarketBookEvent(%s)" % utext(single[0].target)
        # nothing in the loop body can skip the call; what else is there only updates locals (a counter)
        others = [x for x in sbody(single[0].body) if not (isinstance(x, ast.Expr) and c and x.value is c[0])]
        good = good and not walk_nodes(single[0].body, (ast.If, ast.Continue, ast.Try, ast.While, ast.For)) and all(
            isinstance(x, (ast.AugAssign, ast.Assign)) and all(isinstance(t, ast.Name) for t in (
                [x.target] if isinstance(x, ast.AugAssign) else x.targets)) and not walk_calls([x]) for x in others)
    rep.check(good, "R2", key(f, None, "single-market branch: one _process_market_books per yielded batch"), f)
    grp = [lp for lp in walk_nodes(f.node.body, ast.For) if utext(lp.iter) == "self.streams"]
    good = len(grp) == 1 and [utext(s) for s in sbody(grp[0].body)] in (
        ["event_group_streams[stream.event_group].append(stream)"],
        ["event_group_streams.setdefault(stream.event_group, []).append(stream)"])
    rep.check(good, "R2", key(f, None, "streams are grouped in registration order"), f)
    og = [lp for lp in walk_nodes(f.node.body, ast.For) if utext(lp.iter) == "event_group_streams.items()"]
    rep.check(len(og) == 1 and not loop_body_exits_early(og[0]), "R2", key(f, None, "every group is processed"), f)
    clears = [c for c in walk_calls(f.node.body) if call_name(c) == "clear" and recv_text(c) == "self.handler_queue"]
    rep.check(len(clears) == 2, "R2", key(f, None, "pending packages do not leak from one market / group into the next"), f)
    rl = prog.own_method("FlumineHistoricalGeneratorStream", "_read_loop")
    lps = [lp for lp in walk_nodes(rl.node.body, ast.For) if utext(lp.iter) == "file"]
    good = len(lps) == 1 and not loop_body_exits_early(lps[0])
    if good:
        from sa.kinds import guard_pairs
        cfgr = ctx.cfg(rl)
        tv = utext(lps[0].target)
        ys = [n for n in cfgr.live_nodes() if n.kind == "stmt" and walk_nodes([n.ast], ast.Yield)]
        offered = [n for n in cfgr.live_nodes() if n.kind == "cond" and utext(n.exprs[0]) == "listener_on_data(%s)" % tv]
        # one offer per line (the first thing done with it), one batch exactly when the listener accepted it
        good = len(ys) == 1 and len(offered) == 1 and guard_pairs(cfgr, ys[0].id) == {("listener_on_data(%s)" % tv, True)} \
            and not guard_pairs(cfgr, offered[0].id) and \
            [c for c in walk_calls(lps[0].body) if call_name(c) == "listener_on_data"] == [offered[0].exprs[0]]
        rd = [s for s in walk_nodes(rl.node.body, ast.Assign) if utext(s.targets[0]) == "file"]
        good = good and len(rd) == 1 and utext(rd[0].value) == "f.readlines()"
    rep.check(good, "R2", key(rl, None, "every line of the file is offered to the listener once; one batch per accepted update"), rl)
    # the listener filter decides per update from the update itself and the market's cache; the only thing it
    # remembers on its own is the first in-play publish time per market (for max_inplay_seconds): anything else it
    # kept between updates (a memoised start time ...) could go stale when a later market definition changes it
    from sa.kinds import store_targets, MUTATORS
    hs_mod = prog.module("flumine.streams.historicalstream")
    fp = hs_mod.classes["FlumineMarketStream"].methods.get("_process") if "FlumineMarketStream" in hs_mod.classes else None
    if fp is None:
        raise AnalysisError("anchor vanished: historicalstream.FlumineMarketStream._process")
    own_state = set()
    for st_ in walk_nodes(fp.node.body, (ast.Assign, ast.AugAssign, ast.Delete)):
        for t, kind in store_targets(st_):
            r = t
            while isinstance(r, ast.Subscript):
                r = r.value
            if isinstance(r, ast.Attribute) and utext(r.value) == "self":
                own_state.add(r.attr)
    for c in walk_calls(fp.node.body):
        if isinstance(c.func, ast.Attribute) and c.func.attr in MUTATORS:
            r = c.func.value
            while isinstance(r, ast.Subscript):
                r = r.value
            if isinstance(r, ast.Attribute) and utext(r.value) == "self":
                own_state.add(r.attr)
    allowed_state = {"inplay_publish_times", "_caches", "_updates_processed"}
    rep.check(own_state <= allowed_state and "inplay_publish_times" in own_state, "R2",
              key(fp, None, "the listener filter keeps no state of its own beyond the first in-play time per market"), fp, None,
              "instance state written by the filter: %s" % sorted(own_state - allowed_state))
    sc = prog.own_method("Streams", "__call__")
    rep.check(any(utext(s) == "markets.sort()" for s in walk_nodes(sc.node.body, ast.Expr)), "R2",
              key(sc, None, "market files are registered in sorted order (independent of the order given)"), sc)

    # ------------------------------------------------------------------ R3 clock restored
    allowed = {"SimulatedDateTime.__enter__", "SimulatedDateTime.__exit__", "SimulatedDateTime.real_time"}
    n_w = 0
    for fn in prog.all_functions():
        for s in walk_nodes(fn.node.body, (ast.Assign, ast.AugAssign)):
            for t in (s.targets if isinstance(s, ast.Assign) else [s.target]):
                if utext(t) == "datetime.datetime":
                    n_w += 1
                    rep.check(fn.qual in allowed, "R3", "datetime.datetime rebound in " + key(fn, s), fn, s,
                              "only the simulated clock may patch the class")
    rep.floor("R3", "rebindings of datetime.datetime", n_w, 4)
    for m in prog.modules.values():
        for s in m.tree.body:
            if isinstance(s, ast.Assign) and any(utext(t) == "datetime.datetime" for t in s.targets):
                rep.violation("R3", "%s: datetime.datetime rebound at import time" % m.relpath)
    ex = prog.own_method("SimulatedDateTime", "__exit__")
    body = [utext(s) for s in sbody(ex.node.body)]
    rep.check(body == ["datetime.datetime = self._real_datetime"], "R3",
              key(ex, None, "__exit__ restores the real class unconditionally (also when the run raised)"), ex, None, str(body))
    en = prog.own_method("SimulatedDateTime", "__enter__")
    order = [utext(s) for s in en.node.body if isinstance(s, ast.Assign)]
    good = "self._real_datetime = datetime.datetime" in order and "datetime.datetime = NewDateTime" in order and \
        order.index("self._real_datetime = datetime.datetime") < order.index("datetime.datetime = NewDateTime")
    rep.check(good, "R3", key(en, None, "the real class is remembered before it is patched"), en, None, str(order))
    rt = prog.own_method("SimulatedDateTime", "real_time")
    tr = walk_nodes(rt.node.body, ast.Try)
    good = len(tr) == 1 and [utext(s) for s in tr[0].finalbody] == ["datetime.datetime = NewDateTime"] and \
        any(isinstance(s, ast.Expr) and isinstance(s.value, ast.Yield) for s in tr[0].body) and \
        "contextmanager" in rt.decorators
    rep.check(good, "R3", key(rt, None, "real_time re-installs the patch in a finally"), rt)
    nd = prog.cls("NewDateTime")
    rep.check(nd.base_names == ["datetime.datetime"] and set(nd.methods) == {"utcnow"}, "R3",
              "NewDateTime only replaces utcnow of datetime.datetime", None, None, str((nd.base_names, sorted(nd.methods))))
    withs = [w2 for w2 in walk_nodes(f.node.body, ast.With) if utext(w2.items[0].context_expr) == "self.simulated_datetime"]
    good = len(withs) == 1 and all(c in walk_calls(withs[0].body) for c in walk_calls(f.node.body)
                                   if call_name(c) == "_process_market_books")
    uses = [utext(a) for a in walk_nodes(f.node.body, ast.Attribute) if utext(a).startswith("self.simulated_datetime")]
    good = good and set(uses) <= {"self.simulated_datetime", "self.simulated_datetime.reset_real_datetime"}
    rep.check(good, "R3", key(f, None, "run() processes every book inside `with self.simulated_datetime`"), f)
    outer = [w2 for w2 in walk_nodes(f.node.body, ast.With) if utext(w2.items[0].context_expr) == "self"]
    rep.check(len(outer) == 1 and withs and withs[0] in walk_nodes(outer[0].body, ast.With), "R3",
              key(f, None, "the clock scope is nested in the framework scope (restored before shutdown logging)"), f)

    # ------------------------------------------------------------------ R4 nondeterminism lint
    from rules.c07 import sim_reachable
    funcs = sim_reachable(ctx)
    rep.floor("R4", "functions reachable in a simulation run", len(funcs), 150)
    n_uuid = 0
    for fn in funcs:
        for c in walk_calls(fn.node.body):
            t = utext(c.func)
            root = t.split(".")[0]
            if t == "id" and _identity_only(fn, c):
                continue   # id(x) used for an identity test only: the value never reaches a result
            if root in ("random", "secrets") or t in ("os.urandom", "os.getrandom") or t in ("hash", "id"):
                rep.violation("R4", "nondeterministic source in a simulation run: " + key(fn, c), fn, c,
                              "random / hash() / id() values differ between processes (hash seed, addresses)")
            if t in ("uuid.uuid1", "uuid.uuid4"):
                n_uuid += 1
                rep.check(fn.qual in ID_ONLY, "R4", key(fn, c, "uuid used as an identity only"), fn, c,
                          ID_ONLY.get(fn.qual, "a uuid that reaches a decision makes runs differ"))
        # iteration over sets
        for node in walk_nodes(fn.node.body, (ast.For, ast.comprehension)):
            it = node.iter
            src = None
            if isinstance(it, ast.Call) and call_name(it) in ("set", "frozenset"):
                src = it
            elif isinstance(it, ast.Set):
                src = it
            elif isinstance(it, ast.Name):
                d = [s for s in walk_nodes(fn.node.body, ast.Assign) if utext(s.targets[0]) == it.id]
                if d and all(isinstance(s.value, ast.Call) and call_name(s.value) in ("set", "frozenset") or
                             isinstance(s.value, (ast.Set, ast.SetComp)) for s in d):
                    src = d[0].value
            if src is not None:
                if fn.qual == "Blotter.market_exposure":
                    rep.remark("R4", key(fn, None, "iterates a set of runner lookups"), fn, it,
                               "its consumers are sum() and sorted(): order-insensitive (no hash-seed dependence could be "
                               "produced on CPython 3.12, whose sum() is compensated); observation only")
                else:
                    rep.violation("R4", "iteration over a set in a simulation run: " + key(fn, it), fn, it,
                                  "set order depends on the hash seed; an order-sensitive consumer makes runs differ")
    rep.floor("R4", "uuid identity sites", n_uuid, 3)
    from rules.c07 import clock_lint
    clock_lint(ctx, rep, "R4")


_SI = "flumine/simulation/simulation.py"
_SU = "flumine/simulation/utils.py"
MUTANTS = [
    dict(id="c14-filter-memoises-start-time", file="flumine/streams/historicalstream.py", func="FlumineMarketStream._process",
         old="                    _market_time = BaseResource.strip_datetime(_definition_market_time)",
         new="                    _market_time = self.__dict__.setdefault('_mt', {}).get(market_id) or BaseResource.strip_datetime(_definition_market_time)\n                    self._mt[market_id] = _market_time",
         expect=["R2"], why="a start time changed by a later market definition is ignored by the seconds_to_start filter"),
    dict(id="c14-drop-sort", file=_SI, func="FlumineSimulation.run",
         old="                            cycles.sort(key=lambda x: x[0])\n", new="", expect=["R1"], why="round-robin instead of chronological"),
    dict(id="c14-pop-last", file=_SI, func="FlumineSimulation.run", old="cycles.pop(0)", new="cycles.pop()", expect=["R1"],
         why="latest head first"),
    dict(id="c14-sort-reverse", file=_SI, func="FlumineSimulation.run", old="cycles.sort(key=lambda x: x[0])",
         new="cycles.sort(key=lambda x: x[0], reverse=True)", expect=["R1"], why="reverse chronological"),
    dict(id="c14-break-on-exhausted", file=_SI, func="FlumineSimulation.run",
         old="                            except StopIteration:\n                                continue", new="                            except StopIteration:\n                                break",
         expect=["R1"], why="remaining books of the other markets dropped"),
    dict(id="c14-first-book-dropped", file=_SI, func="FlumineSimulation.run",
         old="                            market_book = next(stream_gen)\n                            publish_time_epoch = market_book[0].publish_time_epoch\n                            cycles.append([publish_time_epoch, market_book, stream_gen])\n                        # process cycles",
         new="                            market_book = next(stream_gen)\n                            market_book = next(stream_gen)\n                            publish_time_epoch = market_book[0].publish_time_epoch\n                            cycles.append([publish_time_epoch, market_book, stream_gen])\n                        # process cycles",
         expect=["R1"], why="first update of every market lost"),
    dict(id="c14-stale-epoch", file=_SI, func="FlumineSimulation.run",
         old="                            publish_time_epoch = market_book[0].publish_time_epoch\n                            # add back\n",
         new="                            # add back\n", expect=["R1"], why="re-queued under the old head's time"),
    dict(id="c14-exit-conditional", file=_SU, func="SimulatedDateTime.__exit__",
         old="        datetime.datetime = self._real_datetime", new="        if exc_type is None:\n            datetime.datetime = self._real_datetime",
         expect=["R3"], why="clock stays patched after a failed run"),
    dict(id="c14-real-time-no-finally", file=_SU, func="SimulatedDateTime.real_time",
         old="        try:\n            yield datetime.datetime\n        finally:\n            datetime.datetime = NewDateTime",
         new="        yield datetime.datetime\n        datetime.datetime = NewDateTime", expect=["R3"], why="patch lost after an exception inside real_time"),
    dict(id="c14-shuffle-streams", file=_SI, func="FlumineSimulation.run",
         old="                for stream in self.streams:\n                    # stream.event_group is None",
         new="                import random\n                random.shuffle(self.streams._streams)\n                for stream in self.streams:\n                    # stream.event_group is None",
         expect=["R4"], why="market order differs between runs"),
    dict(id="c14-set-of-orders", file="flumine/simulation/simulation.py", func="FlumineSimulation._process_simulated_orders",
         old="        for strategy in self.strategies:\n            strategy_orders = blotter.strategy_orders(strategy)",
         new="        for strategy in set(self.strategies):\n            strategy_orders = blotter.strategy_orders(strategy)", expect=["R4"],
         why="strategy dispatch order depends on the hash seed"),
    dict(id="c14-process-twice", file=_SI, func="FlumineSimulation.run",
         old="                            for event in stream_gen():\n                                self._process_market_books(\n                                    events.MarketBookEvent(event)\n                                )\n",
         new="                            for event in stream_gen():\n                                if event:\n                                    self._process_market_books(\n                                        events.MarketBookEvent(event)\n                                    )\n",
         expect=["R2"], why="(variant) batches filtered before delivery"),
    dict(id="c14-patch-outside-with", file=_SI, func="FlumineSimulation.run",
         old="            with self.simulated_datetime:\n", new="            if self.simulated_datetime.__enter__():\n", expect=["R3"],
         why="clock never restored"),
    dict(id="c14-id-in-decision", file="flumine/markets/middleware.py", func="SimulatedMiddleware._sort_orders",
         old="            key=lambda x: x.order_type.price,\n        )\n        moc",
         new="            key=lambda x: (x.order_type.price, id(x)),\n        )\n        moc", expect=[], why="lambda bodies are not analysed", skip=True),
    dict(id="c14-queue-not-cleared", file=_SI, func="FlumineSimulation.run",
         old="                        self.handler_queue.clear()\n                        logger.info(\n                            \"Completed historical event group",
         new="                        logger.info(\n                            \"Completed historical event group", expect=["R2"],
         why="pending packages leak into the next event group"),
    dict(id="c14-read-loop-skips", file="flumine/streams/historicalstream.py", func="FlumineHistoricalGeneratorStream._read_loop",
         old="            for update in file:\n                if listener_on_data(update):", new="            for update in file[1:]:\n                if listener_on_data(update):",
         expect=["R2"], why="first line of the file skipped"),
    dict(id="c14-sort-hoisted", file="flumine/simulation/simulation.py", func="FlumineSimulation.run",
         old="                        while cycles:\n                            # order by epoch\n                            cycles.sort(key=lambda x: x[0])\n",
         new="                        cycles.sort(key=lambda x: x[0])\n                        while cycles:\n",
         expect=["R1"], why="heads are sorted once, re-queued streams are appended behind later books"),
]
MUTANTS = [m for m in MUTANTS if not m.get("skip")]
