"""C11 - Order-stream reconciliation (adoption, lookup and status mapping)."""

import ast
import itertools

from sa import AnalysisError
from sa.kinds import (key, utext, call_name, recv_text, calls_in, node_calls, get_effects, loop_body_exits_early)
from sa.cfg import walk_calls, walk_nodes
from sa.astutil import canon_text as ct

EXPLANATION = (
    "Decided part of C11 (the adoption / lookup sentence and the status mapping; not convergence): (R1) key "
    "agreement - an update is looked up by (market id, reference[H+1:]) and an adopted order is stored under "
    "exactly that id in the blotter of that market; (R2) adoption is reached only on a lookup miss, and for an "
    "unknown strategy it returns before any state change (effect summaries); (R3) adoption creates the trade "
    "on (market, selection, handicap, strategy) of the update, inserts into the blotter, charges the "
    "strategy's runner context for the order's lookup and sets PENDING, in this order, on every path; the "
    "bet id is on the order before the insert; (R4) process_current_order stores the exchange object first, "
    "and - decided over the finite domain local status x bet id known x stream status - maps exactly "
    "(PENDING with bet id, EXECUTABLE) -> executable, (PENDING with bet id | EXECUTABLE, complete/expired) -> "
    "execution_complete and nothing else; a complete order leaves the live list under a membership test; a "
    "bet id comes from the stream only for async placements (C03-R5); an update whose bet id differs from "
    "the order's is routed through the bet-id index (replacement orders) or dropped; (R5) reconciliation "
    "runs before strategy.process_orders in the same event, for every strategy with orders in an open market; "
    "(R6) a Market object is created only on a registry miss for its id. "
    "Not decided: convergence under all interleavings, restart equivalence of exposure."
)


def run(ctx, rep):
    prog, res = ctx.prog, ctx.res
    eff = get_effects(ctx)
    pco = prog.func("process.process_current_orders")
    cof = prog.func("process.create_order_from_current")
    pc = prog.func("process.process_current_order")

    # ------------------------------------------------------------------ R1 key agreement
    d = {utext(s.targets[0]): utext(s.value) for s in walk_nodes(pco.node.body, ast.Assign)}
    gets = [c for c in walk_calls(pco.node.body) if call_name(c) == "get_order"]
    from sa.kinds import resolve_local
    ID_PART = "current_order.customer_order_ref[STRATEGY_NAME_HASH_LENGTH + 1:]"
    good = len(gets) == 1
    if good:
        kw = {k.arg: utext(resolve_local(pco, k.value)) for k in gets[0].keywords}
        good = kw == {"market_id": "current_order.market_id", "order_id": ID_PART}
    rep.check(good, "R1", key(pco, None, "lookup by (market id of the update, id part of the reference)"), pco)
    dc = {utext(s.targets[0]): utext(s.value) for s in walk_nodes(cof.node.body, ast.Assign)}
    tcx = [c for c in walk_calls(cof.node.body) if call_name(c) == "create_order_from_current"]
    same = bool(tcx) and len(tcx[0].args) == 3 and utext(resolve_local(cof, tcx[0].args[2])) == ID_PART
    rep.check(same, "R1", key(cof, None, "adoption derives the same id"), cof)
    tc = [c for c in walk_calls(cof.node.body) if call_name(c) == "create_order_from_current"]
    rep.check(len(tc) == 1 and [utext(a) for a in tc[0].args][:2] == ["client", "current_order"], "R1",
              key(cof, None, "the id is handed to the order factory"), cof)
    tf = prog.own_method("Trade", "create_order_from_current")
    rep.check(any(utext(s) == "order.id = %s" % tf.params[3] for s in walk_nodes(tf.node.body, ast.Assign)), "R1",
              key(tf, None, "the adopted order carries that id"), tf)
    ins = [s for s in walk_nodes(cof.node.body, ast.Assign) if utext(s.targets[0]) == "market.blotter[order.id]"]
    rep.check(len(ins) == 1 and utext(ins[0].value) == "order", "R1", key(cof, None, "stored under order.id"), cof)
    mk = [s for s in walk_nodes(cof.node.body, ast.Assign) if utext(s.targets[0]) == "market"]
    vals = sorted(utext(s.value) for s in mk)
    rep.check(vals == ["add_market(current_order.market_id, market_book=None)", "markets.markets.get(current_order.market_id)"],
              "R1", key(cof, None, "in the market the update names (created when unknown)"), cof, None, str(vals))
    go = prog.own_method("Markets", "get_order")
    rep.check("self.markets[market_id].blotter[order_id]" in utext(go.node), "R1",
              key(go, None, "lookups read the same blotter index"), go)

    # ------------------------------------------------------------------ R2 adoption only on a miss; unknown strategy = no effect
    cfg = ctx.cfg(pco)
    ac = node_calls(cfg, "create_order_from_current")
    good = len(ac) == 1
    if good:
        gs = [(utext(g.exprs[0]), pol) for g, pol in cfg.guards(ac[0][0].id)]
        good = ("order is None", True) in gs
        dd = [s for s in walk_nodes(pco.node.body, ast.Assign) if utext(s.targets[0]) == "order" and s.value is gets[0]]
        good = good and len(dd) == 1
    rep.check(good, "R2", key(pco, None, "adoption only when the lookup missed"), pco, ac[0][1] if ac else None,
              "adopting a known order duplicates it in every view")
    css = res.call_sites_of(cof)
    rep.check([cs.func.qual for cs in css] == ["process.process_current_orders"], "R2",
              "create_order_from_current is called only by the stream processor", None, None, str([cs.func.qual for cs in css]))
    cfgc = ctx.cfg(cof)
    sn = [n for n in cfgc.live_nodes() if n.kind == "cond" and utext(n.exprs[0]) == "strategy is None"]
    if len(sn) != 1:
        raise AnalysisError("create_order_from_current: unknown-strategy test not found")
    t_succ = [m for l, m in sn[0].succ if l == "T"][0]
    unk = cfgc.reachable(t_succ)
    dirty = [cfgc.nodes[x] for x in unk if eff.node_effects(cof, cfgc.nodes[x])]
    rets = [cfgc.nodes[x] for x in unk if cfgc.nodes[x].kind == "return"]
    rep.check(not dirty and len(rets) == 1 and rets[0].ast.value is None, "R2",
              key(cof, None, "an update for an unknown strategy returns None without any state change"), cof, None,
              "; ".join(x.text(60) for x in dirty))
    n_eff = 0
    for n in cfgc.live_nodes():
        e = eff.node_effects(cof, n)
        param_fn = any(isinstance(c.func, ast.Name) and c.func.id in cof.params for c in calls_in(n))
        if e or param_fn:
            n_eff += 1
            rep.check(n.id not in cfgc.reachable(cfgc.entry, (), {(sn[0].id, "F")}), "R2",
                      key(cof, n.exprs[0], "state changes only once the strategy is known"), cof, n.exprs[0])
    rep.floor("R2", "state-changing statements of the adoption path", n_eff, 4)
    st = [s for s in walk_nodes(cof.node.body, ast.Assign) if utext(s.targets[0]) == "strategy"]
    rep.check(len(st) == 1 and utext(st[0].value) == "strategies.hashes.get(strategy_name_hash)", "R2",
              key(cof, None, "the strategy is resolved from the hash part of the reference"), cof)
    nxt = [n for n in cfg.live_nodes() if n.kind == "cond" and utext(n.exprs[0]) == "order is None"
           and ac and cfg.dominates(ac[0][0].id, n.id)]
    good = len(nxt) == 1 and all(cfg.nodes[m].kind == "stmt" and isinstance(cfg.nodes[m].ast, ast.Continue)
                                 for l, m in nxt[0].succ if l == "T")
    rep.check(good, "R2", key(pco, None, "an ignored update is skipped entirely"), pco)

    # ------------------------------------------------------------------ R3 adoption sequence
    tr = [s for s in walk_nodes(cof.node.body, ast.Assign) if utext(s.targets[0]) == "trade"]
    rep.check(len(tr) == 1 and " ".join(utext(tr[0].value).split()) ==
              "Trade(market.market_id, current_order.selection_id, current_order.handicap, strategy)", "R3",
              key(cof, None, "the adopted trade is on the update's market, selection and handicap and on the resolved strategy"), cof)
    seq = []
    for what, pred in (("insert", lambda n: n.kind == "stmt" and isinstance(n.ast, ast.Assign) and utext(n.ast.targets[0]) == "market.blotter[order.id]"),
                       ("charge", lambda n: any(call_name(c) == "place" and recv_text(c) == "runner_context" for c in calls_in(n))),
                       ("pending", lambda n: any(call_name(c) == "placing" and recv_text(c) == "order" for c in calls_in(n)))):
        ns = [n for n in cfgc.live_nodes() if pred(n)]
        if len(ns) != 1:
            rep.violation("R3", key(cof, None, "adoption step present: %s" % what), cof, None, "found %d" % len(ns))
            seq = None
            break
        seq.append(ns[0])
    if seq:
        blocked = {(sn[0].id, "T")}
        for a, b, txt in ((seq[0], seq[1], "blotter insert before the runner is charged"), (seq[1], seq[2], "runner charged before PENDING")):
            rep.check(cfgc.dominates(a.id, b.id), "R3", key(cof, None, txt), cof)
        # every path that hands an order back went through the three steps (paths that give up - unknown
        # strategy, unusable reference - return None and touch nothing, which R2 checks)
        handed = [x for x in cfgc.live_nodes() if x.kind == "return" and x.ast.value is not None
                  and not (isinstance(x.ast.value, ast.Constant) and x.ast.value.value is None)]
        rep.check(bool(handed) and all(cfgc.all_paths_pass(cfgc.entry, h.id, [x.id]) for x in seq for h in handed) and
                  all(cfgc.all_paths_pass(cfgc.entry, cfgc.exit, [x.id] + [r.id for r in cfgc.live_nodes() if r.kind == "return"]) for x in seq), "R3",
                  key(cof, None, "every adopted order is inserted, charged and set PENDING"), cof)
        rc = [s for s in walk_nodes(cof.node.body, ast.Assign) if utext(s.targets[0]) == "runner_context"]
        pc_ = [c for c in calls_in(seq[1], "place")][0]
        rep.check(len(rc) == 1 and utext(rc[0].value) == "strategy.get_runner_context(*order.lookup)" and utext(pc_.args[0]) == "trade.id",
                  "R3", key(cof, None, "the strategy's context for the order's (market, selection, handicap) is charged with the trade"), cof)
    rep.check(any(utext(s) == "order.bet_id = current_order.bet_id" for s in walk_nodes(tf.node.body, ast.Assign)), "R3",
              key(tf, None, "the exchange bet id is on the order before it enters the blotter"), tf)
    rep.check(any(utext(s) == "self.orders.append(order)" for s in walk_nodes(tf.node.body, ast.Expr)) and
              any(utext(s) == "order.update_client(client)" for s in walk_nodes(tf.node.body, ast.Expr)), "R3",
              key(tf, None, "the adopted order belongs to its trade and client"), tf)

    # ------------------------------------------------------------------ R4 status mapping
    cfgp = ctx.cfg(pc)
    uc = node_calls(cfgp, "update_current_order")
    good = len(uc) == 1 and cfgp.unconditional(uc[0][0].id) and all(
        cfgp.dominates(uc[0][0].id, n.id) for n in cfgp.live_nodes() if n.kind == "cond")
    rep.check(good, "R4", key(pc, None, "the exchange object is stored before anything is decided"), pc)
    uco = prog.own_method("BaseOrder", "update_current_order")
    cfgu = ctx.cfg(uco)
    st = [n for n in cfgu.live_nodes() if n.kind == "stmt" and isinstance(n.ast, ast.Assign)
          and utext(n.ast.targets[0]) == "self.responses.current_order" and utext(n.ast.value) == uco.params[1]]
    rep.check(len(st) == 1 and cfgu.unconditional(st[0].id), "R4",
              key(uco, None, "every snapshot delivered for the order replaces the stored one, whatever the order's state"), uco,
              None, "sizes and average price are read from the stored snapshot: one that is dropped leaves stale figures for good")
    for sc in prog.cls("BaseOrder").all_subclasses():
        rep.check("update_current_order" not in sc.methods, "R4", "%s does not override update_current_order" % sc.name)
    setters = {"executable": [n.id for n, c in node_calls(cfgp, "executable")],
               "execution_complete": [n.id for n, c in node_calls(cfgp, "execution_complete")]}
    from rules.c05 import reach_under
    bad = []
    n_cases = 0
    locals_ = ["PENDING", "EXECUTABLE", "CANCELLING", "UPDATING", "REPLACING", "EXECUTION_COMPLETE", "VIOLATION"]
    for ls, has_bet, ss in itertools.product(locals_, (True, False), ("PENDING", "EXECUTABLE", "EXECUTION_COMPLETE", "EXPIRED")):
        def ev(e, ls=ls, has_bet=has_bet, ss=ss):
            t = utext(e)
            if t == "order.bet_id":
                return has_bet
            if t == "order.bet_id is None":
                return not has_bet
            if t == "order.async_":
                return False
            if t.startswith("order.status == OrderStatus."):
                return t.endswith("." + ls)
            if t.startswith("order.current_order.status == "):
                return t.endswith("'%s'" % ss)
            if isinstance(e, ast.Compare) and utext(e.left) == "order.current_order.status" and isinstance(e.ops[0], ast.In):
                return ss in [x.value for x in e.comparators[0].elts if isinstance(x, ast.Constant)]
            return None
        n_cases += 1
        got = {k for k, ids in setters.items() if reach_under(cfgp, cfgp.entry, set(ids), ev)}
        want = set()
        if ls == "PENDING" and has_bet and ss == "EXECUTABLE":
            want = {"executable"}
        elif ls == "PENDING" and has_bet and ss in ("EXECUTION_COMPLETE", "EXPIRED"):
            want = {"execution_complete"}
        elif ls == "EXECUTABLE" and ss in ("EXECUTION_COMPLETE", "EXPIRED"):
            want = {"execution_complete"}
        if got != want:
            bad.append("local %s%s, stream %s -> %s, expected %s" % (ls, "" if has_bet else " (no bet id)", ss, sorted(got), sorted(want)))
    rep.note("status_mapping_cases", n_cases)
    rep.check(not bad, "R4", key(pc, None, "status mapping over local status x bet id x stream status (%d cases)" % n_cases), pc,
              None, "; ".join(bad[:4]))
    # the bet id of an async placement is picked up BEFORE the status mapping: the mapping of a PENDING order is
    # conditional on the bet id, so a pick-up after it skips the mapping in the very call that delivers the id (an
    # order that is already complete at the exchange then stays PENDING until another update arrives - if one does)
    st_conds = [n for n in cfgp.live_nodes() if n.kind == "cond" and utext(n.exprs[0]).startswith("order.status == OrderStatus.")]
    id_stores = [n for n in cfgp.live_nodes() if n.kind == "stmt" and isinstance(n.ast, ast.Assign)
                 and "order.bet_id" in [utext(t) for t in n.ast.targets]]
    late = [n for n in id_stores if any(n.id in cfgp.reachable(c_.id, include_src=False) for c_ in st_conds)]
    rep.check(bool(id_stores) and not late, "R4", key(pc, None, "the async bet id is picked up before the status mapping"), pc,
              late[0].ast if late else None)
    from rules.c03 import bet_id_writers
    bet_id_writers(ctx, rep, "R4")
    # every exchange update is applied to the order looked up FOR THAT UPDATE: on every way through one iteration
    # of the batch loop the variable handed to the per-order step is bound inside that iteration (a binding carried
    # over from the previous update applies an unknown reference's message to the previous update's order)
    for fq, step in (("process.process_current_orders", "process_current_order"),
                     ("process.process_betdaq_current_orders", "process_betdaq_current_order")):
        bf_ = prog.func(fq)
        cfgb_ = ctx.cfg(bf_)
        for un, uc in node_calls(cfgb_, step):
            var = utext(uc.args[0]) if uc.args else None
            loops_ = [lp for lp in walk_nodes(bf_.node.body, ast.For) if uc in walk_calls(lp.body)]
            good_ = bool(loops_) and var is not None
            if good_:
                outer_ = loops_[0]
                hd_ = [m for m in cfgb_.live_nodes() if m.kind == "for" and m.ast is outer_][0]
                st_ = [m for l, m in hd_.succ if l == "iter"][0]
                binds_ = {m.id for m in cfgb_.live_nodes() if m.kind == "stmt" and isinstance(m.ast, ast.Assign)
                          and var in [utext(t) for t in m.ast.targets] and m.ast in list(ast.walk(outer_))}
                good_ = bool(binds_) and (st_ in binds_ or cfgb_.all_paths_pass(st_, un.id, binds_, blocked_nodes={hd_.id}))
            rep.check(good_, "R4", key(bf_, uc, "the order updated is the one looked up for this update"), bf_, uc)
    pcall = node_calls(cfg, "process_current_order")
    comp = node_calls(cfg, "complete_order")
    good = len(pcall) == 1 and len(comp) == 1 and cfg.dominates(pcall[0][0].id, comp[0][0].id)
    if good:
        from sa.kinds import expanded
        own = "markets.markets[order.market_id].blotter"
        gs = [(expanded(pco, g.exprs[0]), pol) for g, pol in cfg.guards(comp[0][0].id)]
        # the blotter is the one of the order's own market, however it is named on the way
        from sa.kinds import absence_tolerated
        good = ("order.complete", True) in gs and (("order in %s.live_orders" % own, True) in gs or
                                                   ("order in %s._live_orders" % own, True) in gs or
                                                   absence_tolerated(pco, comp[0][1])) and \
            expanded(pco, comp[0][1].func.value) == own and [utext(a) for a in comp[0][1].args] == ["order"]
    rep.check(good, "R4", key(pco, None, "a complete order leaves the live list of its own market, once"), pco)
    from sa.kinds import guard_pairs, gp
    rl = [n for n in cfg.live_nodes() if n.kind == "stmt" and isinstance(n.ast, ast.Assign) and utext(n.ast.targets[0]) == "order"
          and call_name(n.ast.value) == "get_order_from_bet_id"]
    good = len(rl) == 1 and bool(pcall) and \
        {k.arg: utext(k.value) for k in rl[0].ast.value.keywords} == {"market_id": "current_order.market_id", "bet_id": "current_order.bet_id"}
    if good:
        gs = guard_pairs(cfg, rl[0].id)
        differs = {"order.bet_id": True, "order.bet_id == current_order.bet_id": False}
        # looked up exactly when the order has a bet id and it is not the update's; then nothing reaches the
        # status mapping with the order found by reference
        good = gp("order.bet_id") in gs and gp("order.bet_id != current_order.bet_id") in gs and \
            cfg.all_paths_pass(cfg.entry, pcall[0][0].id, [rl[0].id], cfg.assume(differs))
        others = {t for t, pol in gs} - {"order.bet_id", gp("order.bet_id == current_order.bet_id")[0], "order is None"}
        good = good and not [t for t in others if "bet_id" in t]
    rep.check(good, "R4", key(pco, None, "an update for another bet id of the same reference is routed through the bet-id index"), pco,
              None, "a replace keeps the customer reference and issues a new bet id")

    # ------------------------------------------------------------------ R6 one Market object per id
    # a Market is created only when the registry lookup for that id missed: a second object for a known
    # id is not registered (Markets.add_market keeps the first) and carries an empty blotter, so adopted
    # orders vanish from what the strategies and controls see
    n6 = 0
    adders = [prog.own_method("BaseFlumine", "_add_market")]
    for fn in prog.all_functions():
        cfgx = None
        for c in walk_calls(fn.node.body):
            nm = call_name(c)
            is_add = (nm == "_add_market" and isinstance(c.func, ast.Attribute)) or (
                isinstance(c.func, ast.Name) and c.func.id == "add_market" and "add_market" in fn.params)
            if not is_add:
                continue
            n6 += 1
            cfgx = cfgx or ctx.cfg(fn)
            node = [x for x in cfgx.live_nodes() if c in walk_calls(x.exprs)][0]
            miss = False
            for g, pol in cfgx.guards(node.id):
                t = utext(g.exprs[0])
                if isinstance(g.exprs[0], ast.Name):
                    d = [s for s in walk_nodes(fn.node.body, ast.Assign) if utext(s.targets[0]) == t]
                    if len(d) == 1:
                        t = utext(d[0].value)
                if pol and t == "market is None":
                    dm = [s for s in walk_nodes(fn.node.body, ast.Assign) if utext(s.targets[0]) == "market"
                          and isinstance(s.value, ast.Call) and call_name(s.value) == "get"]
                    miss = bool(dm)
            rep.check(miss, "R6", key(fn, c, "a Market is created only when the registry has none for that id"), fn, c,
                      "creating a second Market for a registered id hands the strategies an object with an empty blotter")
    rep.floor("R6", "market creation sites", n6, 3)

    # ------------------------------------------------------------------ R5 reconcile, then strategies
    f = prog.own_method("BaseFlumine", "_process_current_orders")
    cfgf = ctx.cfg(f)
    rec = node_calls(cfgf, "process_current_orders")
    disp = node_calls(cfgf, "call_process_orders_error_handling")
    good = len(rec) == 1 and len(disp) == 1
    if good:
        blocked = cfgf.assume({"event.event": True, "event.exchange == ExchangeType.BETFAIR": True})
        good = cfgf.all_paths_pass(cfgf.entry, disp[0][0].id, [rec[0][0].id], blocked)
        args = [utext(a) for a in rec[0][1].args]
        good = good and args == ["self.markets", "self.strategies", "event", "self.log_control", "self._add_market"]
    rep.check(good, "R5", key(f, None, "the snapshot is reconciled before the strategies see their orders"), f)
    if disp:
        gs = [(utext(g.exprs[0]), pol) for g, pol in cfgf.guards(disp[0][0].id)]
        rep.check(gs == [("market.closed is False", True), ("market.blotter.active", True), ("strategy_orders", True)] or
                  sorted(gs) == sorted([("market.closed is False", True), ("market.blotter.active", True), ("strategy_orders", True)]),
                  "R5", key(f, None, "every strategy with orders in an open market is called"), f, None, str(gs))
    for lp in walk_nodes(f.node.body, ast.For):
        rep.check(not loop_body_exits_early(lp), "R5", key(f, lp.iter, "loop cannot be left early"), f, lp)
    ev = [c for c in walk_calls(pco.node.body) if False]
    outer = [lp for lp in walk_nodes(pco.node.body, ast.For)]
    rep.check(len(outer) == 2 and utext(outer[0].iter) == "event.event" and utext(outer[1].iter) == "current_orders.orders"
              and not any(walk_nodes(lp.body, (ast.Break, ast.Return)) for lp in outer), "R5",
              key(pco, None, "every order of every snapshot in the event is processed"), pco)


_P = "flumine/order/process.py"
MUTANTS = [
    dict(id="c11-async-pickup-after-mapping", file="flumine/order/process.py", func="process_current_order",
         old="    # pickup async orders\n    if order.async_ and order.bet_id is None and current_order.bet_id:\n        order.responses.placed()\n        order.bet_id = current_order.bet_id\n        log_control(OrderEvent(order, exchange=order.EXCHANGE))\n    # update status\n",
         new="    # update status\n", expect=["R4"], why="(variant) the bet id of an async placement is never picked up"),
    dict(id="c11-second-market-object", file="flumine/baseflumine.py", func="BaseFlumine._process_market_books",
         old="            market_is_new = market is None\n", new="            market_is_new = market is None or market.market_book is None\n",
         expect=["R6"], why="a market adopted from the order stream is replaced by a fresh object with an empty blotter"),
    dict(id="c11-adopt-without-miss", file=_P, func="process_current_orders",
         old="            if order is None:\n                logger.warning(", new="            if order is None or not order.bet_id:\n                logger.warning(",
         expect=["R2"], why="known orders adopted again"),
    dict(id="c11-write-before-unknown-strategy-return", file=_P, func="create_order_from_current",
         old="    # get strategy\n    strategy = strategies.hashes.get(strategy_name_hash)\n",
         new="    # get strategy\n    strategy = strategies.hashes.get(strategy_name_hash)\n    if markets.markets.get(current_order.market_id) is None:\n        add_market(current_order.market_id, market_book=None)\n",
         expect=["R2"], why="an update for an unknown strategy creates a market"),
    dict(id="c11-slice-without-separator", file=_P, func="process_current_orders",
         old="customer_order_ref[STRATEGY_NAME_HASH_LENGTH + 1 :]", new="customer_order_ref[STRATEGY_NAME_HASH_LENGTH:]", expect=["R1"],
         why="lookups never hit"),
    dict(id="c11-drop-update-current-order", file=_P, func="process_current_order",
         old="    order.update_current_order(current_order)\n", new="", expect=["R4"], why="sizes never refreshed"),
    dict(id="c11-executable-maps-to-complete", file=_P, func="process_current_order",
         old="        if order.current_order.status == \"EXECUTABLE\":\n            order.executable()",
         new="        if order.current_order.status == \"EXECUTABLE\":\n            order.execution_complete()", expect=["R4"],
         why="resting orders completed"),
    dict(id="c11-adopted-not-charged", file=_P, func="create_order_from_current",
         old="    runner_context = strategy.get_runner_context(*order.lookup)\n    runner_context.place(trade.id)\n", new="", expect=["R3"],
         why="adopted orders not counted as live trades"),
    dict(id="c11-adopted-wrong-market", file=_P, func="create_order_from_current",
         old="        market.market_id, current_order.selection_id, current_order.handicap, strategy",
         new="        market.market_id, current_order.selection_id, 0, strategy", expect=["R3"], why="handicap lost on adoption"),
    dict(id="c11-strategies-before-reconcile", file="flumine/baseflumine.py", func="BaseFlumine._process_current_orders",
         old="        # update state\n        if event.event:\n            if event.exchange == ExchangeType.BETFAIR:\n                process_current_orders(\n                    self.markets,\n                    self.strategies,\n                    event,\n                    self.log_control,\n                    self._add_market,\n                )\n",
         new="        # update state\n        if event.event:\n            if event.exchange == ExchangeType.BETDAQ:\n                process_current_orders(\n                    self.markets,\n                    self.strategies,\n                    event,\n                    self.log_control,\n                    self._add_market,\n                )\n",
         expect=["R5"], why="Betfair snapshots never reconciled"),
    dict(id="c11-complete-without-membership", file=_P, func="process_current_orders",
         old="                if order in market.blotter.live_orders:\n                    market.blotter.complete_order(order)",
         new="                market.blotter.complete_order(order)", expect=["R4"], why="second completion raises ValueError and aborts the snapshot"),
    dict(id="c11-replace-not-routed", file=_P, func="process_current_orders",
         old="            if (\n                order.bet_id and order.bet_id != current_order.bet_id\n            ):  # replaceOrder handling (hacky)",
         new="            if False:  # replaceOrder handling (hacky)", expect=["R4"], why="updates of the replacement applied to the replaced order"),
    dict(id="c11-expired-ignored", file=_P, func="process_current_order",
         old="    elif order.status == OrderStatus.EXECUTABLE:\n        if order.current_order.status in [\"EXECUTION_COMPLETE\", \"EXPIRED\"]:",
         new="    elif order.status == OrderStatus.EXECUTABLE:\n        if order.current_order.status in [\"EXECUTION_COMPLETE\"]:", expect=["R4"],
         why="expired orders stay live"),
    dict(id="c11-insert-after-pending", file=_P, func="create_order_from_current",
         old="    market.blotter[order.id] = order\n    runner_context = strategy.get_runner_context(*order.lookup)\n    runner_context.place(trade.id)\n    order.placing()\n",
         new="    order.placing()\n    runner_context = strategy.get_runner_context(*order.lookup)\n    runner_context.place(trade.id)\n    market.blotter[order.id] = order\n",
         expect=["R3"], why="order visible as PENDING before it is in the blotter"),
    dict(id="c11-snapshot-dropped-when-complete", file="flumine/order/order.py", func="BaseOrder.update_current_order",
         old="        self.responses.current_order = current_order",
         new="        if self.complete and self.responses.current_order is not None:\n            return\n        self.responses.current_order = current_order",
         expect=["R4"], why="the final snapshot of a completed order is dropped"),
]
