"""C19 - Order references are unique, valid and round-trip."""

import ast
import datetime
import string

from sa import AnalysisError
from sa.kinds import key, utext, call_name, recv_text, all_stores
from sa.cfg import walk_calls, walk_nodes

EXPLANATION = (
    "Decided part of C19: (R1) writer/reader agreement of the reference format: the writer is "
    "'%s%s%s' % (name_hash, sep, id); every reader slices [:H] for the strategy and [H+1:] for the order id with "
    "the same constant H = STRATEGY_NAME_HASH_LENGTH that the writer's hash is truncated to; the hash is a "
    "sha1 hexdigest prefix (40 >= H, so exactly H characters) over the lossless utf-8 encoding of the name; no reader "
    "searches for a separator character; the separator validator admits length 1 only, "
    "which is what H+1 assumes; Strategies.hashes is keyed by that hash; (R2) length: H + 1 + digits(id) <= 32 "
    "where id = str(uuid.uuid1().time), whose number of digits the checker computes for all dates from 1900 "
    "to 4750; (R3) charset: [0-9a-f], digits and the separator set are inside the documented Betfair set, and "
    "the literal set equals the documented one; (R4) sep is assigned only through the validating setter, which "
    "raises for invalid values; replacement orders inherit sep; adoption keeps the parsed id; (R5) the id is "
    "drawn from uuid1 (the machine clock), not from the patched framework clock which stands still inside "
    "one simulated update. Not decided: uniqueness (a run-time property of uuid1), two strategies with the same name."
)

DOCUMENTED = set("-._+*:;~") | set(string.ascii_letters) | set(string.digits)


def run(ctx, rep):
    prog, res = ctx.prog, ctx.res
    H = prog.const_value("flumine.utils", "STRATEGY_NAME_HASH_LENGTH")
    rep.check(isinstance(H, int) and H > 0, "R1", "STRATEGY_NAME_HASH_LENGTH is a positive integer literal", None, None, str(H))

    # ------------------------------------------------------------------ R1 writer
    w = prog.own_method("BaseOrder", "customer_order_ref")
    r = [x for x in walk_nodes(w.node.body, ast.Return)]
    good = len(r) == 1 and isinstance(r[0].value, ast.BinOp) and isinstance(r[0].value.op, ast.Mod) \
        and isinstance(r[0].value.left, ast.Constant) and r[0].value.left.value == "%s%s%s" \
        and isinstance(r[0].value.right, ast.Tuple) \
        and [utext(e) for e in r[0].value.right.elts] == ["self.trade.strategy.name_hash", "self.sep", "self.id"]
    rep.check(good, "R1", key(w, None, "reference = name_hash + sep + id, in that order"), w, None,
              utext(r[0].value) if r else "")
    for sc in prog.cls("BaseOrder").all_subclasses():
        rep.check("customer_order_ref" not in sc.methods, "R1", "%s does not override customer_order_ref" % sc.name)
    si = prog.own_method("BaseStrategy", "__init__")
    nh = [s for s in walk_nodes(si.node.body, ast.Assign) if utext(s.targets[0]) == "self.name_hash"]
    rep.check(len(nh) == 1 and utext(nh[0].value) == "create_cheap_hash(self.name, STRATEGY_NAME_HASH_LENGTH)", "R1",
              key(si, None, "the strategy hash is truncated to STRATEGY_NAME_HASH_LENGTH"), si, nh[0] if nh else None)
    nhw = [f.qual for f, s, t, kind in all_stores(prog, "name_hash")]
    rep.check(set(nhw) == {"BaseStrategy.__init__"}, "R1", "name_hash written only at construction", None, None, str(nhw))
    ch = prog.func("utils.create_cheap_hash")
    rets = [utext(x.value) for x in walk_nodes(ch.node.body, ast.Return)]
    sha = any(utext(c.func) == "hashlib.sha1" for c in walk_calls(ch.node.body))
    rep.check(rets == ["hash_.hexdigest()[:%s]" % ch.params[1]] and sha and H <= 40, "R1",
              key(ch, None, "hash = first `length` hex characters of a sha1 digest (40 >= H)"), ch, None, str(rets))
    # the digest is taken over the whole name: every character takes part (a lossy encoding - errors='ignore' /
    # 'replace', an ascii codec - makes names that differ only in the dropped characters share one hash, and the
    # order stream then attributes one strategy's orders to the other)
    ups = [c for c in walk_calls(ch.node.body) if call_name(c) == "update"]
    good = len(ups) == 1 and len(ups[0].args) == 1
    if good:
        a = ups[0].args[0]
        good = isinstance(a, ast.Call) and call_name(a) == "encode" and utext(a.func.value) == ch.params[0] and \
            [utext(x).lower().replace("_", "-") for x in a.args] in ([], ["'utf-8'"], ["'utf8'"]) and \
            all(k.arg == "encoding" and utext(k.value).lower().replace("_", "-") in ("'utf-8'", "'utf8'") for k in a.keywords)
    rep.check(good, "R1", key(ch, None, "the digest covers every character of the name (lossless utf-8 encoding)"), ch,
              ups[0] if ups else None)
    # readers cut the reference by POSITION: the separator is chosen per order (BaseOrder.sep) and may also occur
    # nowhere else than at position H, so a reader that searches for a separator character reads another
    # order's reference wrongly
    for f in prog.all_functions():
        for c in walk_calls(f.node.body):
            if call_name(c) in ("split", "rsplit", "partition", "rpartition", "index", "find", "rfind") and \
                    recv_text(c).endswith("customer_order_ref"):
                rep.violation("R1", key(f, c, "the reference is parsed by searching for a separator, not by position"), f, c,
                              "the separator is per order (BaseOrder.sep); readers cut at STRATEGY_NAME_HASH_LENGTH")
    n_read = 0
    for f in prog.all_functions():
        for sub in walk_nodes(f.node.body, ast.Subscript):
            if isinstance(sub.slice, ast.Slice) and utext(sub.value).endswith("customer_order_ref"):
                n_read += 1
                sl = sub.slice
                lo = utext(sl.lower) if sl.lower is not None else None
                hi = utext(sl.upper) if sl.upper is not None else None
                good = (lo is None and hi == "STRATEGY_NAME_HASH_LENGTH") or \
                       (hi is None and lo == "STRATEGY_NAME_HASH_LENGTH + 1") or \
                       (lo == "STRATEGY_NAME_HASH_LENGTH" and hi == "STRATEGY_NAME_HASH_LENGTH + 1")   # the separator itself
                imp = f.module.imports.get("STRATEGY_NAME_HASH_LENGTH")
                good = good and imp == ("flumine.utils", "STRATEGY_NAME_HASH_LENGTH") and sl.step is None
                rep.check(good, "R1", key(f, sub, "reader slices at the writer's hash length (+1 for the separator)"), f, sub,
                          "a reader that cuts elsewhere attributes the update to another order or strategy")
    rep.floor("R1", "slices of customer_order_ref", n_read, 4)
    hs = prog.own_method("Strategies", "hashes")
    rep.check(utext(hs.node.body[-1]) == "return {strategy.name_hash: strategy for strategy in self}", "R1",
              key(hs, None, "strategies are looked up by the same hash"), hs)
    cof = prog.func("process.create_order_from_current")
    d = {utext(s.targets[0]): utext(s.value) for s in walk_nodes(cof.node.body, ast.Assign)}
    rep.check(d.get("strategy") == "strategies.hashes.get(strategy_name_hash)" and
              d.get("strategy_name_hash") == "current_order.customer_order_ref[:STRATEGY_NAME_HASH_LENGTH]", "R1",
              key(cof, None, "adoption resolves the strategy from the hash part"), cof)
    v = prog.own_method("BetfairOrder", "is_valid_customer_order_ref_character")
    cfg = ctx.cfg(v)
    # truth table over (exactly one character, member of the valid set)
    import itertools
    p0 = v.params[-1]
    memb = "%s in VALID_BETFAIR_CUSTOMER_ORDER_REF_CHARACTERS" % p0
    bad = []
    for one, valid in itertools.product([True, False], repeat=2):
        seen, todo, outs = set(), [cfg.entry], set()
        while todo:
            nid = todo.pop()
            if nid in seen:
                continue
            seen.add(nid)
            n = cfg.nodes[nid]
            if n.kind == "return":
                t = utext(n.ast.value) if n.ast.value is not None else "None"
                outs.add({"True": True, "False": False, memb: valid}.get(t, t))
                continue
            if n.kind == "cond":
                t = utext(n.exprs[0])
                val = one if t == "len(%s) == 1" % p0 else (valid if t == memb else None)
                if val is None and t in ("isinstance(%s, str)" % p0, "type(%s) is str" % p0, "type(%s) == str" % p0):
                    val = True   # the domain of the table is strings; anything else must simply be refused
                    if not (one or valid):
                        val = None
                if val is not None:
                    todo += [m for l, m in n.succ if l == ("T" if val else "F")]
                    continue
            todo += [m for l, m in n.succ if l != "exc"]
        if outs != {one and valid}:
            bad.append("one character=%s, in the valid set=%s -> %s" % (one, valid, sorted(map(str, outs))))
    good = not bad
    rep.check(good, "R1", key(v, None, "a separator has exactly one character and belongs to the valid set"), v, None, "; ".join(bad))

    # ------------------------------------------------------------------ R2 length
    bi = prog.own_method("BaseOrder", "__init__")
    ids = [s for s in walk_nodes(bi.node.body, ast.Assign) if utext(s.targets[0]) == "self.id"]
    rep.check(len(ids) == 1 and utext(ids[0].value) == "str(uuid.uuid1().time)", "R2",
              key(bi, None, "order id = decimal uuid1 timestamp"), bi, ids[0] if ids else None)
    epoch = datetime.datetime(1582, 10, 15)
    digits = set()
    for year in (1900, 1970, 2000, 2024, 2100, 3000, 4750):
        t = int((datetime.datetime(year, 1, 1) - epoch).total_seconds() * 10**7)
        digits.add(len(str(t)))
    rep.note("uuid1_time_digits_1900_to_4750", sorted(digits))
    total = H + 1 + max(digits)
    rep.check(digits == {18} and total <= 32, "R2",
              "H + 1 + digits(uuid1 time) = %d + 1 + %d = %d <= 32" % (H, max(digits), total), None, None,
              "the exchange rejects customer references longer than 32 characters")
    idw = [(f.qual, utext(s.value)) for f, s, t, kind in all_stores(prog, "id")
           if res.type_of(t.value, f) is not None and res.type_of(t.value, f).is_subclass_of("BaseOrder")]
    rep.check(set(idw) <= {("BaseOrder.__init__", "str(uuid.uuid1().time)"), ("Trade.create_order_from_current", "order_id")}
              and ("BaseOrder.__init__", "str(uuid.uuid1().time)") in idw,
              "R2", "order ids are written at creation and at adoption only", None, None, str(sorted(idw)))

    # ------------------------------------------------------------------ R3 charset
    node = prog.constant("flumine.order.order", "VALID_BETFAIR_CUSTOMER_ORDER_REF_CHARACTERS")
    lit = _eval_charset(node)
    rep.check(lit == DOCUMENTED, "R3", "valid separator set equals the documented Betfair set", None, node,
              "extra: %s missing: %s" % (sorted(lit - DOCUMENTED), sorted(DOCUMENTED - lit)))
    rep.check(set("0123456789abcdef") <= DOCUMENTED and set(string.digits) <= DOCUMENTED, "R3",
              "hash and id characters are inside the documented set")
    sep = prog.const_value("flumine.config", "order_sep")
    rep.check(isinstance(sep, str) and len(sep) == 1 and sep in DOCUMENTED, "R3", "default separator is valid", None, None, repr(sep))

    # ------------------------------------------------------------------ R4 setter discipline
    st = prog.cls("BaseOrder").methods.get("sep.setter")
    if st is None:
        raise AnalysisError("BaseOrder.sep setter not found")
    cfg = ctx.cfg(st)
    assign = [n for n in cfg.live_nodes() if n.kind == "stmt" and utext(n.ast).startswith("self._sep =")]
    good = len(assign) == 1
    if good:
        gs = {(utext(g.exprs[0]), pol) for g, pol in cfg.guards(assign[0].id)}
        # stored only when the validator accepted it (further refusals in front of the store are fine) ...
        good = ("self.is_valid_customer_order_ref_character(%s)" % st.params[1], True) in gs
        raises = [n for n in cfg.live_nodes() if n.kind == "raise"]
        good = good and len(raises) >= 1 and all(utext(r.ast.exc.func) == "ValueError" for r in raises)
        # ... and every way out that does not store raises
        good = good and cfg.all_paths_pass(cfg.entry, cfg.exit, [assign[0].id])
    rep.check(good, "R4", key(st, None, "the setter stores a valid separator and raises ValueError otherwise"), st)
    sw = []
    for f, s, t, kind in all_stores(prog, "_sep"):
        sw.append((f.qual, utext(s.value)))
    rep.check(sorted(sw) == [("BaseOrder.__init__", "config.order_sep"), ("BaseOrder.sep", st.params[1])], "R4",
              "_sep written only by __init__ (default) and the validating setter", None, None, str(sorted(sw)))
    order = [utext(s) for s in bi.node.body if isinstance(s, ast.Assign) and utext(s.targets[0]) in ("self._sep", "self.sep")]
    rep.check(order == ["self._sep = config.order_sep", "self.sep = sep"], "R4",
              key(bi, None, "the constructor argument goes through the validating setter"), bi, None, str(order))
    cr = prog.own_method("Trade", "create_order_replacement")
    kws = [{k.arg: utext(k.value) for k in c.keywords} for c in walk_calls(cr.node.body) if call_name(c) == "BetfairOrder"]
    rep.check(len(kws) == 1 and kws[0].get("sep") == "order.sep", "R4", key(cr, None, "a replacement inherits the separator"), cr)
    for nm in ("create_order", "create_betdaq_order"):
        f = prog.own_method("Trade", nm)
        kws = [{k.arg: utext(k.value) for k in c.keywords} for c in walk_calls(f.node.body) if call_name(c) == "order"]
        rep.check(len(kws) == 1 and kws[0].get("sep") == "sep", "R4", key(f, None, "the requested separator reaches the order"), f)
    tc = prog.own_method("Trade", "create_order_from_current")
    rep.check(any(utext(s) == "order.id = order_id" for s in walk_nodes(tc.node.body, ast.Assign)), "R4",
              key(tc, None, "adoption keeps the id parsed from the reference"), tc)
    rep.check(d.get("order_id") == "current_order.customer_order_ref[STRATEGY_NAME_HASH_LENGTH + 1:]", "R4",
              key(cof, None, "adopted id = the part after the separator"), cof)
    pco = prog.func("process.process_current_orders")
    d2 = {utext(s.targets[0]): utext(s.value) for s in walk_nodes(pco.node.body, ast.Assign)}
    gets = [c for c in walk_calls(pco.node.body) if call_name(c) == "get_order"]
    from sa.kinds import resolve_local
    rep.check(len(gets) == 1 and {k.arg: utext(resolve_local(pco, k.value)) for k in gets[0].keywords} ==
              {"market_id": "current_order.market_id", "order_id": "current_order.customer_order_ref[STRATEGY_NAME_HASH_LENGTH + 1:]"},
              "R4", key(pco, None, "updates are routed by (market id, parsed order id)"), pco)

    # the third reader: settled bets are attached to the order whose id the reference carries; the lookup
    # is by that id alone (an adopted order is rebuilt with the default separator, so its own reference
    # need not equal the one the exchange returns)
    pcl = prog.own_method("Blotter", "process_cleared_orders")
    cfgc = ctx.cfg(pcl)
    st = [n for n in cfgc.live_nodes() if n.kind == "stmt" and isinstance(n.ast, ast.Assign)
          and utext(n.ast.targets[0]).endswith(".cleared_order")]
    good = len(st) == 1
    why = ""
    if good:
        for g, pol in cfgc.guards(st[0].id):
            for cmp_ in [x for x in ast.walk(g.exprs[0]) if isinstance(x, ast.Compare)]:
                for operand in [cmp_.left] + list(cmp_.comparators):
                    full = resolve_local(pcl, operand)
                    if isinstance(full, ast.Attribute) and full.attr == "customer_order_ref":
                        good = False
                        why = "guarded by a comparison of whole references: %s" % utext(g.exprs[0])
    rep.check(good, "R4", key(pcl, None, "a settled bet is attached by the id parsed from its reference, nothing else"), pcl, None, why)
    # ------------------------------------------------------------------ R5 id independent of the patched clock
    names = {utext(n) for n in ast.walk(ids[0].value)} if ids else set()
    rep.check("uuid.uuid1" in names and not any("datetime" in n or "current_time" in n for n in names), "R5",
              key(bi, None, "the id comes from uuid1, not from the framework clock"), bi, None,
              "the framework clock stands still within one simulated update: ids drawn from it would collide")
    ui = prog.module("flumine.order.order").imports.get("uuid")
    rep.check(ui == ("uuid", None), "R5", "flumine/order/order.py: `uuid` is the standard module")


def _eval_charset(node):
    """evaluate {..}.union(set(string.ascii_letters)).union(set(string.digits)) without importing"""
    if isinstance(node, ast.Set):
        return {e.value for e in node.elts if isinstance(e, ast.Constant)}
    if isinstance(node, ast.Call) and isinstance(node.func, ast.Attribute) and node.func.attr == "union":
        return _eval_charset(node.func.value) | _eval_charset(node.args[0])
    if isinstance(node, ast.Call) and call_name(node) == "set" and node.args:
        return _eval_charset(node.args[0])
    if isinstance(node, ast.Attribute) and utext(node.value) == "string":
        return set(getattr(string, node.attr))
    if isinstance(node, ast.Constant) and isinstance(node.value, str):
        return set(node.value)
    if isinstance(node, ast.BinOp) and isinstance(node.op, ast.BitOr):
        return _eval_charset(node.left) | _eval_charset(node.right)
    raise AnalysisError("character set expression not understood: %s" % utext(node))


_O = "flumine/order/order.py"
MUTANTS = [
    dict(id="c19-hash-drops-non-ascii", file="flumine/utils.py", func="create_cheap_hash",
         old="    hash_.update(txt.encode())", new="    hash_.update(txt.encode(\"ascii\", \"ignore\"))", expect=["R1"],
         why="names differing only in non-ASCII characters share a hash"),
    dict(id="c19-cleared-orders-parsed-by-separator", file="flumine/markets/blotter.py", func="Blotter.process_cleared_orders",
         old="            order_id = cleared_order.customer_order_ref[STRATEGY_NAME_HASH_LENGTH + 1 :]",
         new="            order_id = cleared_order.customer_order_ref.partition(\"-\")[2]", expect=["R1"],
         why="orders created with another separator are never attributed"),
    dict(id="c19-cleared-needs-whole-reference", file="flumine/markets/blotter.py", func="Blotter.process_cleared_orders",
         old="            if order_id in self:",
         new="            if order_id in self and self[order_id].customer_order_ref == cleared_order.customer_order_ref:",
         expect=["R4"], why="an adopted order (default separator) never gets its settled bet"),
    dict(id="c19-hash-length-one-end", file="flumine/order/process.py", func="create_order_from_current",
         old="    order_id = current_order.customer_order_ref[STRATEGY_NAME_HASH_LENGTH + 1 :]",
         new="    order_id = current_order.customer_order_ref[STRATEGY_NAME_HASH_LENGTH:]", expect=["R1", "R4"],
         why="adopted id keeps the separator"),
    dict(id="c19-hash-length-14", file="flumine/utils.py", old="STRATEGY_NAME_HASH_LENGTH = 13", new="STRATEGY_NAME_HASH_LENGTH = 14",
         expect=["R2"], why="33 characters"),
    dict(id="c19-two-char-sep", file=_O, func="BetfairOrder.is_valid_customer_order_ref_character",
         old="        if len(c) != 1:\n            return False\n        else:\n            return c in VALID_BETFAIR_CUSTOMER_ORDER_REF_CHARACTERS",
         new="        return all(x in VALID_BETFAIR_CUSTOMER_ORDER_REF_CHARACTERS for x in c)", expect=["R1"],
         why="multi-character separators shift the slices"),
    dict(id="c19-uuid4-hex", file=_O, func="BaseOrder.__init__", old="self.id = str(uuid.uuid1().time)", new="self.id = uuid.uuid4().hex",
         expect=["R2"], why="46-character references"),
    dict(id="c19-hash-in-set", file=_O, old='    {"-", ".", "_", "+", "*", ":", ";", "~"}', new='    {"-", ".", "_", "+", "*", ":", ";", "~", "#"}',
         expect=["R3"], why="separator the exchange rejects"),
    dict(id="c19-ref-order", file=_O, func="BaseOrder.customer_order_ref",
         old='return "%s%s%s" % (self.trade.strategy.name_hash, self.sep, self.id)',
         new='return "%s%s%s" % (self.id, self.sep, self.trade.strategy.name_hash)', expect=["R1"], why="readers slice the wrong part"),
    dict(id="c19-id-from-clock", file=_O, func="BaseOrder.__init__", old="self.id = str(uuid.uuid1().time)",
         new="self.id = str(int(datetime.datetime.utcnow().timestamp() * 1e7))", expect=["R2", "R5"], why="ids collide within a simulated update"),
    dict(id="c19-sep-bypasses-setter", file=_O, func="BaseOrder.__init__", old="        self.sep = sep\n", new="        self._sep = sep\n",
         expect=["R4"], why="invalid separators accepted"),
    dict(id="c19-setter-silent", file=_O,
         old="        else:\n            raise ValueError(f\"Invalid sep: {new_sep}\")", new="        else:\n            self._sep = config.order_sep",
         expect=["R4"], why="invalid separators not rejected"),
    dict(id="c19-replacement-default-sep", file="flumine/order/trade.py", func="Trade.create_order_replacement",
         old="            sep=order.sep,\n", new="", expect=["R4"], why="replacement changes separator"),
    dict(id="c19-hash-md5-short", file="flumine/utils.py", func="create_cheap_hash", old="    return hash_.hexdigest()[:length]",
         new="    return hash_.hexdigest()[: length - 1]", expect=["R1"], why="hash shorter than the readers assume"),
    dict(id="c19-blotter-reader", file="flumine/markets/blotter.py", func="Blotter.process_cleared_orders",
         old="cleared_order.customer_order_ref[STRATEGY_NAME_HASH_LENGTH + 1 :]", new="cleared_order.customer_order_ref[STRATEGY_NAME_HASH_LENGTH + 2 :]",
         expect=["R1"], why="cleared orders attributed to no order"),
    dict(id="c19-strategy-hash-full", file="flumine/strategy/strategy.py", func="BaseStrategy.__init__",
         old="self.name_hash = create_cheap_hash(self.name, STRATEGY_NAME_HASH_LENGTH)", new="self.name_hash = create_cheap_hash(self.name)",
         expect=["R1"], why="15-character hash, readers cut at 13"),
]
