"""C03 - Order lifecycle: one operation in flight, legal transitions, finality."""

import ast

from sa import AnalysisError
from sa.kinds import key, utext, call_name, calls_in, get_effects, all_stores, short, node_calls
from sa.cfg import walk_calls, walk_nodes
from sa.typestate import Typestate, NONE

EXPLANATION = (
    "Structural decision of C03: (R1) each request method of the order classes reaches its status setter "
    "only under bet-id-known, compatible order type and status == EXECUTABLE, every failing guard raises "
    "OrderUpdateError before any write, and the five guard sets agree; (R2) an inter-procedural typestate "
    "analysis over the status domain {NONE + OrderStatus} computes, for every call of a status setter in the "
    "package, the statuses the order can have just before it (branch refinement on status/complete/blotter "
    "membership, context-sensitive calls, exception edges; handler entry states closed under the "
    "interference of the asynchronous actors of their mode: simulation matching loop, order-stream "
    "processors) and requires every possible transition to be in the documented lifecycle; sites with an "
    "illegal possibility must be in the frozen triage table (legal-by-invariant with a reason) or they are "
    "violations; (R3) LIVE_STATUS and COMPLETE_STATUS partition OrderStatus and _is_complete consults "
    "exactly them, setter<->status table is the identity; (R4) status/complete/status_log are written only "
    "in _update_status."
)

INFLIGHT = {"execute_place": "PENDING", "execute_cancel": "CANCELLING", "execute_update": "UPDATING",
            "execute_replace": "REPLACING"}

# Sites whose statically possible pre-states include an illegal one that cannot occur, with the
# invariant that excludes it.  Keyed by the typestate site key (function, setter, branch conditions).
TRIAGE = {
    # empty since BaseOrder.executable() refuses to re-open a completed order (fix d6ab079): every
    # response-handler site discharges itself.  The mechanism is kept for future sites.
}


def build(ctx):
    return ctx.shared("typestate", lambda: _build(ctx))


def _build(ctx):
    prog = ctx.prog
    ts = Typestate(ctx)
    m = ts.model
    notnone = frozenset(m.all - {NONE})
    # ---- actors (interference)
    sim_actors = [prog.own_method("FlumineSimulation", "_process_simulated_orders"),
                  prog.own_method("SimulatedMiddleware", "_process_simulated_orders")]
    live_actor = prog.func("process.process_current_order")
    betdaq_actor = prog.func("process.process_betdaq_current_order")
    for f in sim_actors:
        ts.run_root(f, population=notnone)
    ts.run_root(live_actor, entry=notnone, population=notnone)
    ts.run_root(betdaq_actor, entry=notnone, population=notnone)

    def pairs_in(funcs):
        ids = {id(f) for f in ctx.res.reachable_funcs(funcs)}
        out = set()
        for s in ts.sites.values():
            if id(s.func) in ids:
                for p in s.pre:
                    out.add((p, s.post))
        return out

    inter = {
        "sim": pairs_in(sim_actors),
        "live": pairs_in([live_actor]),
        "betdaq": pairs_in([betdaq_actor]),
    }
    ts.interference = inter

    def closure(start, mode):
        s = set(start)
        ch = True
        while ch:
            ch = False
            for a, b in inter[mode]:
                if a in s and b not in s:
                    s.add(b)
                    ch = True
        s.discard("VIOLATION")  # BaseOrderPackage.orders drops refused orders (C02-R7)
        s.discard(NONE)
        return frozenset(s)

    ts.closure = closure
    ts.handler_entry = {}
    for cname, mode in (("SimulatedExecution", "sim"), ("BetfairExecution", "live"), ("BetdaqExecution", "betdaq")):
        c = prog.cls(cname)
        for hn, infl in INFLIGHT.items():
            f = c.methods.get(hn)
            if f is None:
                continue
            pop = closure({infl}, mode)
            ts.handler_entry[f.qual] = sorted(pop)
            ts.run_root(f, population=pop)
    ro = prog.own_method("BaseOrderPackage", "reset_orders")
    ts.analyze(ro, {}, {"complete": True}, closure({"PENDING"}, "live"))
    ts.analyze(ro, {}, {"complete": False}, closure({"CANCELLING", "UPDATING", "REPLACING"}, "live"))
    # ---- strategy-facing requests: any order may be passed
    for mname in ("place_order", "cancel_order", "update_order", "replace_order"):
        ts.run_root(prog.own_method("Transaction", mname), entry=m.all, population=notnone)
    ts.run_root(prog.func("process.create_order_from_current"), population=notnone)
    ts.run_root(prog.func("process.process_current_orders"), population=notnone)
    ts.run_root(prog.func("process.process_betdaq_current_orders"), population=notnone)
    # ---- coverage: every syntactic setter call on an order must have been reached
    ts.uncovered = []
    for f in prog.all_functions():
        for c in walk_calls(f.node.body):
            if isinstance(c.func, ast.Attribute) and c.func.attr in m.setters:
                t = ctx.res.type_of(c.func.value, f)
                if ts.is_order_type(t) and id(c) not in ts.sites:
                    ts.uncovered.append((f, c))
    for f, c in ts.uncovered:
        # analyse the enclosing function as a root with the weakest assumptions
        ts.run_root(f, entry=m.all, population=notnone)
    ts.still_uncovered = [(f, c) for f, c in ts.uncovered if id(c) not in ts.sites]
    return ts


def run(ctx, rep):
    prog = ctx.prog
    ts = build(ctx)
    m = ts.model
    eff = get_effects(ctx)

    # ------------------------------------------------------------------ R1 request guards
    reqs = [("BetfairOrder", "cancel", "cancelling", {"LIMIT"}),
            ("BetfairOrder", "update", "updating", {"LIMIT"}),
            ("BetfairOrder", "replace", "replacing", {"LIMIT", "LIMIT_ON_CLOSE"}),
            ("BetdaqOrder", "cancel", "cancelling", {"LIMIT"}),
            ("BetdaqOrder", "update", "updating", {"LIMIT"})]
    guardsets = {}
    for cn, mn, setter, types in reqs:
        f = prog.own_method(cn, mn)
        cfg = ctx.cfg(f)
        sites = [n for n in cfg.live_nodes() if any(call_name(c) == setter and utext(c.func.value) == "self"
                                                    for c in calls_in(n))]
        if len(sites) != 1:
            raise AnalysisError("%s: expected one %s() site, found %d" % (f.qual, setter, len(sites)))
        n = sites[0]
        gs = {(utext(g.exprs[0]), pol) for g, pol in cfg.guards(n.id)}
        have_bet = ("self.bet_id is None", False) in gs or ("self.bet_id is not None", True) in gs \
            or ("self.bet_id", True) in gs
        have_status = ("self.status != OrderStatus.EXECUTABLE", False) in gs or \
            ("self.status == OrderStatus.EXECUTABLE", True) in gs
        tguard = None
        for t, pol in gs:
            if t.startswith("self.order_type.ORDER_TYPE") and pol:
                tguard = t
        got_types = set()
        if tguard:
            for nm in ("LIMIT_ON_CLOSE", "MARKET_ON_CLOSE", "LIMIT"):
                if "OrderTypes.%s" % nm in tguard.replace("OrderTypes.LIMIT_ON_CLOSE", "OrderTypes.LIMIT_ON_CLOSE "):
                    pass
            for a in ast.walk(ast.parse(tguard, mode="eval")):
                if isinstance(a, ast.Attribute) and utext(a.value) == "OrderTypes":
                    got_types.add(a.attr)
        rep.check(have_bet, "R1", key(f, None, "guard: bet id known"), f, None, "guards: %s" % sorted(gs))
        rep.check(have_status, "R1", key(f, None, "guard: status == EXECUTABLE"), f, None, "guards: %s" % sorted(gs))
        rep.check(got_types == types, "R1", key(f, None, "guard: order type in %s" % sorted(types)), f, None,
                  "order-type guard: %s" % tguard)
        guardsets[f.qual] = (have_bet, have_status, bool(tguard))
        # every failing guard raises OrderUpdateError; no write before the guards passed
        for g, pol in cfg.guards(n.id):
            lab = "F" if pol else "T"
            tgt = [mm for l, mm in g.succ if l == lab][0]
            r = cfg.reachable(tgt)
            only_raise = cfg.exit not in r and all(
                cfg.nodes[x].kind in ("raise", "cond", "raise_exit") for x in r)
            raises_ok = all(utext(cfg.nodes[x].ast.exc.func) == "OrderUpdateError"
                            for x in r if cfg.nodes[x].kind == "raise")
            rep.check(only_raise and raises_ok, "R1",
                      key(f, g.exprs[0], "failing guard raises OrderUpdateError"), f, g.exprs[0])
        for x in cfg.live_nodes():
            if not eff.node_effects(f, x):
                continue
            dominated = all(not _reach_without(cfg, x.id, g, pol) for g, pol in cfg.guards(n.id))
            rep.check(dominated, "R1", key(f, x.exprs[0], "write only after all guards passed"), f, x.exprs[0],
                      "a state change before the guards means a rejected request has side effects")
    rep.check(len(set(guardsets.values())) == 1, "R1", "sibling request methods agree on the guard set", None, None,
              str(guardsets))
    # Betdaq cancel additionally refuses a size reduction before anything else
    # Transaction-level: at most one operation in flight follows from status == EXECUTABLE being required
    # and every request setter leaving EXECUTABLE (R2 transition table).

    # ------------------------------------------------------------------ R2 typestate
    if ts.still_uncovered:
        f, c = ts.still_uncovered[0]
        raise AnalysisError("status setter call not reached by the typestate analysis: %s in %s" % (utext(c), f.qual))
    sites = list(ts.sites.values())
    rep.floor("R2", "status setter call sites on orders", len(sites), 30)
    rep.note("handler_entry_states", ts.handler_entry)
    rep.note("interference", {k: sorted("%s->%s" % p for p in v) for k, v in ts.interference.items()})
    rep.note("typestate_contexts", ts.contexts_run)
    used = set()
    for s in sorted(sites, key=lambda s: (s.func.qual, s.call.lineno)):
        bad = ts.illegal(s)
        k = ts.site_key(s)
        if not bad:
            rep.ok("R2", k, s.func, s.call, "pre-states %s -> %s" % (sorted(s.pre), s.post))
            continue
        if k in TRIAGE:
            used.add(k)
            rep.ok("R2", k, s.func, s.call, "illegal possibilities %s excluded by invariant: %s" % (
                ["%s->%s" % b for b in bad], TRIAGE[k]))
            continue
        rep.violation("R2", k, s.func, s.call,
                      "illegal lifecycle transition(s) possible here: %s (pre-states %s)" % (
                          ", ".join("%s->%s" % b for b in bad), sorted(s.pre)))
    for k in TRIAGE:
        if k not in used:
            rep.remark("R2", k, None, None, "triage entry no longer needed (site discharged or gone)")

    # R2b: the stream processors never move an order whose request is in flight (the handler entry
    # states above rely on it): executable() only from PENDING (Betdaq: or UPDATING)
    for fq, allowed in (("process.process_current_order", {"PENDING"}),
                        ("process.process_betdaq_current_order", {"PENDING", "UPDATING"})):
        f = prog.func(fq)
        n2 = 0
        for s in sites:
            if s.func is f and s.setter == "executable":
                n2 += 1
                got = {p for p, q in s.trans}
                rep.check(got <= allowed, "R2b", ts.site_key(s), f, s.call,
                          "the stream processor may re-open to EXECUTABLE only from %s, got %s" % (
                              sorted(allowed), sorted(got)))
        rep.floor("R2b", "executable() sites in %s" % fq, n2, 1)

    # the Betdaq processor leaves UPDATING when the exchange's sequence number has moved on: the number it
    # compares with is the one the order carried BEFORE this message was stored (read after the store the two are
    # always equal and an updated order stays in flight for good)
    bf = prog.func("process.process_betdaq_current_order")
    cfgb = ctx.cfg(bf)
    store = [n for n, c in node_calls(cfgb, "update_current_order")]
    olds = [n for n in cfgb.live_nodes() if n.kind == "stmt" and isinstance(n.ast, ast.Assign)
            and "sequence_number" in utext(n.ast.value) and "order.current_order" in utext(n.ast.value)]
    rep.check(len(store) == 1 and bool(olds) and all(cfgb.dominates(o.id, store[0].id) for o in olds), "R2b",
              key(bf, None, "the previous sequence number is read before the new message is stored"), bf,
              olds[0].ast if olds else None)

    # ------------------------------------------------------------------ R5 bet id discipline
    bet_id_writers(ctx, rep, "R5")

    # ------------------------------------------------------------------ R3 tables
    members = set(m.members)
    live, comp = set(m.live), set(m.complete)
    rep.check(live | comp == members and not (live & comp), "R3",
              "LIVE_STATUS and COMPLETE_STATUS partition OrderStatus", None, None,
              "live=%s complete=%s members=%s" % (sorted(live), sorted(comp), sorted(members)))
    rep.check(comp == {"EXECUTION_COMPLETE", "EXPIRED", "VIOLATION"}, "R3",
              "COMPLETE_STATUS is {EXECUTION_COMPLETE, EXPIRED, VIOLATION}", None, None, str(sorted(comp)))
    want = {"placing": "PENDING", "executable": "EXECUTABLE", "execution_complete": "EXECUTION_COMPLETE",
            "cancelling": "CANCELLING", "updating": "UPDATING", "replacing": "REPLACING", "violation": "VIOLATION"}
    rep.check(m.setters == want, "R3", "setter <-> status table is the identity", None, None, str(m.setters))
    isc = prog.own_method("BaseOrder", "_is_complete")
    cfg = ctx.cfg(isc)
    rets = {}
    for n in cfg.live_nodes():
        if n.kind == "return":
            gs = sorted((utext(g.exprs[0]), pol) for g, pol in cfg.guards(n.id))
            rets[utext(n.ast.value)] = rets.get(utext(n.ast.value), []) + [gs]
    good = [("self.status in COMPLETE_STATUS", True), ("self.status in LIVE_STATUS", False)] in rets.get("True", []) \
        or [("self.status in COMPLETE_STATUS", True)] in rets.get("True", [])
    good = good and len(rets.get("True", [])) == 1
    rep.check(good, "R3", key(isc, None, "complete exactly for the COMPLETE_STATUS members"), isc, None, str(rets))
    # subclasses do not override the funnel or the setters
    for sc in prog.cls("BaseOrder").all_subclasses():
        for nm in list(want) + ["_update_status", "_is_complete"]:
            rep.check(nm not in sc.methods, "R3", "%s does not override %s" % (sc.name, nm))

    # ------------------------------------------------------------------ R4 who may write
    n_w = 0
    for attr, allowed in (("status", {"BaseOrder.__init__", "BaseOrder._update_status",
                                     "Trade.__init__", "Trade._update_status",
                                     "SimulatedPlaceResponse.__init__", "SimulatedCancelResponse.__init__",
                                     "SimulatedUpdateResponse.__init__"}),
                          ("complete", {"BaseOrder.__init__", "BaseOrder._update_status"}),
                          ("status_log", {"BaseOrder.__init__", "Trade.__init__"})):
        for f, s, t, kind in all_stores(prog, attr):
            n_w += 1
            rep.check(f.qual in allowed, "R4", "store to .%s in %s" % (attr, key(f, s)), f, s,
                      "only the status funnel may write .%s (allowed: %s)" % (attr, sorted(allowed)))
    rep.floor("R4", "stores to status/complete/status_log", n_w, 8)
    us = prog.own_method("BaseOrder", "_update_status")
    stores = [utext(t) for s in walk_nodes(us.node.body, (ast.Assign,)) for t in s.targets]
    rep.check("self.status" in stores and "self.complete" in stores, "R4",
              key(us, None, "funnel sets status and recomputes complete"), us, None, str(stores))
    # status_log only appended in the funnels
    from sa.kinds import all_mutator_calls
    for f, c, mut in all_mutator_calls(prog, "status_log"):
        rep.check(f.qual in ("BaseOrder._update_status", "Trade._update_status") and mut == "append", "R4",
                  "mutation of status_log in %s" % key(f, c), f, c)


def bet_id_writers(ctx, rep, R):
    """who may assign order.bet_id, and under which guards (shared with C11-R4).  A synchronous
    placement is acknowledged only by its own response: until then the order has no bet id, stays
    PENDING and rejects every request.  The stream processor may therefore pick a bet id up only for an
    async placement that has none yet."""
    prog, res = ctx.prog, ctx.res
    allowed = {
        "BaseOrder.__init__": None,
        "BaseExecution._order_logger": None,
        "BetdaqExecution._order_logger": None,
        "Trade.create_order_from_current": None,
        "process.process_current_order": {("order.async_", True), ("order.bet_id is None", True),
                                          ("current_order.bet_id", True)},
    }
    n = 0
    for f, s, t, kind in all_stores(prog, "bet_id"):
        bt = res.type_of(t.value, f)
        if bt is not None and not bt.is_subclass_of("BaseOrder"):
            continue
        n += 1
        if not rep.check(f.qual in allowed, R, "bet id assigned in " + key(f, s), f, s,
                         "only placement responses, adoption and the async pick-up of the stream processor assign bet ids"):
            continue
        need = allowed[f.qual]
        if need:
            cfg = ctx.cfg(f)
            node = cfg.nodes_of(s)[0]
            gs = {(utext(g.exprs[0]), pol) for g, pol in cfg.guards(node.id)}
            rep.check(need <= gs, R, key(f, s, "bet id picked up from the stream only for an async placement without one"),
                      f, s, "guards %s; a synchronous order that gets its bet id from the stream becomes EXECUTABLE and "
                            "accepts requests while its placement is still in flight" % sorted(gs))
    rep.floor(R, "assignments of order.bet_id", n, 5)


def _reach_without(cfg, nid, g, pol):
    lab = "T" if pol else "F"
    return nid in cfg.reachable(cfg.entry, (), {(g.id, lab)})


_O = "flumine/order/order.py"
MUTANTS = [
    dict(id="c03-betdaq-sequence-read-after-store", file="flumine/order/process.py", func="process_betdaq_current_order",
         old="    old_sequence_number = order.current_order.get(\"sequence_number\")\n    # update\n    order.update_current_order(current_order)\n",
         new="    # update\n    order.update_current_order(current_order)\n    old_sequence_number = order.current_order.get(\"sequence_number\")\n",
         expect=["R2b"], why="old and new sequence number always equal: an updated Betdaq order never leaves UPDATING"),
    dict(id="c03-drop-status-guard-betdaq-cancel", file=_O, func="BetdaqOrder.cancel",
         old="            if self.status != OrderStatus.EXECUTABLE:\n                raise OrderUpdateError(\"Current status: %s\" % self.status)\n",
         new="", expect=["R1", "R2"], why="cancel accepted while another request is in flight"),
    dict(id="c03-drop-betid-guard-replace", file=_O, func="BetfairOrder.replace",
         old="        if self.bet_id is None:\n            raise OrderUpdateError(\"Order does not currently have a betId\")\n        elif",
         new="        if", expect=["R1"], why="replace without a bet id"),
    dict(id="c03-write-before-guard", file=_O, func="BetfairOrder.cancel",
         old="            if self.status != OrderStatus.EXECUTABLE:\n                raise OrderUpdateError(\"Current status: %s\" % self.status)\n            self.update_data[\"size_reduction\"] = size_reduction\n",
         new="            self.update_data[\"size_reduction\"] = size_reduction\n            if self.status != OrderStatus.EXECUTABLE:\n                raise OrderUpdateError(\"Current status: %s\" % self.status)\n",
         expect=["R1"], why="rejected cancel leaves update_data behind"),
    dict(id="c03-executable-in-complete-list", file=_O,
         old="    OrderStatus.REPLACING,\n    OrderStatus.EXECUTABLE,\n]\nCOMPLETE_STATUS = [\n",
         new="    OrderStatus.REPLACING,\n]\nCOMPLETE_STATUS = [\n    OrderStatus.EXECUTABLE,\n", expect=["R3"],
         why="resting orders reported complete"),
    dict(id="c03-reopen-completed", file=_O, func="BaseOrder.executable",
         old="        if self.status in (OrderStatus.EXECUTION_COMPLETE, OrderStatus.EXPIRED):",
         new="        if self.status in (OrderStatus.EXPIRED,):", expect=["R2"],
         why="late failure replies re-open completed orders (F04/F10/F11)"),
    dict(id="c03-violation-on-live", file=_O, func="BaseOrder.violation",
         old="        if self.status is None or self.status == OrderStatus.VIOLATION:",
         new="        if True:", expect=["R2"], why="refused cancel marks a live order VIOLATION (F03)"),
    dict(id="c03-direct-status-write", file="flumine/execution/simulatedexecution.py",
         func="SimulatedExecution.execute_update",
         old="                elif simulated_response.status == \"FAILURE\":\n                    order.executable()\n",
         new="                elif simulated_response.status == \"FAILURE\":\n                    order.status = OrderStatus.EXECUTABLE\n",
         expect=["R4"], why="status written outside the funnel"),
    dict(id="c03-stream-reopens-inflight", file="flumine/order/process.py", func="process_current_order",
         old="    if order.bet_id and order.status == OrderStatus.PENDING:", new="    if order.bet_id:",
         expect=["R2"], why="stream update moves an in-flight / completed order"),
    dict(id="c03-sync-betid-from-stream", file="flumine/order/process.py", func="process_current_order",
         old="    if order.async_ and order.bet_id is None and current_order.bet_id:",
         new="    if order.bet_id is None and current_order.bet_id:", expect=["R5"],
         why="sync order becomes EXECUTABLE while its placement is in flight"),
    dict(id="c03-duplicate-place", file="flumine/execution/transaction.py", func="Transaction.place_order",
         old="        if order.id in self.market.blotter:\n            raise OrderError(\"Order %s has already been placed\" % order.id)\n",
         new="", expect=["R2"], why="a resting order set PENDING again (F08)"),
    dict(id="c03-sim-loop-completes-pending", file="flumine/simulation/simulation.py",
         func="FlumineSimulation._process_simulated_orders",
         old="                        order.execution_complete()\n                        blotter.complete_order(order)\n        for strategy",
         new="                        order.execution_complete()\n                        blotter.complete_order(order)\n                else:\n                    order.placing()\n        for strategy",
         expect=["R2"], why="live order set back to PENDING by the matching loop"),
    dict(id="c03-setter-table", file=_O, func="BaseOrder.cancelling",
         old="self._update_status(OrderStatus.CANCELLING)", new="self._update_status(OrderStatus.UPDATING)",
         expect=["R3"], why="wrong in-flight status"),
    dict(id="c03-is-complete-default-true", file=_O, func="BaseOrder._is_complete",
         old="        if self.status in LIVE_STATUS:\n            return False\n        elif self.status in COMPLETE_STATUS:\n            return True\n        else:\n            return False",
         new="        if self.status in LIVE_STATUS:\n            return False\n        else:\n            return True",
         expect=["R3"], why="a constructed order counts as complete"),
    dict(id="c03-reset-orders-to-pending", file="flumine/order/orderpackage.py", func="BaseOrderPackage.reset_orders",
         old="                    order.executable()", new="                    order.placing()", expect=["R2"],
         why="exhausted retries leave the order pending for ever"),
]
