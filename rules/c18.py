"""C18 - The transaction-limit control counts exactly and blocks when exceeded."""

import ast

from sa import AnalysisError
from sa.kinds import (key, utext, call_name, recv_text, calls_in, node_calls, all_stores, store_targets)
from sa.cfg import walk_calls, walk_nodes
from sa.astutil import gp

EXPLANATION = (
    "Structural decision of C18: (R1) every read-modify-write of the four counters of MaxTransactionCount is "
    "lexically inside `with self._lock`, a lock created per instance; (R2) each branch of add_transaction adds "
    "`count` to the total and to the hourly counter of its own kind; (R3) totals are only ever increased, the "
    "hourly counters are zeroed only in _set_next_hour, nothing outside the class writes them; (R4) _validate "
    "calls _check_hour() before it consults `safe`, `safe` (evaluated over the abstract domain limit None / "
    "total <=, > limit) is True exactly when there is no limit or the hourly total does not exceed it, and an "
    "unsafe state refuses every package type; the hourly/total sums add the two counters of their kind; "
    "_check_hour restarts through _set_next_hour, which zeroes both hourly counters and moves the boundary; "
    "(R5) one control instance per client, no class-level mutable state, limit read from the control's own "
    "client; (R6) the count table of the response handlers (C12-R5). The hour-boundary date arithmetic is not "
    "decided."
)

TOTALS = ("transaction_count", "failed_transaction_count")
HOURLY = ("current_transaction_count", "current_failed_transaction_count")
COUNTERS = TOTALS + HOURLY


def _inside_lock(func, stmt):
    """is stmt lexically inside `with self._lock` in func?"""
    found = []

    def visit(stmts, locked):
        for s in stmts:
            if s is stmt:
                found.append(locked)
            if isinstance(s, ast.With):
                l2 = locked or any(utext(i.context_expr) == "self._lock" for i in s.items)
                visit(s.body, l2)
            else:
                for fld in ("body", "orelse", "finalbody"):
                    visit(getattr(s, fld, []) or [], locked)
                for h in getattr(s, "handlers", []) or []:
                    visit(h.body, locked)

    visit(func.node.body, False)
    return bool(found) and all(found)


def run(ctx, rep):
    prog, res = ctx.prog, ctx.res
    mtc = prog.cls("MaxTransactionCount")
    init = prog.own_method("MaxTransactionCount", "__init__")

    # ------------------------------------------------------------------ R1 / R3 writers
    n_rmw = 0
    n_w = 0
    for attr in COUNTERS:
        for f, s, t, kind in all_stores(prog, attr):
            bt = res.type_of(t.value, f)
            if bt is not None and bt.name != "MaxTransactionCount":
                continue
            n_w += 1
            if f.qual == "MaxTransactionCount.__init__":
                rep.check(kind == "assign" and utext(s.value) == "0", "R3", key(f, s, "counter starts at zero"), f, s)
                continue
            rep.check(f.cls is mtc, "R3", "store to %s outside the control: %s" % (attr, key(f, s)), f, s)
            if kind == "aug":
                n_rmw += 1
                rep.check(_inside_lock(f, s), "R1", key(f, s, "read-modify-write under self._lock"), f, s,
                          "concurrent executions finishing at the same time would lose counts")
                rep.check(isinstance(s.op, ast.Add), "R3", key(f, s, "counter only ever increased"), f, s)
                rep.check(f.qual == "MaxTransactionCount.add_transaction", "R3",
                          key(f, s, "counted only in add_transaction"), f, s)
            else:
                is_zero = kind == "assign" and utext(s.value) == "0"
                rep.check(attr in HOURLY and is_zero and f.qual == "MaxTransactionCount._set_next_hour", "R3",
                          key(f, s, "only the hourly counters are reset, only in _set_next_hour"), f, s,
                          "a total since start-up must never be reset or overwritten")
                if attr in HOURLY and is_zero and not _inside_lock(f, s):
                    rep.remark("R1", key(f, s, "hourly counter zeroed without the lock"), f, s,
                               "a lost reset could not be produced on CPython 3.12 (no switch point inside "
                               "`obj.attr += int`); observation only")
    rep.floor("R1", "read-modify-write sites of the counters", n_rmw, 4)
    rep.floor("R3", "stores to the counters", n_w, 5)
    locks = [s for s in walk_nodes(init.node.body, ast.Assign) if utext(s.targets[0]) == "self._lock"]
    rep.check(len(locks) == 1 and utext(locks[0].value) in ("threading.Lock()", "threading.RLock()"), "R1",
              key(init, None, "one lock per control instance"), init)
    rep.check("_lock" not in mtc.class_attrs, "R1", "the lock is not a class attribute", None)
    for f, s, t, kind in all_stores(prog, "_lock"):
        bt = res.type_of(t.value, f)
        if bt is None or bt.name == "MaxTransactionCount":
            rep.check(f.qual == "MaxTransactionCount.__init__", "R1", "lock rebound in " + key(f, s), f, s)

    # ------------------------------------------------------------------ R2 pairing
    at = prog.own_method("MaxTransactionCount", "add_transaction")
    cfg = ctx.cfg(at)
    cnt, failed = at.params[1], at.params[2]
    branches = {True: set(), False: set()}
    for n in cfg.live_nodes():
        if n.kind == "stmt" and isinstance(n.ast, ast.AugAssign):
            gs = [(utext(g.exprs[0]), pol) for g, pol in cfg.guards(n.id)]
            # additions of nothing (count == 0) or of a negative count (never sent by the execution layer: it passes
            # len(package) or a counter it has just tested) may be skipped or refused without changing any figure
            noop = {gp(x % cnt) for x in ("%s >= 0", "%s > 0", "%s != 0", "%s", "not (%s < 0)", "not (%s <= 0)", "not (%s == 0)",
                                          "0 <= %s", "0 < %s", "not (0 > %s)", "not (0 >= %s)")}
            gs = [g_ for g_ in gs if g_ not in noop]
            if len(gs) == 1 and gs[0][0] == failed:
                branches[gs[0][1]].add((utext(n.ast.target), utext(n.ast.value)))
            else:
                rep.violation("R2", key(at, n.ast, "update outside the failed / not-failed branches"), at, n.ast, str(gs))
    want_t = {("self.failed_transaction_count", cnt), ("self.current_failed_transaction_count", cnt)}
    want_f = {("self.transaction_count", cnt), ("self.current_transaction_count", cnt)}
    rep.check(branches[True] == want_t, "R2", key(at, None, "failed branch adds count to the failed total and hourly counter"),
              at, None, str(sorted(branches[True])))
    rep.check(branches[False] == want_f, "R2", key(at, None, "other branch adds count to the total and hourly counter"),
              at, None, str(sorted(branches[False])))

    # ------------------------------------------------------------------ R4 validate / safe / hour
    v = prog.own_method("MaxTransactionCount", "_validate")
    cfg = ctx.cfg(v)
    ch = node_calls(cfg, "_check_hour")
    safes = [n for n in cfg.live_nodes() if n.kind == "cond" and utext(n.exprs[0]) == "self.safe"]
    errs = node_calls(cfg, "_on_error")
    good = len(ch) == 1 and len(safes) == 1 and len(errs) == 1
    if good:
        good = cfg.dominates(ch[0][0].id, safes[0].id) and cfg.unconditional(ch[0][0].id)
        gs = [(utext(g.exprs[0]), pol) for g, pol in cfg.guards(errs[0][0].id)]
        good = good and gs == [("self.safe", False)]
        good = good and utext(errs[0][1].args[0]) == v.params[1]
    rep.check(good, "R4", key(v, None, "_check_hour() first, then not safe => refuse, for every package type"), v, None,
              "the first request of a new hour must restart the hourly counters before the limit test")
    pt_uses = [n for n in walk_nodes(v.node.body, ast.Name) if n.id == v.params[2]]
    rep.check(not pt_uses, "R4", key(v, None, "the package type does not influence the decision"), v)
    sf = prog.own_method("MaxTransactionCount", "safe")
    cfg = ctx.cfg(sf)
    bad = []
    for lim_none in (True, False):
        for d in (-1, 0, 1):
            from sa.kinds import expanded as _exp
            # locals that merely name the limit / the hourly total (each read once) are read back
            rets = _walk(cfg, lambda e: _safe_atom(ast.parse(_exp(sf, e), mode="eval").body, lim_none, d))
            want = {"True"} if (lim_none or d <= 0) else {"False"}
            if rets != want:
                bad.append("limit None=%s total-limit=%+d -> %s want %s" % (lim_none, d, sorted(rets), sorted(want)))
    rep.check(not bad, "R4", key(sf, None, "safe <=> no limit or hourly total <= limit (6 abstract cases)"), sf, None,
              "; ".join(bad))
    for pname, parts in (("current_transaction_count_total", HOURLY), ("transaction_count_total", TOTALS)):
        p = prog.own_method("MaxTransactionCount", pname)
        r = [x for x in walk_nodes(p.node.body, ast.Return)]
        good = len(r) == 1 and isinstance(r[0].value, ast.BinOp) and isinstance(r[0].value.op, ast.Add) and \
            {utext(r[0].value.left), utext(r[0].value.right)} == {"self." + parts[0], "self." + parts[1]}
        rep.check(good, "R4", key(p, None, "sum of the two counters of its kind"), p)
    tl = prog.own_method("MaxTransactionCount", "transaction_limit")
    rep.check(utext(tl.node.body[-1]) == "return self.client.transaction_limit", "R5",
              key(tl, None, "limit read from the control's own client"), tl)
    chf = prog.own_method("MaxTransactionCount", "_check_hour")
    cfg = ctx.cfg(chf)
    sn = node_calls(cfg, "_set_next_hour")
    # truth table over (no boundary set, same date, same hour): the counters restart exactly when no boundary
    # is set or the date or the hour of the boundary differs from now + 1h
    from rules.c05 import reach_under
    import itertools
    d_atom, h_atom = gp("self._next_hour.date() == next_hour.date()")[0], gp("self._next_hour.hour == next_hour.hour")[0]
    atoms = {utext(n.exprs[0]) for n in cfg.live_nodes() if n.kind == "cond"}
    bad = []
    for none_, same_d, same_h in itertools.product([True, False], repeat=3):
        def ev(e):
            t = utext(e)
            if t == "self._next_hour is None":
                return none_
            if t == d_atom:
                return same_d
            if t == h_atom:
                return same_h
            return None
        hit = reach_under(cfg, cfg.entry, {n.id for n, c in sn}, ev)
        n_exec = len(hit)
        want = none_ or not same_d or not same_h
        if bool(hit) != want or n_exec > 1:
            bad.append("boundary None=%s same date=%s same hour=%s -> restart %s" % (none_, same_d, same_h, bool(hit)))
    good = bool(sn) and not bad and {"self._next_hour is None", d_atom, h_atom} <= atoms
    nh = [s_ for s_ in walk_nodes(chf.node.body, ast.Assign) if utext(s_.targets[0]) == "next_hour"]
    good = good and len(nh) == 1 and "timedelta(hours=1)" in utext(nh[0].value)
    rep.check(good, "R4",
              key(chf, None, "restart when no boundary is set or the boundary's date or hour differs from now+1h"), chf,
              None, "; ".join(bad) or str(sorted(atoms)))
    snh = prog.own_method("MaxTransactionCount", "_set_next_hour")
    cfg = ctx.cfg(snh)
    zero = {utext(n.ast.targets[0]) for n in cfg.live_nodes() if n.kind == "stmt" and isinstance(n.ast, ast.Assign)
            and utext(n.ast.value) == "0" and cfg.unconditional(n.id)}
    nh = [n for n in cfg.live_nodes() if n.kind == "stmt" and isinstance(n.ast, ast.Assign)
          and utext(n.ast.targets[0]) == "self._next_hour"]
    good = zero == {"self." + h for h in HOURLY} and len(nh) == 1 and "timedelta(hours=1)" in utext(nh[0].ast.value) \
        and "minute=0" in utext(nh[0].ast.value)
    rep.check(good, "R4", key(snh, None, "zeroes both hourly counters and moves the boundary to the next full hour"), snh,
              None, str(sorted(zero)))
    for f in (chf, snh):
        clock = [utext(c) for c in walk_calls(f.node.body) if call_name(c) in ("utcnow", "now", "time", "today")]
        rep.check(clock == ["datetime.datetime.utcnow()"], "R4", key(f, None, "reads the (patchable) framework clock"), f,
                  None, str(clock))

    # ------------------------------------------------------------------ R5 per client
    ac = prog.own_method("BaseFlumine", "add_client")
    calls = [c for c in walk_calls(ac.node.body) if call_name(c) == "add_client_control"]
    good = len(calls) == 1 and [utext(a) for a in calls[0].args] == [ac.params[1], "MaxTransactionCount"]
    cfg = ctx.cfg(ac)
    if good:
        n = [x for x in cfg.live_nodes() if calls[0] in walk_calls(x.exprs)][0]
        good = cfg.unconditional(n.id)
    rep.check(good, "R5", key(ac, None, "every client gets its own MaxTransactionCount"), ac)
    acc = prog.own_method("BaseFlumine", "add_client_control")
    aps = [c for c in walk_calls(acc.node.body) if call_name(c) == "append"]
    good = len(aps) == 1 and recv_text(aps[0]) == "%s.trading_controls" % acc.params[1] and \
        isinstance(aps[0].args[0], ast.Call) and utext(aps[0].args[0].func) == acc.params[2] and \
        [utext(a) for a in aps[0].args[0].args] == ["self", acc.params[1]]
    rep.check(good, "R5", key(acc, None, "a fresh control instance bound to that client is appended to that client"), acc)
    mutable = [k for k, vnode in mtc.class_attrs.items() if not isinstance(vnode, ast.Constant)]
    rep.check(not mutable, "R5", "MaxTransactionCount has no class-level mutable state", None, None, str(mutable))
    bc = prog.own_method("BaseClient", "__init__")
    rep.check(any(utext(s) == "self.trading_controls = []" for s in walk_nodes(bc.node.body, ast.Assign)), "R5",
              key(bc, None, "each client owns its list of controls"), bc)
    rep.check("trading_controls" not in prog.cls("BaseClient").class_attrs, "R5",
              "trading_controls is not shared between clients", None)
    vc = prog.own_method("Transaction", "_validate_controls")
    its = [utext(lp.iter) for lp in walk_nodes(vc.node.body, ast.For)]
    rep.check("self._client.trading_controls" in its, "R5", key(vc, None, "requests are validated by their own client's controls"),
              vc, None, str(its))
    mi = prog.own_method("MaxTransactionCount", "__init__")
    rep.check(any(utext(s) == "self.client = client" for s in walk_nodes(mi.node.body, ast.Assign)), "R5",
              key(mi, None, "the control remembers its client"), mi)

    # ------------------------------------------------------------------ R6 count table
    from rules.c12 import r5_counts
    r5_counts(ctx, rep, "R6")
    # what is charged is len(order_package): the orders that were sent.  The package's filter may depend only
    # on a state fixed before sending (VIOLATION): one that follows the orders' later progress (completed
    # while the request was in flight) would make the charge smaller than what the exchange counted
    from rules.c02 import _r7
    _r7(ctx, rep, "R6")


def _walk(cfg, atom_eval):
    rets, seen, todo = set(), set(), [cfg.entry]
    while todo:
        nid = todo.pop()
        if nid in seen:
            continue
        seen.add(nid)
        n = cfg.nodes[nid]
        if n.kind == "return":
            rets.add(utext(n.ast.value) if n.ast.value is not None else "None")
            continue
        if n.kind == "cond":
            v = atom_eval(n.exprs[0])
            if v is not None:
                todo += [m for l, m in n.succ if l == ("T" if v else "F")]
                continue
        todo += [m for l, m in n.succ if l != "exc"]
    return rets


def _safe_atom(e, lim_none, d):
    from sa.kinds import canon_compare, oriented
    c = canon_compare(e)
    if c is None:
        return None
    a, op, b = c
    if {a, b} == {"self.transaction_limit", "None"} or (a == "self.transaction_limit" and b == "None"):
        return lim_none if op in ("is", "==") else (not lim_none if op in ("is not", "!=") else None)
    o = oriented(c, "self.current_transaction_count_total")
    if o and o[2] == "self.transaction_limit":
        return {"<=": d <= 0, "<": d < 0, ">": d > 0, ">=": d >= 0, "==": d == 0, "!=": d != 0}[o[1]]
    return None


_C = "flumine/controls/clientcontrols.py"
MUTANTS = [
    dict(id="c18-remove-lock", file=_C, func="MaxTransactionCount.add_transaction",
         old="        with self._lock:\n            if failed:\n                self.failed_transaction_count += count\n                self.current_failed_transaction_count += count\n            else:\n                self.transaction_count += count\n                self.current_transaction_count += count",
         new="        if failed:\n            self.failed_transaction_count += count\n            self.current_failed_transaction_count += count\n        else:\n            self.transaction_count += count\n            self.current_transaction_count += count",
         expect=["R1"], why="concurrent executions lose counts"),
    dict(id="c18-failed-total-only", file=_C, func="MaxTransactionCount.add_transaction",
         old="                self.current_failed_transaction_count += count\n", new="", expect=["R2"],
         why="failed instructions not counted in the hour"),
    dict(id="c18-reset-total", file=_C, func="MaxTransactionCount._set_next_hour",
         old="        self.current_transaction_count = 0\n",
         new="        self.current_transaction_count = 0\n        self.transaction_count = 0\n", expect=["R3"],
         why="total since start-up reset every hour"),
    dict(id="c18-safe-before-check-hour", file=_C, func="MaxTransactionCount._validate",
         old="        self._check_hour()\n        if not self.safe:",
         new="        if not self.safe:\n            self._check_hour()", expect=["R4"],
         why="first request of a new hour still refused"),
    dict(id="c18-safe-strict", file=_C, func="MaxTransactionCount.safe",
         old="elif self.current_transaction_count_total <= self.transaction_limit:",
         new="elif self.current_transaction_count_total < self.transaction_limit:", expect=["R4"],
         why="blocks one transaction early"),
    dict(id="c18-safe-no-limit-blocks", file=_C, func="MaxTransactionCount.safe",
         old="        if self.transaction_limit is None:\n            return True\n        elif",
         new="        if self.transaction_limit is None:\n            return False\n        elif", expect=["R4"],
         why="clients without a limit are blocked"),
    dict(id="c18-class-level-counter", file=_C, func=None,
         old="    NAME = \"MAX_TRANSACTION_COUNT\"\n", new="    NAME = \"MAX_TRANSACTION_COUNT\"\n    counts = {}\n",
         expect=["R5"], why="state shared between clients"),
    dict(id="c18-only-place-blocked", file=_C, func="MaxTransactionCount._validate",
         old="        if not self.safe:", new="        if not self.safe and package_type == OrderPackageType.PLACE:",
         expect=["R4"], why="cancels/replaces continue past the limit"),
    dict(id="c18-total-sum-wrong", file=_C, func="MaxTransactionCount.current_transaction_count_total",
         old="return self.current_transaction_count + self.current_failed_transaction_count",
         new="return self.current_transaction_count", expect=["R4"], why="failed instructions ignored by the limit"),
    dict(id="c18-count-not-added", file=_C, func="MaxTransactionCount.add_transaction",
         old="                self.transaction_count += count\n", new="                self.transaction_count += 1\n",
         expect=["R2"], why="packages counted as one bet"),
    dict(id="c18-no-hourly-reset", file=_C, func="MaxTransactionCount._set_next_hour",
         old="        self.current_failed_transaction_count = 0\n", new="", expect=["R4"],
         why="failed count never restarts"),
    dict(id="c18-shared-control-instance", file="flumine/baseflumine.py", func="BaseFlumine.add_client_control",
         old="client.trading_controls.append(client_control(self, client, **kwargs))",
         new="client.trading_controls.append(client_control(self, self.clients.get_default(), **kwargs))", expect=["R5"],
         why="limit of another client applied"),
    dict(id="c18-wall-clock", file=_C, func="MaxTransactionCount._check_hour",
         old="        now = datetime.datetime.utcnow()", new="        now = datetime.datetime.now()", expect=["R4"],
         why="hour boundary ignores the simulated clock"),
    dict(id="c18-decrement", file=_C, func="MaxTransactionCount.add_transaction",
         old="                self.failed_transaction_count += count\n", new="                self.failed_transaction_count -= count\n",
         expect=["R3", "R2"], why="total decreases"),
    dict(id="c18-replace-count-dropped", file="flumine/execution/simulatedexecution.py",
         func="SimulatedExecution.execute_replace",
         old="        order_package.client.add_transaction(len(order_package))\n", new="", expect=["R6"],
         why="replacement bets not counted"),
    dict(id="c18-package-filter-follows-progress", file="flumine/order/orderpackage.py", func="BaseOrderPackage.orders",
         old="return [o for o in self._orders if o.status != OrderStatus.VIOLATION]",
         new="return [o for o in self._orders if o.status not in (OrderStatus.VIOLATION, OrderStatus.EXECUTION_COMPLETE)]",
         expect=["R6"], why="orders completed in flight are not charged"),
]
