"""C02 - Refused requests change nothing; accepted requests are sent exactly once."""

import ast

from sa import AnalysisError
from sa.kinds import (key, utext, call_name, recv_text, calls_in, node_calls, get_effects,
                      loop_body_exits_early, root_name, short)
from sa.cfg import walk_calls, walk_nodes

EXPLANATION = (
    "Structural decision of C02 on the current source: (R1) in each of the four Transaction request "
    "methods no state-changing statement is reachable before the control validation has passed "
    "(CFG dominance under force=False, execute=True) and the refusal edge reaches only `return False`; "
    "(R2) a control refusal may mark only a NEW order as violation (call graph from the non-PLACE request "
    "methods to BaseOrder.violation and the guards at that site); (R3) in the request methods of the order "
    "classes and of Transaction no raise is reachable after a write; (R4) the pairing table request method "
    "<-> pending list <-> package type <-> execute() pair is the identity, every append is followed by the "
    "pending flag, packages are grouped by the tuple's version element, chunked by order_limit of the same "
    "package type, the pending list is cleared on every normal exit, execute() dispatches every package "
    "exactly once; (R5) `force` is used only to skip the validation conjunct; (R6) only the whitelisted "
    "functions may call execution.handler / process_order_package; (R7) BaseOrderPackage.orders filters "
    "exactly VIOLATION. Effects are computed by an inter-procedural summary (attribute/subscript stores and "
    "container mutators on objects reachable from parameters)."
)

REQUESTS = {
    "place_order": ("_pending_place", "PLACE"),
    "cancel_order": ("_pending_cancel", "CANCEL"),
    "update_order": ("_pending_update", "UPDATE"),
    "replace_order": ("_pending_replace", "REPLACE"),
}

# who may hand a package to the exchange layer (upper bound; reason per entry)
MAY_CALL_HANDLER = {
    "BaseFlumine.process_order_package": "live dispatch, one call per package",
    "FlumineSimulation._check_pending_packages": "simulation dispatch after latency",
    "BetfairExecution._execution_helper": "bounded retry of the same package (C12-R4)",
}
MAY_CALL_PROCESS_ORDER_PACKAGE = {
    "Transaction.execute": "the only producer of order packages",
}


def validation_wrappers(func):
    """methods of the request's class, other than _validate_controls itself, whose body calls _validate_controls
    (a request may run the controls through such a wrapper)"""
    out = {}
    if func.cls is not None:
        for m in func.cls.methods.values():
            if m.name != "_validate_controls" and any(call_name(c) == "_validate_controls" for c in walk_calls(m.node.body)):
                out[m.name] = m
    return out


def validation_node(cfg, func):
    ns = [n for n in cfg.live_nodes() if n.kind == "cond" and calls_in(n, "_validate_controls")]
    if not ns:
        wr = validation_wrappers(func)
        ns = [n for n in cfg.live_nodes() if n.kind == "cond" and any(calls_in(n, w) for w in wr)]
    if len(ns) != 1:
        raise AnalysisError("%s: expected exactly one validation test, found %d" % (func.qual, len(ns)))
    n = ns[0]
    e = n.exprs[0]
    # accepted idioms: `<call> is False` (T = refused) ; `not <call>` is expanded by the CFG so the
    # atom is the call itself (F = refused); `<call> is True` / `<call>` (T = passed)
    if isinstance(e, ast.Compare) and len(e.ops) == 1 and isinstance(e.ops[0], ast.Is) \
            and isinstance(e.comparators[0], ast.Constant):
        v = e.comparators[0].value
        if v is False:
            return n, "F", "T"
        if v is True:
            return n, "T", "F"
    if isinstance(e, ast.Compare) and len(e.ops) == 1 and isinstance(e.ops[0], ast.IsNot) \
            and isinstance(e.comparators[0], ast.Constant) and e.comparators[0].value is False:
        return n, "T", "F"
    if isinstance(e, ast.Call):
        return n, "T", "F"
    raise AnalysisError("%s: validation test idiom not understood: %s" % (func.qual, utext(e)))


def succ_of(cfg, node, label):
    for lab, m in node.succ:
        if lab == label:
            return m
    return None


def run(ctx, rep):
    prog, res = ctx.prog, ctx.res
    eff = get_effects(ctx)
    tr = prog.cls("Transaction")

    # ------------------------------------------------------------------ R1
    n_r1 = 0
    for mname, (plist, ptype) in REQUESTS.items():
        f = prog.own_method("Transaction", mname)
        cfg = ctx.cfg(f)
        try:
            vnode, pass_lab, refuse_lab = validation_node(cfg, f)
        except AnalysisError:
            # several validation tests (one per branch): the shape is not modelled, but its necessary condition is
            # decidable - unless `force` is set, nothing changes the order before SOME validation test has run
            ns_ = [n for n in cfg.live_nodes() if n.kind == "cond" and calls_in(n, "_validate_controls")]
            if len(ns_) > 1:
                from sa.kinds import resolve_local
                blocked = set()
                for x in cfg.live_nodes():
                    if x.kind != "cond":
                        continue
                    t_ = utext(x.exprs[0])
                    if t_ == "force":
                        blocked.add((x.id, "T"))
                    elif isinstance(x.exprs[0], ast.Name) and utext(resolve_local(f, x.exprs[0])) in ("not force", "force is False"):
                        blocked.add((x.id, "F"))
                for m_ in cfg.live_nodes():
                    for c_ in calls_in(m_):
                        if call_name(c_) in ("place", "cancel", "update", "replace") and recv_text(c_) == "order":
                            if not cfg.all_paths_pass(cfg.entry, m_.id, [n.id for n in ns_], blocked) and m_.id in cfg.reachable(cfg.entry, blocked_edges=blocked):
                                rep.violation("R1", key(f, c_, "the order is changed before the controls have run"), f, c_,
                                              "a refusal after this call leaves the request's effect on the order",
                                              cfg.fmt_path(cfg.path(cfg.entry, m_.id, [n.id for n in ns_], blocked) or []))
            raise
        # controls run through a wrapper: the wrapper itself must leave everything as it found it (what it
        # changes before or while the controls run is still changed when they refuse)
        for wname, wf in validation_wrappers(f).items():
            if calls_in(vnode, wname):
                own = eff.own_effects(wf, wf.node.body)
                rep.check(not own, "R1", key(f, None, "the validation wrapper %s changes nothing itself" % wname), wf,
                          own[0][0] if own else None, "; ".join(d for _, d in own[:3]))
        assume = {"force": False}
        if "execute" in f.params:
            assume["execute"] = True
        blocked = cfg.assume(assume)
        # the validation must actually be reached under the assumptions
        rep.check(vnode.id in cfg.reachable(cfg.entry, (), blocked), "R1",
                  key(f, None, "validation evaluated when not forced"), f, vnode.ast,
                  "the control validation is not evaluated for a non-forced request")
        reach_wo_pass = cfg.reachable(cfg.entry, (), blocked | {(vnode.id, pass_lab)})
        for n in cfg.live_nodes():
            if n.id == vnode.id:
                continue
            effs = eff.node_effects(f, n)
            if not effs:
                continue
            if n.id not in cfg.reachable(cfg.entry, (), blocked):
                continue
            txt = utext(n.exprs[0]) if n.exprs else n.text()
            if txt == "order.update_client(self._client)" and mname == "place_order":
                rep.ok("R1", key(f, n.exprs[0], "named exception: binds the client the controls need"),
                       f, n.exprs[0], "not among the observables the property lists")
                continue
            n_r1 += 1
            bad = n.id in reach_wo_pass
            p = None
            if bad:
                p = cfg.fmt_path(cfg.path(cfg.entry, n.id, (), blocked | {(vnode.id, pass_lab)}))
            rep.check(not bad, "R1", key(f, n.exprs[0] if n.exprs else None, "effect before validation"),
                      f, n.exprs[0] if n.exprs else n.ast,
                      "state change (%s) reachable without the validation having passed (force=False%s)" % (
                          "; ".join(d for _, d in effs), ", execute=True" if "execute" in f.params else ""),
                      p)
        # refusal edge: only `return False`
        start = succ_of(cfg, vnode, refuse_lab)
        after = cfg.reachable(start)
        okr = True
        detail = ""
        for nid in after:
            n = cfg.nodes[nid]
            if n.kind == "exit":
                continue
            if n.kind == "return" and isinstance(n.ast.value, ast.Constant) and n.ast.value.value is False:
                continue
            okr = False
            detail = "refusal edge reaches `%s` (line %s)" % (n.text(), n.lineno)
            break
        rep.check(okr, "R1", key(f, None, "refusal edge returns False and nothing else"), f, vnode.ast, detail)
    rep.floor("R1", "state-changing statements after validation in the request methods", n_r1, 6)

    # ------------------------------------------------------------------ R2
    # a refusal may only mark a NEW order: every transition that a call of BaseOrder.violation can
    # really apply (typestate analysis, guards inside the setter honoured) starts from NONE/VIOLATION
    from rules.c03 import build as build_typestate
    ts = build_typestate(ctx)
    viol = prog.own_method("BaseOrder", "violation")
    sites = res.call_sites_of(viol)
    rep.floor("R2", "call sites of BaseOrder.violation", len(sites), 1)
    nonplace = [prog.own_method("Transaction", m) for m in ("cancel_order", "update_order", "replace_order")]
    for cs in sites:
        f = cs.func
        site = ts.sites.get(id(cs.node))
        if site is None:
            raise AnalysisError("violation() call not reached by the typestate analysis: %s" % f.qual)
        bad = [t for t in site.trans if t[0] not in ("NONE", "VIOLATION")]
        for m in nonplace + [prog.own_method("Transaction", "place_order")]:
            reach = res.reachable_funcs([m])
            if not any(x is f for x in reach):
                rep.ok("R2", "%s -> %s" % (m.qual, key(f, cs.node)), f, cs.node,
                       "violation marking not reachable from this request")
                continue
            rep.check(not bad, "R2", "%s -> %s" % (m.qual, key(f, cs.node)), f, cs.node,
                      "a refused %s marks a placed order as VIOLATION: %s is reachable from %s through "
                      "_validate_controls and can apply %s" % (
                          m.name.split("_")[0], utext(cs.node), m.qual,
                          ", ".join("%s->%s" % t for t in sorted(bad))))

    # ------------------------------------------------------------------ R3
    r3_funcs = [("BetfairOrder", "cancel"), ("BetfairOrder", "update"), ("BetfairOrder", "replace"),
                ("BetdaqOrder", "cancel"), ("BetdaqOrder", "update")]
    r3 = [prog.own_method(c, m) for c, m in r3_funcs] + [prog.own_method("Transaction", m) for m in REQUESTS]
    for f in r3:
        cfg = ctx.cfg(f)
        skip = set()
        if f.cls.name == "Transaction":
            vnode, _, _ = validation_node(cfg, f)
            skip.add(vnode.id)
        raisers = [n for n in cfg.live_nodes()
                   if n.kind == "raise" or any(lab == "exc" for lab, _ in n.succ)]
        bad = None
        for n in cfg.live_nodes():
            if n.id in skip:
                continue
            effs = eff.node_effects(f, n)
            if not effs:
                continue
            if n.exprs and utext(n.exprs[0]) == "order.update_client(self._client)":
                continue
            r = cfg.reachable(n.id, include_src=False)
            for x in raisers:
                if x.id in r and x.id not in skip and x.kind in ("raise",):
                    bad = (n, x)
                    break
                if x.id in r and x.id not in skip and x.kind != "raise" and x.kind not in ("with_exit", "join"):
                    # a later call that may raise (resolved summaries): count as raise after write
                    bad = (n, x)
                    break
            if bad:
                break
        if bad:
            n, x = bad
            rep.violation("R3", key(f, x.exprs[0] if x.exprs else x.ast, "raise after write"), f,
                          x.ast, "`%s` (line %s) can raise after `%s` (line %s) has already changed state" % (
                              x.text(), x.lineno, n.text(), n.lineno),
                          cfg.fmt_path(cfg.path(n.id, x.id)))
        else:
            rep.ok("R3", key(f, None, "no raise after a write"), f)

    # ------------------------------------------------------------------ R4
    _r4(ctx, rep, eff)

    # ------------------------------------------------------------------ R5
    for mname in REQUESTS:
        f = prog.own_method("Transaction", mname)
        cfg = ctx.cfg(f)
        vnode, pass_lab, refuse_lab = validation_node(cfg, f)
        loads = [n for n in walk_nodes(f.node.body, ast.Name) if n.id == "force"]
        conds = [n for n in cfg.live_nodes() if n.kind == "cond" and isinstance(n.exprs[0], ast.Name)
                 and n.exprs[0].id == "force"]
        good = len(loads) == len(conds) == 1
        if good:
            c = conds[0]
            good = succ_of(cfg, c, "F") == vnode.id and succ_of(cfg, c, "T") == succ_of(cfg, vnode, pass_lab)
        rep.check(good, "R5", key(f, None, "force skips the validation and nothing else"), f, None,
                  "`force` must only short-circuit the control validation (uses of force: %d)" % len(loads))
    for mname in REQUESTS:
        f = prog.own_method("Market", mname)
        calls = [c for c in walk_calls(f.node.body) if call_name(c) == mname]
        good = False
        tf = prog.own_method("Transaction", mname)
        for c in calls:
            idx = tf.params.index("force") - 1
            a = None
            if len(c.args) > idx:
                a = c.args[idx]
            for kw in c.keywords:
                if kw.arg == "force":
                    a = kw.value
            good = isinstance(a, ast.Name) and a.id == "force"
        rep.check(good, "R5", key(f, None, "forwards force to the transaction"), f)

    # ------------------------------------------------------------------ R6
    handlers = [m for m in res._by_name("handler")
                if m.cls is not None and m.cls.is_subclass_of("BaseExecution")]
    rep.floor("R6", "execution handler implementations", len(handlers), 2)
    seen_callers = set()
    for h in handlers:
        for cs in res.call_sites_of(h):
            seen_callers.add(cs.func.qual)
            rep.check(cs.func.qual in MAY_CALL_HANDLER, "R6", "caller of execution.handler: " + key(cs.func, cs.node),
                      cs.func, cs.node, "only %s may hand a package to the execution layer" % sorted(MAY_CALL_HANDLER))
    # any unresolved `.handler(` call must not be ignored
    for f in prog.all_functions():
        for c in walk_calls(f.node.body):
            if call_name(c) == "handler" and isinstance(c.func, ast.Attribute):
                cs = res.site(c)
                if cs is None or not cs.callees:
                    raise AnalysisError("unresolved call of a restricted name: %s in %s" % (utext(c), f.qual))
    rep.floor("R6", "callers of execution.handler", len(seen_callers), 3)
    pops = [m for m in res._by_name("process_order_package")]
    rep.floor("R6", "process_order_package implementations", len(pops), 2)
    ncall = 0
    for p in pops:
        for cs in res.call_sites_of(p):
            ncall += 1
            rep.check(cs.func.qual in MAY_CALL_PROCESS_ORDER_PACKAGE, "R6",
                      "caller of process_order_package: " + key(cs.func, cs.node), cs.func, cs.node,
                      "only Transaction.execute may dispatch packages")
    rep.floor("R6", "callers of process_order_package", ncall, 1)
    # the simulation override only enqueues
    fs = prog.own_method("FlumineSimulation", "process_order_package")
    body = [s for s in fs.node.body if not (isinstance(s, ast.Expr) and isinstance(s.value, ast.Constant))]
    good = (len(body) == 1 and isinstance(body[0], ast.Expr) and isinstance(body[0].value, ast.Call)
            and utext(body[0].value.func) == "self.handler_queue.append"
            and len(body[0].value.args) == 1 and utext(body[0].value.args[0]) == fs.params[1])
    rep.check(good, "R6", key(fs, None, "simulation dispatch only enqueues the package once"), fs)

    # ------------------------------------------------------------------ R7
    _r7(ctx, rep)


def _restricts_to_new_order(text, pol):
    t = text.replace(" ", "")
    if pol and t in ("package_type==OrderPackageType.PLACE", "order.statusisNone", "order.status==None",
                     "order.bet_idisNone"):
        return True
    if not pol and t in ("package_type!=OrderPackageType.PLACE", "order.statusisnotNone", "order.status",
                         "order.bet_id"):
        return True
    return False


def _r4(ctx, rep, eff):
    prog = ctx.prog
    # (a) pairing table
    table = {}
    for mname, (plist, ptype) in REQUESTS.items():
        f = prog.own_method("Transaction", mname)
        cfg = ctx.cfg(f)
        appends = [(n, c) for n in cfg.live_nodes() for c in calls_in(n, "append")
                   if (recv_text(c) or "").startswith("self._pending_")]
        vcalls = [c for c in walk_calls(f.node.body) if call_name(c) == "_validate_controls"]
        if len(vcalls) != 1:
            raise AnalysisError("%s: expected one validation call" % f.qual)
        if not rep.check(len(appends) == 1, "R4a", key(f, None, "request queued exactly once"), f, None,
                         "%d appends to a pending list: %s" % (len(appends), [utext(c) for _, c in appends])):
            continue
        n, c = appends[0]
        lst = recv_text(c)[len("self."):]
        vt = utext(vcalls[0].args[1]) if len(vcalls[0].args) > 1 else None
        table[mname] = (lst, vt)
        want = (plist, "OrderPackageType." + ptype)
        rep.check((lst, vt) == want, "R4a", key(f, None, "request -> pending list -> validated type"), f, c,
                  "got %s, the identity pairing is %s" % ((lst, vt), want))
        # element shape (order, version)
        a = c.args[0] if c.args else None
        shape = isinstance(a, ast.Tuple) and len(a.elts) == 2 and utext(a.elts[0]) == "order"
        rep.check(shape, "R4a", key(f, c, "queued element is (order, version)"), f, c)
        if shape and mname in ("place_order", "replace_order"):
            rep.check(utext(a.elts[1]) == "market_version", "R4a",
                      key(f, None, "queued with the caller's market_version"), f, c)
        # (b) append followed by the pending flag on every normal path
        flags = [x for x in cfg.live_nodes() if x.kind == "stmt" and isinstance(x.ast, ast.Assign)
                 and utext(x.ast.targets[0]) == "self._pending_orders"
                 and isinstance(x.ast.value, ast.Constant) and x.ast.value.value is True]
        good = bool(flags) and cfg.all_paths_pass(n.id, cfg.exit, [x.id for x in flags])
        rep.check(good, "R4b", key(f, None, "append is followed by self._pending_orders = True"), f, c,
                  "a queued request without the pending flag is never executed on __exit__")
    ex = prog.own_method("Transaction", "execute")
    cfg = ctx.cfg(ex)
    pairs = []
    for n in cfg.live_nodes():
        for c in calls_in(n, "_create_order_package"):
            if len(c.args) < 2:
                raise AnalysisError("execute(): _create_order_package call shape not understood")
            lst, pt = utext(c.args[0]), utext(c.args[1])
            # table-driven form: `for pending, package_type, .. in ((self._pending_place, PLACE, ..), ..)`: the pairs
            # are the rows of the table (a literal tuple / list of tuples, directly or through one local)
            rows = None
            for lp_ in walk_nodes(ex.node.body, ast.For):
                if c in walk_calls(lp_.body) and isinstance(lp_.target, ast.Tuple):
                    names_ = [utext(e_) for e_ in lp_.target.elts]
                    if lst in names_ and pt in names_:
                        from sa.kinds import resolve_local
                        it_ = resolve_local(ex, lp_.iter)
                        if isinstance(it_, (ast.Tuple, ast.List)) and it_.elts and all(
                                isinstance(r_, (ast.Tuple, ast.List)) and len(r_.elts) == len(names_) for r_ in it_.elts):
                            i_, j_ = names_.index(lst), names_.index(pt)
                            rows = [(utext(r_.elts[i_]), utext(r_.elts[j_])) for r_ in it_.elts]
            if rows is not None:
                pairs.extend(rows)
            else:
                pairs.append((lst, pt))
            guards = [utext(g.exprs[0]) for g, pol in cfg.guards(n.id) if pol]
            rep.check(lst in guards, "R4a", key(ex, c, "guarded by its own list"), ex, c,
                      "guards: %s" % guards)
            # the result must be kept
            kept = isinstance(n.ast, (ast.AugAssign, ast.Assign))
            rep.check(kept, "R4a", key(ex, c, "created packages are collected"), ex, c)
    want_pairs = sorted(("self." + l, "OrderPackageType." + t) for l, t in REQUESTS.values())
    rep.check(sorted(pairs) == want_pairs, "R4a", key(ex, None, "execute() pairs every pending list with its type"),
              ex, None, "got %s" % sorted(pairs))
    # (d) dispatch loop
    loops = [s for s in walk_nodes(ex.node.body, ast.For)
             if any(call_name(c) == "process_order_package" for c in walk_calls(s.body))]
    good = len(loops) == 1
    if good:
        lp = loops[0]
        calls = [c for c in walk_calls(lp.body) if call_name(c) == "process_order_package"]
        good = (len(calls) == 1 and not loop_body_exits_early(lp)
                and not walk_nodes(lp.body, (ast.Continue, ast.Try))
                and not [x for x in walk_nodes(lp.body, ast.If) if calls[0] in walk_calls(x.body + x.orelse)]
                and isinstance(lp.target, ast.Name) and utext(calls[0].args[0]) == lp.target.id
                and utext(lp.iter) == "packages")
    allcalls = [c for c in walk_calls(ex.node.body) if call_name(c) == "process_order_package"]
    rep.check(good and len(allcalls) == 1, "R4d", key(ex, None, "one unconditional dispatch per created package"), ex,
              None, "loops=%d calls=%d" % (len(loops), len(allcalls)))
    # __exit__ executes when pending
    exf = prog.own_method("Transaction", "__exit__")
    cfg = ctx.cfg(exf)
    ecalls = node_calls(cfg, "execute")
    good = len(ecalls) == 1
    if good:
        n, c = ecalls[0]
        gs = [(utext(g.exprs[0]), pol) for g, pol in cfg.guards(n.id)]
        good = gs == [("self._pending_orders", True)]
    rep.check(good, "R4b", key(exf, None, "__exit__ executes exactly when something is pending"), exf)
    en = prog.own_method("Transaction", "__enter__")
    rep.check(len(en.node.body) == 1 and isinstance(en.node.body[0], ast.Return)
              and utext(en.node.body[0].value) == "self", "R4b", key(en, None, "__enter__ returns the transaction"), en)
    # Market wrappers use the transaction as a context manager
    for mname in REQUESTS:
        f = prog.own_method("Market", mname)
        withs = walk_nodes(f.node.body, ast.With)
        good = len(withs) == 1 and call_name(withs[0].items[0].context_expr) == "transaction" \
            and any(call_name(c) == mname for c in walk_calls(withs[0].body))
        rep.check(good, "R4b", key(f, None, "runs inside `with self.transaction(...)`"), f)

    # (c) _create_order_package
    f = prog.own_method("Transaction", "_create_order_package")
    cfg = ctx.cfg(f)
    orders_p, ptype_p = f.params[1], f.params[2]
    # grouping loop
    grp = None
    for lp in walk_nodes(f.node.body, ast.For):
        if utext(lp.iter) == orders_p:
            grp = lp
    if grp is None:
        from sa.kinds import unsorted_groupby
        ug = unsorted_groupby(f.node)
        if ug:
            rep.violation("R4c", key(f, None, "grouped by the version element, order kept"), f, ug[0],
                          "itertools.groupby over the pending list as queued: it merges only consecutive equal versions, so a "
                          "version that appears in two runs overwrites / splits its group and accepted requests are dropped")
            return
        raise AnalysisError("_create_order_package: grouping loop over the pending list not found")
    body = [utext(s) for s in grp.body]
    gdict = None
    good = False
    from sa.kinds import sbody
    # the pending entries are (order, version) pairs: named by index or by unpacking
    if isinstance(grp.target, ast.Tuple) and len(grp.target.elts) == 2:
        first, second = utext(grp.target.elts[0]), utext(grp.target.elts[1])
    else:
        first, second = "%s[0]" % utext(grp.target), "%s[1]" % utext(grp.target)
    if len(sbody(grp.body)) == 1:
        s = sbody(grp.body)[0]
        if isinstance(s, ast.Expr) and isinstance(s.value, ast.Call) and call_name(s.value) == "append" and len(s.value.args) == 1:
            r = s.value.func.value
            k_ = None
            if isinstance(r, ast.Subscript):                      # D[version].append(order), D a defaultdict(list)
                k_, d_ = utext(r.slice), utext(r.value)
            elif isinstance(r, ast.Call) and call_name(r) == "setdefault" and len(r.args) == 2 and utext(r.args[1]) == "[]":
                k_, d_ = utext(r.args[0]), recv_text(r)           # D.setdefault(version, []).append(order)
            if k_ == second and utext(s.value.args[0]) == first:
                gdict = d_
                good = True
    rep.check(good, "R4c", key(f, None, "grouped by the version element, order kept"), f, grp,
              "grouping statement: %s" % body)
    # package construction
    pk = None
    for c in walk_calls(f.node.body):
        kws = {k.arg: k.value for k in c.keywords}
        if "package_type" in kws and "orders" in kws:
            pk = (c, kws)
    if pk is None:
        raise AnalysisError("_create_order_package: package construction not found")
    c, kws = pk
    from sa.kinds import enclosing_iterations
    its = enclosing_iterations(f.node, c)
    outer = [it for it in its if call_name(it[1]) == "items" and recv_text(it[1]) == gdict]
    inner = [it for it in its if isinstance(it[1], ast.Call) and call_name(it[1]) == "chunks"]
    good = len(outer) == 1 and len(inner) == 1 and len(its) == 2 and its[0] is outer[0] and not outer[0][2] and not inner[0][2]
    detail = ""
    if good:
        class _It:  # the two iterations, whichever way they are written
            def __init__(self, t):
                self.target, self.iter, self.carrier = t[0], t[1], t[3]
        o, i = _It(outer[0]), _It(inner[0])
        kv = [utext(e) for e in o.target.elts] if isinstance(o.target, ast.Tuple) else []
        good = (len(kv) == 2 and utext(kws.get("market_version")) == kv[0]
                and utext(i.iter.args[0]) == kv[1] and utext(kws["orders"]) == utext(i.target)
                and utext(kws["package_type"]) == ptype_p)
        detail = "market_version=%s orders=%s package_type=%s" % (
            utext(kws.get("market_version")) if kws.get("market_version") else None, utext(kws["orders"]),
            utext(kws["package_type"]))
        # chunk size flows from order_limit(package_type)
        lim = utext(i.iter.args[1]) if len(i.iter.args) > 1 else None
        src = None

        def lowers_only(v):
            # `limit = min(limit, x)`: the chunk size can only get smaller than the exchange's limit
            return isinstance(v, ast.Call) and call_name(v) == "min" and isinstance(v.func, ast.Name) and \
                any(utext(a) == lim for a in v.args)
        from sa.kinds import guard_pairs, holds

        def lowering_stores():
            # `if x < limit: limit = x`: the same thing as `limit = min(limit, x)`, written as a guarded store
            out = set()
            for n in cfg.live_nodes():
                for e in n.exprs:
                    if isinstance(e, ast.Assign) and utext(e.targets[0]) == lim:
                        gs = guard_pairs(cfg, n.id)
                        v = utext(e.value)
                        if holds(gs, "%s < %s" % (v, lim)) or holds(gs, "%s <= %s" % (v, lim)):
                            out.add(id(e))
            return out
        lowering = lowering_stores() if lim else set()
        for s in walk_nodes(f.node.body, ast.Assign):
            if utext(s.targets[0]) == lim and not lowers_only(s.value) and id(s) not in lowering:
                src = s.value
        flow = (isinstance(src, ast.Call) and call_name(src) == "order_limit"
                and len(src.args) == 1 and utext(src.args[0]) == ptype_p)
        if isinstance(i.iter.args[1], ast.Call):
            s2 = i.iter.args[1]
            flow = call_name(s2) == "order_limit" and utext(s2.args[0]) == ptype_p
        rep.check(flow, "R4c", key(f, None, "chunk size is order_limit(package_type)"), f, i.carrier,
                  "chunk size expression: %s" % (utext(src) if src is not None else lim))
        nrebind = [s for s in walk_nodes(f.node.body, (ast.Assign, ast.AugAssign))
                   if any(utext(t) == lim for t in (s.targets if isinstance(s, ast.Assign) else [s.target]))
                   and not (isinstance(s, ast.Assign) and (lowers_only(s.value) or id(s) in lowering))]
        rep.check(len(nrebind) <= 1, "R4c", key(f, None, "chunk size not rebound"), f)
    rep.check(good, "R4c", key(f, None, "one package per (version, chunk) with that version and type"), f, c, detail)
    # clear on every normal exit, parameter not rebound, no reordering
    clears = [n for n, cc in node_calls(cfg, "clear") if recv_text(cc) == orders_p]
    good = bool(clears) and cfg.all_paths_pass(cfg.entry, cfg.exit, [n.id for n in clears])
    rebind = [s for s in walk_nodes(f.node.body, (ast.Assign, ast.AugAssign))
              if any(utext(t) == orders_p for t in (s.targets if isinstance(s, ast.Assign) else [s.target]))]
    rep.check(good and not rebind, "R4c", key(f, None, "pending list cleared on every normal exit"), f, None,
              "a list that is not cleared is sent again by the next execute()")
    reorder = [cc for cc in walk_calls(f.node.body)
               if call_name(cc) in ("sorted", "reversed", "sort", "reverse", "shuffle", "set")]
    rep.check(not reorder, "R4c", key(f, None, "request order preserved (no reordering call)"), f)
    # (e) order_limit tables and chunks
    bf = prog.own_method("BetfairOrderPackage", "order_limit")
    tab = _dispatch_table(bf, bf.params[1])
    want = {"OrderPackageType.PLACE": "order_limits['placeOrders']",
            "OrderPackageType.CANCEL": "order_limits['cancelOrders']",
            "OrderPackageType.UPDATE": "order_limits['updateOrders']",
            "OrderPackageType.REPLACE": "order_limits['replaceOrders']"}
    rep.check(tab == want, "R4e", key(bf, None, "Betfair per-call limits keyed by the matching API operation"), bf,
              None, "table: %s" % tab)
    published = _published_limits()
    if published is not None:
        rep.check(published == {"placeOrders": 200, "cancelOrders": 60, "updateOrders": 60, "replaceOrders": 60},
                  "R4e", "betfairlightweight.metadata.order_limits == published 200/60/60/60", None, None,
                  "got %s" % published)
    else:
        rep.remark("R4e", "betfairlightweight.metadata not found on disk; published limits not cross-checked")
    bd = prog.own_method("BetdaqOrderPackage", "order_limit")
    tabd = _dispatch_table(bd, bd.params[1])
    goodd = all(k in tabd and tabd[k].isdigit() and int(tabd[k]) > 0
                for k in ("OrderPackageType.PLACE", "OrderPackageType.CANCEL", "OrderPackageType.UPDATE"))
    rep.check(goodd, "R4e", key(bd, None, "Betdaq limits are positive constants for place/cancel/update"), bd, None,
              "table: %s" % tabd)
    ch = prog.func("utils.chunks")
    src = utext(ch.node)
    lp = [s for s in walk_nodes(ch.node.body, ast.For)]
    good = False
    if len(lp) == 1:
        l_, n_ = ch.params[0], ch.params[1]
        it = utext(lp[0].iter)
        ys = walk_nodes(lp[0].body, ast.Yield)
        iv = utext(lp[0].target)
        good = (it == "range(0, len(%s), %s)" % (l_, n_) and len(ys) == 1
                and utext(ys[0].value) in ("%s[%s:%s + %s]" % (l_, iv, iv, n_),))
    rep.check(good, "R4e", key(ch, None, "chunks yields consecutive slices [i:i+n] over range(0,len,n)"), ch)


def _dispatch_table(func, param):
    """{compared constant text: returned expression text} of an if/elif chain `param == X: return Y`."""
    tab = {}
    for s in walk_nodes(func.node.body, ast.If):
        from sa.astutil import canon
        t = canon(s.test)
        if isinstance(t, ast.Compare) and len(t.ops) == 1 and isinstance(t.ops[0], ast.Eq) \
                and utext(t.left) == param and len(s.body) == 1 and isinstance(s.body[0], ast.Return):
            tab[utext(t.comparators[0])] = utext(s.body[0].value)
    return tab


def _published_limits():
    import glob
    for p in glob.glob("/venv/lib/python3*/site-packages/betfairlightweight/metadata.py"):
        try:
            tree = ast.parse(open(p).read())
        except Exception:
            return None
        for s in tree.body:
            if isinstance(s, ast.Assign) and utext(s.targets[0]) == "order_limits":
                try:
                    return ast.literal_eval(s.value)
                except Exception:
                    return None
    return None


def _r7(ctx, rep, R="R7"):
    prog = ctx.prog
    f = prog.own_method("BaseOrderPackage", "orders")
    body = [s for s in f.node.body if not (isinstance(s, ast.Expr) and isinstance(s.value, ast.Constant))]
    good = False
    detail = ""
    if len(body) == 1 and isinstance(body[0], ast.Return) and isinstance(body[0].value, ast.ListComp):
        lc = body[0].value
        g = lc.generators[0]
        conds = [utext(c) for c in g.ifs]
        v = utext(g.target)
        good = (len(lc.generators) == 1 and utext(lc.elt) == v and utext(g.iter) == "self._orders"
                and conds in (["%s.status != OrderStatus.VIOLATION" % v],
                              ["OrderStatus.VIOLATION != %s.status" % v],
                              ["not %s.status == OrderStatus.VIOLATION" % v]))
        detail = "filter: %s over %s" % (conds, utext(g.iter))
    else:
        raise AnalysisError("BaseOrderPackage.orders: shape not understood (expected one list comprehension)")
    rep.check(good, R, key(f, None, "orders drops exactly the VIOLATION orders, order preserved"), f, None, detail)
    it = prog.own_method("BaseOrderPackage", "__iter__")
    ln = prog.own_method("BaseOrderPackage", "__len__")
    rep.check(utext(it.node.body[-1]) == "return iter(self.orders)", R,
              key(it, None, "iteration goes through the filter"), it)
    rep.check(utext(ln.node.body[-1]) == "return len(self.orders)", R,
              key(ln, None, "length goes through the filter"), ln)
    # no subclass overrides the filter
    for sc in prog.cls("BaseOrderPackage").all_subclasses():
        for nm in ("orders", "__iter__", "__len__"):
            rep.check(nm not in sc.methods, R, "%s does not override %s" % (sc.name, nm), None, None)


_T = "flumine/execution/transaction.py"
MUTANTS = [
    dict(id="c02-append-before-validate", file=_T, func="Transaction.cancel_order",
         old="        if (\n            not force\n            and self._validate_controls(order, OrderPackageType.CANCEL) is False",
         new="        self._pending_cancel.append((order, None))\n        if (\n            not force\n            and self._validate_controls(order, OrderPackageType.CANCEL) is False",
         expect=["R1", "R4"], why="queue the cancel before the controls ran"),
    dict(id="c02-place-before-validate", file=_T, func="Transaction.place_order",
         old="        order.update_client(self._client)\n",
         new="        order.update_client(self._client)\n        order.place(self.market.market_book.publish_time, market_version, self._async_place_orders)\n",
         expect=["R1"], why="order set PENDING before validation"),
    dict(id="c02-drop-pending-flag", file=_T, func="Transaction.replace_order",
         old="        self._pending_orders = True\n", new="", expect=["R4b"],
         why="replace queued but never executed on __exit__"),
    dict(id="c02-drop-clear", file=_T, func="Transaction._create_order_package",
         old="        orders.clear()\n", new="", expect=["R4c"], why="pending list sent again by the next execute()"),
    dict(id="c02-wrong-type-in-execute", file=_T, func="Transaction.execute",
         old="                self._pending_update,\n                OrderPackageType.UPDATE,",
         new="                self._pending_update,\n                OrderPackageType.REPLACE,",
         expect=["R4a"], why="updates sent as replace package"),
    dict(id="c02-force-skips-order-guard", file=_T, func="Transaction.cancel_order",
         old="        order.cancel(size_reduction)\n",
         new="        if not force:\n            order.cancel(size_reduction)\n", expect=["R5"],
         why="force must skip controls only"),
    dict(id="c02-drop-violation-filter", file="flumine/order/orderpackage.py", func="BaseOrderPackage.orders",
         old="return [o for o in self._orders if o.status != OrderStatus.VIOLATION]",
         new="return [o for o in self._orders]", expect=["R7"], why="refused orders would be sent"),
    dict(id="c02-dispatch-twice", file=_T, func="Transaction.execute",
         old="                self.market.flumine.process_order_package(package)\n",
         new="                self.market.flumine.process_order_package(package)\n                self.market.flumine.process_order_package(package)\n",
         expect=["R4d"], why="every package sent twice"),
    dict(id="c02-chunk-constant", file=_T, func="Transaction._create_order_package",
         old="limit = package.order_limit(package_type)", new="limit = 200", expect=["R4c"],
         why="per-call limit ignored for cancel/update/replace"),
    dict(id="c02-limit-wrong-type", file=_T, func="Transaction._create_order_package",
         old="limit = package.order_limit(package_type)", new="limit = package.order_limit(OrderPackageType.PLACE)",
         expect=["R4c"], why="200 used for every kind"),
    dict(id="c02-version-dropped", file=_T, func="Transaction._create_order_package",
         old="market_version=market_version,", new="market_version=None,", expect=["R4c"],
         why="package loses its market version"),
    dict(id="c02-group-by-constant", file=_T, func="Transaction._create_order_package",
         old="orders_grouped[o[1]].append(o[0])", new="orders_grouped[None].append(o[0])", expect=["R4c"],
         why="orders of different versions share a package"),
    dict(id="c02-raise-after-place", file=_T, func="Transaction.place_order",
         old="        self.market.blotter[order.id] = order\n",
         new="        if order.trade is None:\n            raise OrderError('no trade')\n        self.market.blotter[order.id] = order\n",
         expect=["R3"], why="raise after the order was set PENDING"),
    dict(id="c02-sim-dispatch-immediately", file="flumine/simulation/simulation.py",
         func="FlumineSimulation.process_order_package",
         old="        self.handler_queue.append(order_package)\n",
         new="        self.handler_queue.append(order_package)\n        order_package.client.execution.handler(order_package)\n",
         expect=["R6"], why="package executed twice / immediately"),
    dict(id="c02-betfair-limit-swap", file="flumine/order/orderpackage.py", func="BetfairOrderPackage.order_limit",
         old='return order_limits["cancelOrders"]', new='return order_limits["placeOrders"]', expect=["R4e"],
         why="200 cancels per call"),
    dict(id="c02-extra-sender", file="flumine/markets/market.py", func="Market.cancel_order",
         old="        with self.transaction(client=order.client) as t:\n            return t.cancel_order(order, size_reduction, force)",
         new="        with self.transaction(client=order.client) as t:\n            r = t.cancel_order(order, size_reduction, force)\n        self.flumine.process_order_package(None)\n        return r",
         expect=["R6", "R4b"], why="a second dispatcher"),
    dict(id="c02-refusal-edge-continues", file=_T, func="Transaction.update_order",
         old="            and self._validate_controls(order, OrderPackageType.UPDATE) is False\n        ):\n            return False",
         new="            and self._validate_controls(order, OrderPackageType.UPDATE) is False\n        ):\n            pass",
         expect=["R1"], why="refused update goes ahead"),
]
