"""C15 - Blotter views are coherent with the orders placed."""

import ast

from sa import AnalysisError
from sa.kinds import (key, utext, call_name, recv_text, calls_in, node_calls, all_stores,
                      all_mutator_calls, store_targets, MUTATORS)
from sa.cfg import walk_calls, walk_nodes

EXPLANATION = (
    "Structural decision of C15: (R1) every container created in Blotter.__init__ is written unconditionally "
    "in __setitem__ with the key its reader uses (writer/reader key agreement per view) and the same order "
    "object is stored under every key; (R2) nothing else in the package writes these containers except "
    "complete_order (live list removal); (R3) every insertion site stores the order under order.id and is "
    "preceded on every path by an absence test for that key (in the function, or - for adoption - a lookup "
    "miss at every call site); (R4) at every complete_order(x) call the typestate analysis proves x complete, "
    "and in the stream processors the call is guarded by membership of the live list; (R5) the four filtered "
    "accessors apply textually identical status / matched-only filters; (R6) replacement and adopted orders "
    "get their bet id before the insert that fills the bet-id index; Markets.get_order/get_order_from_bet_id "
    "return the blotter's own objects. Finality of completion (no re-opening after removal from the live "
    "list) is C03-R2."
)

# view -> (container, writer key expression (order.* / customer_order_ref), reader method, reader key)
VIEWS = {
    "_orders": ("customer_order_ref", "__getitem__", "customer_order_ref"),
    "_bet_id_lookup": ("order.bet_id", "get_order_bet_id", "bet_id"),
    "_trade_lookup": ("order.trade.id", "get_trade", "trade_id"),
    "_trades": ("order.trade", "has_trade", "trade"),
    "_strategy_orders": ("order.trade.strategy", "strategy_orders", "strategy"),
    "_strategy_selection_orders": ("(order.trade.strategy, order.selection_id, order.handicap)",
                                   "strategy_selection_orders", "(strategy, selection_id, handicap)"),
    "_client_orders": ("order.client", "client_orders", "client"),
    "_client_strategy_orders": ("(order.client, order.trade.strategy)", "client_strategy_orders",
                                "(client, strategy)"),
    "_live_orders": (None, "live_orders", None),
}


def _containers(init):
    out = []
    for s in walk_nodes(init.node.body, ast.Assign):
        t = s.targets[0]
        if isinstance(t, ast.Attribute) and utext(t.value) == "self":
            v = s.value
            if isinstance(v, (ast.Dict, ast.List)) or (isinstance(v, ast.Call) and call_name(v) in (
                    "defaultdict", "dict", "list", "set", "OrderedDict")):
                out.append(t.attr)
    return out


def _subst(expr_text, env):
    """inline local aliases (strategy = order.trade.strategy ...) in a key expression"""
    tree = ast.parse(expr_text, mode="eval")

    class T(ast.NodeTransformer):
        def visit_Name(self, n):
            if n.id in env:
                return ast.parse(env[n.id], mode="eval").body
            return n

    return utext(T().visit(tree))


def run(ctx, rep):
    prog, res = ctx.prog, ctx.res
    from rules.c03 import build as build_typestate
    ts = build_typestate(ctx)
    bl = prog.cls("Blotter")
    init = prog.own_method("Blotter", "__init__")
    setitem = prog.own_method("Blotter", "__setitem__")
    conts = _containers(init)
    rep.floor("R1", "containers created in Blotter.__init__", len(conts), 9)

    # ------------------------------------------------------------------ R1
    cfg = ctx.cfg(setitem)
    kparam, oparam = setitem.params[1], setitem.params[2]
    env = {}
    for s in walk_nodes(setitem.node.body, ast.Assign):
        if isinstance(s.targets[0], ast.Name):
            env[s.targets[0].id] = _subst(utext(s.value), env)
    writes = {}
    for n in cfg.live_nodes():
        if n.kind != "stmt":
            continue
        for t, kind in store_targets(n.ast):
            if isinstance(t, ast.Subscript) and isinstance(t.value, ast.Attribute) and utext(t.value.value) == "self":
                writes[t.value.attr] = (n, _subst(utext(t.slice), env), _subst(utext(n.ast.value), env), "set")
        for c in calls_in(n, "append"):
            r = c.func.value
            if isinstance(r, ast.Attribute) and utext(r.value) == "self":
                writes[r.attr] = (n, None, _subst(utext(c.args[0]), env), "append")
            elif isinstance(r, ast.Subscript) and isinstance(r.value, ast.Attribute) and utext(r.value.value) == "self":
                writes[r.value.attr] = (n, _subst(utext(r.slice), env), _subst(utext(c.args[0]), env), "append")
    for cname in list(conts):
        if cname not in VIEWS:
            # a container the checker does not know: it matters here only if orders are put into it
            holds_orders = False
            for f2 in bl.methods.values():
                for st2 in walk_nodes(f2.node.body, (ast.Assign, ast.AugAssign)):
                    for t2, k2 in store_targets(st2):
                        r2 = t2
                        while isinstance(r2, ast.Subscript):
                            r2 = r2.value
                        if isinstance(r2, ast.Attribute) and r2.attr == cname and t2 is not r2 and \
                                any(isinstance(x, ast.Name) and x.id in ("order", oparam) for x in ast.walk(st2.value)):
                            holds_orders = True
                for c2 in walk_calls(f2.node.body):
                    if isinstance(c2.func, ast.Attribute) and c2.func.attr in ("append", "add", "insert", "extend", "setdefault"):
                        r2 = c2.func.value
                        while isinstance(r2, ast.Subscript):
                            r2 = r2.value
                        if isinstance(r2, ast.Attribute) and r2.attr == cname and \
                                any(isinstance(x, ast.Name) and x.id in ("order", oparam) for a2 in c2.args for x in ast.walk(a2)):
                            holds_orders = True
            if holds_orders:
                raise AnalysisError("Blotter container %s holds orders but is not in the view table of the checker" % cname)
            rep.remark("R1", "Blotter.%s is not an order view (no order is stored in it): not part of the coherence check" % cname, init)
            conts.remove(cname)
            continue
        wkey, reader, rkey = VIEWS[cname]
        w = writes.get(cname)
        if not rep.check(w is not None, "R1", "Blotter.__setitem__ populates %s" % cname, setitem, None,
                         "an order missing from this view is invisible to its accessor"):
            continue
        n, k, v, how = w
        uncond = cfg.all_paths_pass(cfg.entry, cfg.exit, [n.id]) and cfg.unconditional(n.id)
        rep.check(uncond, "R1", "Blotter.__setitem__ writes %s unconditionally" % cname, setitem, n.ast)
        want_k = wkey.replace("order.", oparam + ".").replace("customer_order_ref", kparam) if wkey else None
        if wkey is not None:
            rep.check(k == want_k, "R1", "Blotter.__setitem__ key of %s" % cname, setitem, n.ast,
                      "key %s, expected %s" % (k, want_k))
        want_v = oparam + ".trade" if cname == "_trade_lookup" else oparam
        rep.check(v == want_v, "R1", "Blotter.__setitem__ value stored in %s" % cname, setitem, n.ast,
                  "stores %s, expected %s" % (v, want_v))
        # reader key agreement
        rf = bl.methods.get(reader)
        if rf is None:
            raise AnalysisError("Blotter.%s (reader of %s) not found" % (reader, cname))
        if rkey is not None:
            reads = [x for x in walk_nodes(rf.node.body, (ast.Subscript, ast.Call, ast.Compare))]
            found = False
            for x in reads:
                if isinstance(x, ast.Subscript) and utext(x.value) == "self." + cname and utext(x.slice) == rkey:
                    found = True
                if isinstance(x, ast.Call) and call_name(x) == "get" and recv_text(x) == "self." + cname \
                        and utext(x.args[0]) == rkey:
                    found = True
                if isinstance(x, ast.Compare) and utext(x.comparators[0]) == "self." + cname \
                        and utext(x.left) == rkey:
                    found = True
            rep.check(found, "R1", "Blotter.%s reads %s with key %s" % (reader, cname, rkey), rf, None,
                      "writer key: %s" % wkey)
            # writer/reader tuple shapes agree (component-wise, modulo the `order.` / `.trade.` prefixes)
            def comps(t):
                t = t.strip()
                if t.startswith("("):
                    return [c.strip().split(".")[-1] for c in t[1:-1].split(",")]
                return [t.split(".")[-1]]
            wc, rc = comps(wkey), comps(rkey)
            norm = {"customer_order_ref": "id", "trade_id": "id", "bet_id": "bet_id"}
            rep.check([norm.get(a, a) for a in wc] == [norm.get(a, a) for a in rc] or (wc, rc) in (
                (["customer_order_ref"], ["customer_order_ref"]),), "R1",
                "writer and reader key of %s have the same components" % cname, rf, None, "%s vs %s" % (wc, rc))
    rep.check(set(writes) >= set(conts), "R1", "every container of __init__ is written on insert", setitem, None,
              "missing: %s" % sorted(set(conts) - set(writes)))
    act = [n for n in cfg.live_nodes() if n.kind == "stmt" and utext(n.ast) == "self.active = True"]
    rep.check(bool(act), "R1", "insert marks the blotter active", setitem)

    # ------------------------------------------------------------------ R2 who may write
    n_w = 0
    for cname in conts:
        for f, s, t, kind in all_stores(prog, cname):
            bt = res.type_of(t.value, f)
            if bt is not None and bt.name != "Blotter":
                continue  # an attribute of the same name on another class
            n_w += 1
            rep.check(f.qual == "Blotter.__init__", "R2", "rebinding of %s in %s" % (cname, key(f, s)), f, s)
        for f in prog.all_functions():
            for s in walk_nodes(f.node.body, (ast.Assign, ast.AugAssign, ast.Delete)):
                for t, kind in store_targets(s):
                    if isinstance(t, ast.Subscript):
                        r = t.value
                        while isinstance(r, ast.Subscript):
                            r = r.value
                        if isinstance(r, ast.Attribute) and r.attr == cname:
                            bt = res.type_of(r.value, f)
                            if bt is not None and bt.name != "Blotter":
                                continue
                            n_w += 1
                            rep.check(f.qual == "Blotter.__setitem__", "R2",
                                      "item store into %s in %s" % (cname, key(f, s)), f, s)
        for f, c, mut in all_mutator_calls(prog, cname):
            r = c.func.value
            while isinstance(r, ast.Subscript):
                r = r.value
            bt = res.type_of(r.value, f) if isinstance(r, ast.Attribute) else None
            if bt is not None and bt.name != "Blotter":
                continue
            n_w += 1
            allowed = (f.qual == "Blotter.__setitem__" and mut == "append") or (
                f.qual == "Blotter.complete_order" and cname == "_live_orders" and mut == "remove")
            rep.check(allowed, "R2", "%s() on %s in %s" % (mut, cname, key(f, c)), f, c,
                      "only __setitem__ (append) and complete_order (live list removal) may change the views")
    rep.floor("R2", "writes to blotter containers", n_w, 10)
    # the accessors hand out the index lists themselves (no copy when no filter is given): a caller that
    # mutates what it got changes the view of every later caller
    from sa.kinds import MUTATORS
    accessors = {"strategy_orders", "strategy_selection_orders", "client_orders", "client_strategy_orders"}
    n_alias = 0
    for f in prog.all_functions():
        aliases = {}   # local name -> [(assign stmt, source)]
        for s in walk_nodes(f.node.body, ast.Assign):
            v = s.value
            src = None
            if isinstance(v, ast.Call) and call_name(v) in accessors and isinstance(v.func, ast.Attribute):
                src = call_name(v) + "()"
            else:
                r = v
                while isinstance(r, ast.Subscript):
                    r = r.value
                if isinstance(r, ast.Attribute) and r.attr in conts and (r is not v or r.attr == "_live_orders"):
                    bt = res.type_of(r.value, f)
                    if bt is None or bt.name == "Blotter":
                        src = r.attr
            if src and len(s.targets) == 1 and isinstance(s.targets[0], ast.Name):
                aliases.setdefault(s.targets[0].id, []).append((s, src))
        if not aliases:
            continue
        n_alias += len(aliases)
        cfgf = ctx.cfg(f)

        def live_alias(name, at):
            """source of an alias definition of `name` that reaches statement `at` (None if every path
            from it passes a rebinding of the name)"""
            ms = cfgf.nodes_of(at)
            if not ms:
                return None
            defs = [n for n in cfgf.live_nodes() if any(isinstance(t, ast.Name) and t.id == name
                    for st in ([n.ast] if isinstance(n.ast, (ast.Assign, ast.AugAssign, ast.For)) else [])
                    for t, k in store_targets(st))]
            for st, src in aliases[name]:
                for d in cfgf.nodes_of(st):
                    kills = [n.id for n in defs if n.id != d.id and not isinstance(n.ast, ast.AugAssign)]
                    if ms[0].id in cfgf.reachable(d.id, kills, include_src=False):
                        return src
            return None

        stmts = {}
        for st in walk_nodes(f.node.body, ast.stmt):
            for c in walk_calls([st]) if not isinstance(st, (ast.If, ast.For, ast.While, ast.With, ast.Try)) else []:
                stmts.setdefault(id(c), st)
        for c in walk_calls(f.node.body):
            if isinstance(c.func, ast.Attribute) and c.func.attr in MUTATORS:
                r = c.func.value
                if isinstance(r, ast.Call) and call_name(r) in accessors and isinstance(r.func, ast.Attribute):
                    rep.violation("R2", "%s() on the list returned by %s() in %s" % (c.func.attr, call_name(r), key(f, c)), f, c,
                                  "the accessor returns the index list itself")
                if isinstance(r, ast.Name) and r.id in aliases:
                    src = live_alias(r.id, stmts.get(id(c))) if id(c) in stmts else aliases[r.id][0][1]
                    if src:
                        rep.violation("R2", "%s() on `%s`, an alias of %s, in %s" % (c.func.attr, r.id, src, key(f, c)), f, c,
                                      "the local is the index list itself, not a copy")
        for s in walk_nodes(f.node.body, (ast.AugAssign, ast.Delete, ast.Assign)):
            for t, kind in store_targets(s):
                base = t
                while isinstance(base, ast.Subscript):
                    base = base.value
                hit = isinstance(base, ast.Name) and base.id in aliases and (isinstance(s, ast.AugAssign) or base is not t)
                if hit and live_alias(base.id, s):
                    rep.violation("R2", "in-place change of `%s`, an alias of %s, in %s" % (base.id, aliases[base.id][0][1], key(f, s)), f, s)
    rep.floor("R2", "locals bound to an index list", n_alias, 4)
    co = prog.own_method("Blotter", "complete_order")
    from sa.kinds import sbody
    body = [utext(s) for s in sbody(co.node.body)]
    cfgco = ctx.cfg(co)
    rm_ = [n_ for n_, c_ in node_calls(cfgco, "remove") if utext(c_) == "self._live_orders.remove(%s)" % co.params[1]]
    from sa.kinds import get_effects as _ge
    oth_ = [d_ for n_, d_ in _ge(ctx).own_effects(co, co.node.body) if "self._live_orders.remove" not in d_ and "remove" not in d_]
    rep.check(body == ["self._live_orders.remove(%s)" % co.params[1]] or (
        len(rm_) == 1 and cfgco.unconditional(rm_[0].id) and not oth_), "R2",
              key(co, None, "complete_order removes exactly that order from the live list"), co, None, str(body))

    # ------------------------------------------------------------------ R3 insertion sites
    sites = []
    for f in prog.all_functions():
        for s in walk_nodes(f.node.body, ast.Assign):
            for t, kind in store_targets(s):
                if isinstance(t, ast.Subscript):
                    bt = res.type_of(t.value, f)
                    if bt is not None and bt.name == "Blotter":
                        sites.append((f, s, t))
    rep.floor("R3", "blotter insertion sites", len(sites), 2)
    for f, s, t in sites:
        cfgf = ctx.cfg(f)
        v = utext(s.value)
        rep.check(utext(t.slice) == v + ".id", "R3", key(f, s, "stored under the order's own id"), f, s)
        node = cfgf.nodes_of(s)[0]
        btxt = utext(t.value)
        guarded = False
        for g, pol in cfgf.guards(node.id):
            gt = utext(g.exprs[0])
            if (gt == "%s.id in %s" % (v, btxt) and pol is False) or (gt == "%s.id not in %s" % (v, btxt) and pol):
                guarded = True
        how = "membership test in the function"
        if not guarded:
            # adoption idiom: every call site of f is reached only on a lookup miss of the same key
            css = res.call_sites_of(f)
            ok_all = bool(css)
            for cs in css:
                cf = ctx.cfg(cs.func)
                cn = [n for n in cf.live_nodes() if cs.node in walk_calls(n.exprs)]
                miss = False
                for n in cn:
                    for g, pol in cf.guards(n.id):
                        gt = utext(g.exprs[0])
                        if gt.endswith(" is None") and pol:
                            var = gt[:-len(" is None")]
                            d = [x for x in walk_nodes(cs.func.node.body, ast.Assign)
                                 if utext(x.targets[0]) == var and isinstance(x.value, ast.Call)
                                 and call_name(x.value) == "get_order"]
                            if d:
                                miss = True
                ok_all = ok_all and miss
            guarded = ok_all
            how = "lookup miss (markets.get_order(...) is None) at every call site"
        rep.check(guarded, "R3", key(f, s, "insert only after an absence test for the key"), f, s,
                  how if guarded else "an insert without an absence test can overwrite / duplicate an order in the views")
    go = prog.own_method("Markets", "get_order")
    rep.check(any(utext(r.value) == "self.markets[market_id].blotter[order_id]"
                  for r in walk_nodes(go.node.body, ast.Return) if r.value is not None), "R3",
              key(go, None, "get_order returns the blotter's own object"), go)
    gb = prog.own_method("Markets", "get_order_from_bet_id")
    rep.check(any(call_name(r.value) == "get_order_bet_id" for r in walk_nodes(gb.node.body, ast.Return)
                  if isinstance(r.value, ast.Call)), "R3", key(gb, None, "bet id lookup goes through the index"), gb)
    for nm, want in (("__iter__", "return iter(list(self._orders.values()))"), ("__len__", "return len(self._orders)"),
                     ("has_order", "return customer_order_ref in self._orders"),
                     ("__getitem__", "return self._orders[customer_order_ref]")):
        mth = bl.methods.get(nm)
        rep.check(mth is not None and utext(mth.node.body[-1]) == want, "R3",
                  "Blotter.%s reads the primary index" % nm, mth)
    rep.check(utext(bl.class_attrs.get("__contains__")) == "has_order" if "__contains__" in bl.class_attrs else False,
              "R3", "Blotter.__contains__ is has_order", None)

    # ------------------------------------------------------------------ R4 removal only after completion
    comp = set(ts.model.complete)
    probes = [p for p in ts.probes.values() if call_name(p[1]) == "complete_order"]
    # three functions remove orders from the live list (simulation sweep, Betfair and Betdaq order stream)
    rep.floor("R4", "functions with a complete_order call site", len({p[0].qual for p in probes}), 3)
    for f, call, var, states in probes:
        rep.check(states <= comp, "R4", key(f, call, "order is complete when it leaves the live list"), f, call,
                  "possible statuses of %s here: %s" % (var, sorted(states)))
        if f.module.short == "process":
            cfgf = ctx.cfg(f)
            n = [x for x in cfgf.live_nodes() if call in walk_calls(x.exprs)][0]
            gs = [utext(g.exprs[0]) for g, pol in cfgf.guards(n.id) if pol]
            from sa.kinds import absence_tolerated
            rep.check(any(t.startswith(var + " in ") and t.endswith("live_orders") for t in gs) or absence_tolerated(f, call), "R4",
                      key(f, call, "removal guarded by membership of the live list"), f, call, str(gs))
    allc = [cs for cs in res.call_sites_of(co)]
    rep.check(len(allc) == len(probes), "R4", "every complete_order call was analysed", None, None,
              "%d call sites, %d analysed" % (len(allc), len(probes)))
    lo = prog.own_method("Blotter", "live_orders")
    rep.check(utext(lo.node.body[-1]) == "return iter(list(self._live_orders))", "R4",
              key(lo, None, "live_orders iterates a snapshot (removal while iterating is safe)"), lo)

    # ------------------------------------------------------------------ R5 sibling accessors
    acc = ["strategy_orders", "strategy_selection_orders", "client_orders", "client_strategy_orders"]
    tails = {}
    for a in acc:
        f = bl.methods.get(a)
        if f is None:
            raise AnalysisError("Blotter.%s not found" % a)
        from sa.kinds import sbody, ctext
        body = sbody(f.node.body)
        tails[a] = [ctext(s) for s in body[1:]]
        first = body[0]
        rep.check(isinstance(first, ast.Assign) and utext(first.targets[0]) == "orders"
                  and isinstance(first.value, ast.Subscript), "R5", "Blotter.%s starts from its own view" % a, f)
    ref = tails[acc[0]]
    want = ["if order_status:\n    orders = [o for o in orders if o.status in order_status]",
            "if matched_only:\n    orders = [o for o in orders if o.size_matched > 0]", "return orders"]
    rep.check([" ".join(x.split()) for x in ref] == [" ".join(x.split()) for x in want], "R5",
              "Blotter.strategy_orders filter is (status in order_status) then (size_matched > 0)", bl.methods[acc[0]],
              None, str(ref))
    for a in acc[1:]:
        rep.check(tails[a] == ref, "R5", "Blotter.%s applies the same filters as strategy_orders" % a, bl.methods[a])

    # ------------------------------------------------------------------ R6 bet id before insert
    ol = prog.own_method("BaseExecution", "_order_logger")
    cfg = ctx.cfg(ol)
    bid = [n for n in cfg.live_nodes() if n.kind == "stmt" and isinstance(n.ast, ast.Assign)
           and utext(n.ast.targets[0]) == "order.bet_id"]
    repl = [n for n in bid if ("package_type == OrderPackageType.REPLACE", True) in
            [(utext(g.exprs[0]), pol) for g, pol in cfg.guards(n.id)]]
    rep.check(len(repl) == 1 and len(cfg.guards(repl[0].id)) <= 4 and not any(
        "bet_id" in utext(g.exprs[0]) for g, pol in cfg.guards(repl[0].id)), "R6",
        key(ol, None, "REPLACE reports assign the new bet id unconditionally"), ol)
    for cname in ("SimulatedExecution", "BetfairExecution"):
        f = prog.own_method(cname, "execute_replace")
        cfgf = ctx.cfg(f)
        ins = [(n, c) for n, c in node_calls(cfgf, "place_order") if utext(c.args[0]) == "replacement_order"]
        logs = [(n, c) for n, c in node_calls(cfgf, "_order_logger") if utext(c.args[0]) == "replacement_order"]
        good = len(ins) == 1 and len(logs) == 1 and cfgf.dominates(logs[0][0].id, ins[0][0].id)
        if good:
            pt = utext(logs[0][1].args[2])
            good = pt in ("OrderPackageType.REPLACE", "order_package.package_type")
            kws = {k.arg: utext(k.value) for k in ins[0][1].keywords}
            good = good and kws.get("execute") == "False"
        rep.check(good, "R6", key(f, None, "replacement order gets its bet id before it enters the blotter"), f,
                  ins[0][1] if ins else None, "the bet-id index is filled at insert time")
    cf = prog.own_method("Trade", "create_order_from_current")
    rep.check(any(utext(s) == "order.bet_id = current_order.bet_id" for s in walk_nodes(cf.node.body, ast.Assign)),
              "R6", key(cf, None, "adopted order carries the exchange bet id when created"), cf)
    rep.check(any(utext(s) == "order.id = order_id" for s in walk_nodes(cf.node.body, ast.Assign)),
              "R6", key(cf, None, "adopted order keeps the id parsed from the reference"), cf)


_B = "flumine/markets/blotter.py"


def MUTANTS(ctx):
    out = []
    f = ctx.prog.own_method("Blotter", "__setitem__")
    src = ctx.prog.modules["flumine.markets.blotter"].source.splitlines(keepends=True)
    for s in f.node.body:
        if isinstance(s, ast.Assign) and isinstance(s.targets[0], ast.Name):
            continue
        txt = "".join(src[s.lineno - 1:s.end_lineno])
        if "self.active" in txt:
            continue
        out.append(dict(id="c15-drop-cache-line-%d" % s.lineno, file=_B, func="Blotter.__setitem__", old=txt,
                        new="", expect=["R1"], why="order missing from one view"))
    out += [
        dict(id="c15-insert-without-absence-test", file="flumine/execution/transaction.py",
             func="Transaction.place_order",
             old="        if order.id in self.market.blotter:\n            raise OrderError(\"Order %s has already been placed\" % order.id)\n",
             new="", expect=["R3"], why="duplicate insert"),
        dict(id="c15-key-by-bet-id", file="flumine/execution/transaction.py", func="Transaction.place_order",
             old="self.market.blotter[order.id] = order", new="self.market.blotter[order.bet_id] = order", expect=["R3"],
             why="stored under the wrong key"),
        dict(id="c15-complete-without-test", file="flumine/simulation/simulation.py",
             func="FlumineSimulation._process_simulated_orders",
             old="                    if order.size_remaining == 0:\n                        order.execution_complete()\n                        blotter.complete_order(order)",
             new="                    if order.size_remaining == 0:\n                        blotter.complete_order(order)",
             expect=["R4"], why="live order removed from the live list"),
        dict(id="c15-stream-removes-live-order", file="flumine/order/process.py", func="process_current_orders",
             old="            if order.complete:\n                market = markets.markets[order.market_id]",
             new="            if order.bet_id:\n                market = markets.markets[order.market_id]",
             expect=["R4"], why="live order removed from the live list"),
        dict(id="c15-accessor-filter-differs", file=_B, func="Blotter.client_orders",
             old="orders = [o for o in orders if o.size_matched > 0]", new="orders = [o for o in orders if o.size_matched >= 0]",
             expect=["R5"], why="one accessor filters differently"),
        dict(id="c15-middleware-writes-live-list", file="flumine/markets/middleware.py",
             func="SimulatedMiddleware._process_simulated_orders",
             old="            live_orders = list(market.blotter.live_orders)\n",
             new="            live_orders = list(market.blotter.live_orders)\n            market.blotter._live_orders.clear()\n",
             expect=["R2"], why="a foreign writer of the live list"),
        dict(id="c15-bet-id-after-insert", file="flumine/execution/betfairexecution.py",
             func="BetfairExecution.execute_replace",
             old="                        self._order_logger(\n                            replacement_order,\n                            instruction_report.place_instruction_reports,\n                            OrderPackageType.REPLACE,\n                        )\n                        # add to blotter\n                        market.place_order(\n                            replacement_order, execute=False, client=order.client\n                        )\n",
             new="                        market.place_order(\n                            replacement_order, execute=False, client=order.client\n                        )\n                        self._order_logger(\n                            replacement_order,\n                            instruction_report.place_instruction_reports,\n                            OrderPackageType.REPLACE,\n                        )\n",
             expect=["R6"], why="replacement indexed under bet id None"),
        dict(id="c15-reader-key-order", file=_B, func="Blotter.client_strategy_orders",
             old="self._client_strategy_orders[(client, strategy)]", new="self._client_strategy_orders[(strategy, client)]",
             expect=["R1"], why="reader key differs from writer key"),
        dict(id="c15-setitem-conditional", file=_B, func="Blotter.__setitem__",
             old="        self._live_orders.append(order)\n",
             new="        if not order.complete:\n            self._live_orders.append(order)\n", expect=["R1"],
             why="conditional population of a view"),
        dict(id="c15-adopt-without-miss", file="flumine/order/process.py", func="process_current_orders",
             old="            if order is None:\n                logger.warning(", new="            if True:\n                logger.warning(",
             expect=["R3"], why="adoption on every update duplicates the order"),
        dict(id="c15-live-orders-no-snapshot", file=_B, func="Blotter.live_orders",
             old="return iter(list(self._live_orders))", new="return iter(self._live_orders)", expect=["R4"],
             why="removal while iterating skips orders"),
        dict(id="c15-view-mutated-through-accessor", file=_B, func="Blotter.get_exposures",
             old="        for order in self.strategy_selection_orders(strategy, *lookup[1:]) + (\n            [new_order] if new_order is not None else []\n        ):",
             new="        orders = self.strategy_selection_orders(strategy, *lookup[1:])\n        if new_order is not None:\n            orders.append(new_order)\n        for order in orders:",
             expect=["R2"], why="the prospective order is appended to the index list itself"),
    ]
    return out
