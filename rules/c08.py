"""C08 - Settlement: simulated profit follows the exchange's rules (antisymmetry and summary only)."""

import ast
import itertools

from sa import AnalysisError
from sa.kinds import key, utext, call_name, recv_text, calls_in, node_calls, canon_compare, oriented
from sa.cfg import walk_calls, walk_nodes
from sa.symbolic import poly, neg, show

EXPLANATION = (
    "Narrow decision of C08: (R1) antisymmetry - SimulatedOrder.profit is evaluated path by path over the "
    "finite domain market kind (each-way / line / ordinary) x runner result x dead-heat count class x "
    "ordering(struck line, result) for both sides; on each case the returned expression (local assignments "
    "substituted, normalised to a polynomial, round() treated as the odd function it is) of the LAY order "
    "must be the exact negative of the BACK order's, and unmatched / removed / unknown results must give "
    "zero on both sides; (R2) Market.cleared sums order.profit over the client's matched orders "
    "(client_orders(client, matched_only=True)) and charges commission max(profit x rate, 0), i.e. only on a "
    "net win; BaseOrder.profit routes simulated orders to the simulated profit; an order that replaces another "
    "one is placed for the replaced order's client; (R3) "
    "Blotter.process_closed_market gives every order its own runner's result and the settlement terms; (R4) "
    "the settlement formulas: for each case of that finite domain the BACK return expression, normalised to a "
    "polynomial in matched size S, average price P, dead-heat count N and each-way divisor D (inside the final "
    "rounding), is identical to the exchange's rule - S(P-1) / -S / 0, the dead-heat split (S/N)(P-1) - S(N-1)/N, "
    "the each-way terms S(P-1) + S(P-1)/D, S(P-1)/D - S, -2S, and even money on lines - and every term carries S "
    "(nothing matched, nothing paid). Not decided: the numeric effect of rounding to 2 dp, and whether the "
    "average price and matched size fed in are themselves right (C04/C05)."
)
ASSUMPTIONS = ["round(x, 2) is an odd function (Python rounds half to even symmetrically), so rounding does not affect antisymmetry"]


def _paths(cfg, atom_eval):
    """all (return expression, env) reachable under atom_eval (None explores both); env = symbolic locals"""
    out = []
    stack = [(cfg.entry, {})]
    seen = 0
    while stack:
        nid, env = stack.pop()
        seen += 1
        if seen > 20000:
            raise AnalysisError("profit(): path enumeration did not terminate")
        n = cfg.nodes[nid]
        if n.kind == "return":
            out.append((n, poly(n.ast.value, env) if n.ast.value is not None else {}))
            continue
        if n.kind == "stmt" and isinstance(n.ast, ast.Assign) and len(n.ast.targets) == 1 \
                and isinstance(n.ast.targets[0], ast.Name):
            env = dict(env)
            env[n.ast.targets[0].id] = poly(n.ast.value, env)
        if n.kind == "stmt" and isinstance(n.ast, ast.AugAssign) and isinstance(n.ast.target, ast.Name):
            # x op= v  is  x = x op v
            env = dict(env)
            env[n.ast.target.id] = poly(ast.BinOp(left=ast.Name(id=n.ast.target.id, ctx=ast.Load()), op=n.ast.op, right=n.ast.value), env)
        if n.kind == "cond":
            v = atom_eval(n.exprs[0])
            if v is not None:
                stack += [(m, env) for l, m in n.succ if l == ("T" if v else "F")]
                continue
        stack += [(m, env) for l, m in n.succ if l != "exc"]
    uniq, keys = [], set()
    for n, p in out:
        k = (n.id, tuple(sorted(p.items())))
        if k not in keys:
            keys.add(k)
            uniq.append((n, p))
    return uniq


class _Subst(ast.NodeTransformer):
    def __init__(self, alias):
        self.alias = alias

    def visit_Name(self, n):
        if isinstance(n.ctx, ast.Load) and n.id in self.alias:
            return self.alias[n.id]
        return n


def _aliases(f):
    """locals assigned exactly once from a plain attribute chain / name (copy propagation for the atoms)"""
    defs = {}
    for s in walk_nodes(f.node.body, (ast.Assign, ast.AugAssign)):
        for t in (s.targets if isinstance(s, ast.Assign) else [s.target]):
            if isinstance(t, ast.Name):
                defs.setdefault(t.id, []).append(s)
    out = {}
    for k, v in defs.items():
        if len(v) == 1 and isinstance(v[0], ast.Assign) and isinstance(v[0].value, (ast.Attribute, ast.Name)):
            out[k] = v[0].value
    return out


def run(ctx, rep):
    import copy
    prog, res = ctx.prog, ctx.res
    f = prog.own_method("SimulatedOrder", "profit")
    cfg = ctx.cfg(f)
    alias = _aliases(f)

    def make_eval(side, kind, status, ndh, rel, line_none):
        def evb(e):
            """a boolean sub-expression (not / and / or over atoms)"""
            if isinstance(e, ast.UnaryOp) and isinstance(e.op, ast.Not):
                v = evb(e.operand)
                return None if v is None else not v
            if isinstance(e, ast.BoolOp):
                vals = [evb(x) for x in e.values]
                if isinstance(e.op, ast.And):
                    return False if False in vals else (None if None in vals else True)
                return True if True in vals else (None if None in vals else False)
            return ev(e)

        def ev(e):
            v = ev0(e)
            if v is None and alias:
                v = ev0(_Subst(alias).visit(copy.deepcopy(e)))
            return v

        def ev0(e):
            # truth values compared with each other: (side == 'BACK') == (price > result)
            if isinstance(e, ast.Compare) and len(e.ops) == 1 and isinstance(e.ops[0], (ast.Eq, ast.NotEq, ast.Is, ast.IsNot)):
                sides = [e.left, e.comparators[0]]
                if all(isinstance(x, (ast.Compare, ast.BoolOp, ast.UnaryOp)) for x in sides):
                    vals = [evb(x) for x in sides]
                    if None not in vals:
                        return (vals[0] == vals[1]) == isinstance(e.ops[0], (ast.Eq, ast.Is))
            t = utext(e)
            if t == "self.side == 'BACK'":
                return side == "BACK"
            if t == "self.side == 'LAY'":
                return side == "LAY"
            if t == "self.order.market_type == 'EACH_WAY'":
                return kind == "EW"
            if t == "self.order.order_type.ORDER_TYPE == OrderTypes.LIMIT":
                return kind == "LINE" or None
            if t == "self.order.order_type.price_ladder_definition == 'LINE_RANGE'":
                return kind == "LINE"
            if t.startswith("self.order.runner_status == "):
                return t.endswith("'%s'" % status)
            if isinstance(e, ast.Compare) and utext(e.left) == "self.order.runner_status" and len(e.ops) == 1 \
                    and isinstance(e.ops[0], (ast.In, ast.NotIn)) and isinstance(e.comparators[0], (ast.Tuple, ast.List, ast.Set)):
                vals = [x.value for x in e.comparators[0].elts if isinstance(x, ast.Constant)]
                return (status in vals) == isinstance(e.ops[0], ast.In)
            if t.startswith("self.order.runner_status != "):
                return not t.endswith("'%s'" % status)
            if t == "line_range_result is None":
                return line_none
            c = canon_compare(e)
            if c:
                o = oriented(c, "number_of_dead_heat_winners")
                if o and o[2].isdigit():
                    k = int(o[2])
                    return {"==": ndh == k, ">": ndh > k, ">=": ndh >= k, "<": ndh < k, "<=": ndh <= k, "!=": ndh != k}[o[1]]
                o = oriented(c, "price")
                if o and o[2] == "line_range_result":
                    return {"<": rel == "<", "<=": rel in "<=", ">": rel == ">", ">=": rel in ">=", "==": rel == "=", "!=": rel != "="}[o[1]]
            return None
        return ev

    n_cases, bad, zero_bad = 0, [], []
    cases = []
    for kind in ("EW", "ORD"):
        for status in ("WINNER", "PLACED", "LOSER", "REMOVED", "ACTIVE"):
            for ndh in (1, 2, 3):
                cases.append((kind, status, ndh, "=", False))
    for rel in ("<", "=", ">"):
        cases.append(("LINE", "WINNER", 1, rel, False))
    cases.append(("LINE", "WINNER", 1, "=", True))
    for kind, status, ndh, rel, line_none in cases:
        n_cases += 1
        rb = _paths(cfg, make_eval("BACK", kind, status, ndh, rel, line_none))
        rl = _paths(cfg, make_eval("LAY", kind, status, ndh, rel, line_none))
        if len(rb) != 1 or len(rl) != 1:
            raise AnalysisError("profit(): case %s not decided to a single return (BACK %d, LAY %d paths)" % (
                (kind, status, ndh, rel), len(rb), len(rl)))
        pb, pl_ = rb[0][1], rl[0][1]
        label = "%s market, runner %s, dead-heat winners %d%s" % (
            {"EW": "each-way", "ORD": "ordinary", "LINE": "line"}[kind], status, ndh,
            (", struck line %s result" % rel) if kind == "LINE" and not line_none else (", no line result" if line_none else ""))
        if pl_ != neg(pb):
            bad.append((label, show(pb), show(pl_), rb[0][0], rl[0][0]))
        if (status in ("REMOVED", "ACTIVE") and kind != "LINE") or line_none:
            if pb or pl_:
                zero_bad.append(label)
    rep.note("antisymmetry_cases", n_cases)
    seen_keys = set()
    for label, b, l, nb, nl in bad:
        k = key(f, None, "BACK and LAY profit are exact opposites: " + label)
        if k in seen_keys:
            continue
        seen_keys.add(k)
        rep.violation("R1", k, f, nb.ast, "BACK returns %s, LAY returns %s (line %d / %d)" % (b, l, nb.lineno, nl.lineno))
    for kind, status, ndh, rel, line_none in cases:
        label = "%s market, runner %s, dead-heat winners %d%s" % (
            {"EW": "each-way", "ORD": "ordinary", "LINE": "line"}[kind], status, ndh,
            (", struck line %s result" % rel) if kind == "LINE" and not line_none else (", no line result" if line_none else ""))
        k = key(f, None, "BACK and LAY profit are exact opposites: " + label)
        if k not in seen_keys:
            rep.ok("R1", k, f)
    rep.check(not zero_bad, "R1", key(f, None, "removed runners, unsettled runners and missing line results pay zero"), f, None,
              "; ".join(zero_bad))
    rep.floor("R1", "antisymmetry cases", n_cases, 30)
    # ------------------------------------------------------------------ R4 the formulas themselves
    # For every case the BACK return expression (inside the final rounding) must equal the settlement rule of
    # the exchange, as a polynomial identity in S = matched size, P = average matched price, N = number of
    # dead-heat winners, D = each-way divisor (LAY is then its negative by R1).
    from fractions import Fraction

    def classify(p):
        """rename the atoms of a polynomial to S / P / N / D by what they read; None if anything else occurs"""
        out = {}
        for mono, c in p.items():
            m2 = []
            for a, e in mono:
                if "average_price_matched" in a:
                    m2.append(("P", e))
                elif "size_matched" in a:
                    m2.append(("S", e))
                elif "number_of_dead_heat_winners" in a:
                    m2.append(("N", e))
                elif "each_way_divisor" in a:
                    m2.append(("D", e))
                else:
                    return None
            # merge equal symbols
            d2 = {}
            for a, e in m2:
                d2[a] = d2.get(a, 0) + e
            k2 = tuple(sorted((a, e) for a, e in d2.items() if e))
            out[k2] = out.get(k2, 0) + c
        return {m: c for m, c in out.items() if c != 0}

    def subst(p, sym, value):
        out = {}
        for mono, c in p.items():
            c2, m2 = c, []
            for a, e in mono:
                if a == sym:
                    c2 = c2 * Fraction(value) ** e
                else:
                    m2.append((a, e))
            k2 = tuple(m2)
            out[k2] = out.get(k2, 0) + c2
        return {m: c for m, c in out.items() if c != 0}

    def spec(txt):
        envs = {k: {((k, 1),): Fraction(1)} for k in "SPND"}
        return poly(ast.parse(txt, mode="eval").body, envs)

    SPEC = {
        ("ORD", "WINNER"): ("(S / N) * (P - 1) - S * (N - 1) / N",
                            "1/N of the stake wins at the full price, the other (N-1)/N of it loses (N = 1: S x (P - 1))"),
        ("ORD", "LOSER"): ("-S", "a losing back loses its matched stake"),
        ("ORD", "REMOVED"): ("0", "bets on a removed runner are void"),
        ("ORD", "ACTIVE"): ("0", "no result, nothing paid"),
        ("EW", "WINNER"): ("S * (P - 1) + S * (P - 1) / D", "win part at the price plus place part at the place terms"),
        ("EW", "PLACED"): ("S * (P - 1) / D - S", "place part wins at the place terms, win part loses"),
        ("EW", "LOSER"): ("-2 * S", "both parts lose"),
        ("EW", "REMOVED"): ("0", "void"),
        ("EW", "ACTIVE"): ("0", "no result"),
        ("LINE", ">"): ("S", "even money: the stake is won"),
        ("LINE", "<"): ("-S", "the stake is lost"),
        ("LINE", "="): ("0", "result on the line: stake returned"),
        ("LINE", "none"): ("0", "no result available"),
    }
    n_formula = 0
    for kind, status, ndh, rel, line_none in cases:
        k2 = (kind, ("none" if line_none else rel)) if kind == "LINE" else (kind, status)
        if k2 not in SPEC:
            continue
        n_formula += 1
        rb = _paths(cfg, make_eval("BACK", kind, status, ndh, rel, line_none))
        got = classify(rb[0][1])
        want = spec(SPEC[k2][0])
        if ndh in (1, 2):
            want = subst(want, "N", ndh)
            got = subst(got, "N", ndh) if got is not None else None
        if kind == "EW":
            # dead heats in each-way markets are not handled by the code (it logs an error): compared for N as it stands
            want = spec(SPEC[k2][0])
        label = "%s market, runner %s%s" % ({"EW": "each-way", "ORD": "ordinary", "LINE": "line"}[kind],
                                           status if kind != "LINE" else "", (", dead-heat winners %s" % ("N>2" if ndh > 2 else ndh)) if kind == "ORD" and status == "WINNER" else (
                                               (", struck line %s result" % ("missing" if line_none else rel)) if kind == "LINE" else ""))
        kk = key(f, None, "BACK settlement formula: " + label)
        if kk in seen_keys:
            continue
        seen_keys.add(kk)
        rep.check(got is not None and got == want, "R4", kk, f, rb[0][0].ast,
                  "returned %s, settlement rule %s (%s)" % (show(got) if got is not None else "an expression over other quantities: " + show(rb[0][1]),
                                                            show(want), SPEC[k2][1]))
        if got:
            rep.check(all(any(a == "S" and e >= 1 for a, e in mono) for mono in got), "R4",
                      key(f, None, "nothing matched, nothing paid: " + label), f, rb[0][0].ast,
                      "every term carries the matched size")
    # rounding: to the penny once, at the end (the polynomial comparison above looks through round()); an
    # intermediate amount rounded on the way - a stake share, a part of the payout - changes what is paid
    from sa.kinds import folded_returns
    inner = set()
    for kind, status, ndh, rel, line_none in cases:
        for side in ("BACK", "LAY"):
            for txt in folded_returns(cfg, f, make_eval(side, kind, status, ndh, rel, line_none)):
                e = ast.parse(txt, mode="eval").body
                while True:
                    if isinstance(e, ast.UnaryOp) and isinstance(e.op, (ast.USub, ast.UAdd)):
                        e = e.operand
                    elif isinstance(e, ast.Call) and isinstance(e.func, ast.Name) and e.func.id == "round" and e.args:
                        e = e.args[0]
                        break
                    else:
                        break
                for x in ast.walk(e):
                    if isinstance(x, ast.Call) and isinstance(x.func, ast.Name) and x.func.id == "round":
                        inner.add(utext(x))
    rep.check(not inner, "R4", key(f, None, "amounts are rounded once, at the end"), f, None,
              "rounded on the way: %s" % sorted(inner)[:3])
    rep.floor("R4", "settlement formula cases", n_formula, 12)
    rep.note("settlement_formula_cases", n_formula)

    # profit depends on the fills only through the totals
    atoms = {utext(a) for a in walk_nodes(f.node.body, ast.Attribute)}
    rep.check("self.size_matched" in atoms and "self.average_price_matched" in atoms, "R1",
              key(f, None, "profit is computed from the matched size and average price"), f)

    # ------------------------------------------------------------------ R2 summary and commission
    cl = prog.own_method("Market", "cleared")
    cfgcl = ctx.cfg(cl)
    # assignments on live paths only (branches switched off by a defaulted new parameter are not code the
    # package runs)
    d = {utext(n.ast.targets[0]): n.ast.value for n in cfgcl.live_nodes() if n.kind == "stmt" and isinstance(n.ast, ast.Assign)}
    o_ok = "orders" in d and utext(d["orders"]) == "self.blotter.client_orders(%s, matched_only=True)" % cl.params[1]
    p_ok = "profit" in d and utext(d["profit"]) in ("round(sum([order.profit for order in orders]), 2)",
                                                       "round(sum((order.profit for order in orders)), 2)",
                                                       "round(sum(order.profit for order in orders), 2)")
    rep.check(o_ok, "R2", key(cl, None, "the summary ranges over that client's matched orders"), cl, d.get("orders"))
    rep.check(p_ok, "R2", key(cl, None, "summary profit = sum of the orders' profits"), cl, d.get("profit"))
    ret = [r for r in walk_nodes(cl.node.body, ast.Return) if isinstance(r.value, ast.Dict)]
    good = len(ret) == 1
    if good:
        dd = {utext(k): utext(v) for k, v in zip(ret[0].value.keys, ret[0].value.values)}
        good = dd.get("'profit'") == "profit" and dd.get("'betCount'") == "len(orders)" and \
            dd.get("'commission'") == "round(max(profit * %s.commission_base, 0), 2)" % cl.params[1] and \
            dd.get("'marketId'") == "self.market_id"
    rep.check(good, "R2", key(cl, None, "commission = max(profit x rate, 0): only a net win is charged"), cl)
    bp = prog.own_method("BaseOrder", "profit")
    cfgb = ctx.cfg(bp)
    r = {}
    for n in cfgb.live_nodes():
        if n.kind == "return":
            r[tuple(sorted((utext(g.exprs[0]), pol) for g, pol in cfgb.guards(n.id)))] = utext(n.ast.value)
    rep.check(r.get((("self._simulated", True),)) == "self.simulated.profit", "R2",
              key(bp, None, "a simulated order reports the simulated settlement"), bp, None, str(r))
    co = prog.own_method("Blotter", "client_orders")
    body = " ".join(utext(s) for s in co.node.body)
    rep.check("self._client_orders[client]" in body and "if matched_only: orders = [o for o in orders if o.size_matched > 0]".replace(
        ": ", ":\n    ") in "\n".join(utext(s) for s in co.node.body) or "o.size_matched > 0" in body, "R2",
        key(co, None, "matched-only filter keeps orders with a positive matched size"), co)

    # the per-client summary ranges over the blotter's index of that client's orders: an order that replaces
    # another one is filed under the client of the replaced order (without `client=` Market.place_order opens
    # the transaction of the DEFAULT client, which re-stamps the order)
    n_rp = 0
    for cn in ("BetfairExecution", "SimulatedExecution"):
        er = prog.own_method(cn, "execute_replace")
        for c in walk_calls(er.node.body):
            if call_name(c) == "place_order":
                n_rp += 1
                kws = {k.arg: utext(k.value) for k in c.keywords}
                pos = utext(c.args[4]) if len(c.args) > 4 else None
                rep.check(kws.get("client", pos) == "order.client", "R2",
                          key(er, c, "the replacing order is placed for the client of the replaced order"), er, c,
                          "client argument: %s" % kws.get("client", pos))
    rep.floor("R2", "placements of replacing orders", n_rp, 2)

    # ------------------------------------------------------------------ R3 results
    from rules.c20 import closed_market_results
    closed_market_results(ctx, rep, "R3")


SIM = "flumine/simulation/simulatedorder.py"
MUTANTS = [
    dict(id="c08-replacement-default-client", file="flumine/execution/simulatedexecution.py", func="SimulatedExecution.execute_replace",
         old="                        replacement_order, execute=False, client=order.client\n",
         new="                        replacement_order, execute=False\n", expect=["R2"],
         why="the replacing order is re-stamped with the default client and summarised under it"),
    dict(id="c08-stake-share-rounded", file=SIM, func="SimulatedOrder.profit",
         old="                    profit = (self.size_matched / number_of_dead_heat_winners) * (",
         new="                    profit = round(self.size_matched / number_of_dead_heat_winners, 2) * (",
         expect=["R4"], why="the dead-heat share of the stake is rounded before it is multiplied by the odds"),
    dict(id="c08-winner-pays-price-not-odds", file=SIM, func="SimulatedOrder.profit",
         old="                    profit = (self.size_matched / number_of_dead_heat_winners) * (\n                        self.average_price_matched - 1\n                    )",
         new="                    profit = (self.size_matched / number_of_dead_heat_winners) * (\n                        self.average_price_matched\n                    )",
         expect=["R4"], why="both sides still opposite, but the stake is paid twice"),
    dict(id="c08-dead-heat-three-way-reduction", file=SIM, func="SimulatedOrder.profit",
         old="                            self.size_matched\n                            * (number_of_dead_heat_winners - 1)\n                            / number_of_dead_heat_winners",
         new="                            self.size_matched\n                            / number_of_dead_heat_winners",
         expect=["R4"], why="three-way dead heat loses only 1/N of the stake"),
    dict(id="c08-each-way-place-terms", file=SIM, func="SimulatedOrder.profit",
         old="                (self.average_price_matched - 1) * (1 / divisor)", new="                (self.average_price_matched - 1) * divisor",
         expect=["R4"], why="place part multiplied by the divisor"),
    dict(id="c08-each-way-loser-one-stake", file=SIM, func="SimulatedOrder.profit",
         old="                matched = round(self.size_matched * 2, 2)", new="                matched = round(self.size_matched, 2)",
         expect=["R4"], why="only one of the two parts lost"),
    dict(id="c08-line-win-at-price", file=SIM, func="SimulatedOrder.profit",
         old="                    profit = self.size_matched * (2.0 - 1)", new="                    profit = self.size_matched * (price - 1)",
         expect=["R4"], why="line markets settle at even money, the price is the line"),
    dict(id="c08-loser-loses-liability", file=SIM, func="SimulatedOrder.profit",
         old="                    if self.side == \"BACK\":\n                        return -self.size_matched\n                    else:\n                        return self.size_matched",
         new="                    stake = self.size_matched * (self.average_price_matched - 1)\n                    if self.side == \"BACK\":\n                        return -stake\n                    else:\n                        return stake",
         expect=["R4"], why="antisymmetric, wrong amount"),
    dict(id="c08-losing-back-positive", file=SIM, func="SimulatedOrder.profit",
         old="                    if self.side == \"BACK\":\n                        return -self.size_matched\n                    else:\n                        return self.size_matched",
         new="                    if self.side == \"BACK\":\n                        return self.size_matched\n                    else:\n                        return self.size_matched",
         expect=["R1"], why="losing back paid"),
    dict(id="c08-lay-sign-dropped", file=SIM, func="SimulatedOrder.profit",
         old="                    if self.side == \"LAY\":\n                        profit = -profit\n", new="", expect=["R1"], why="winning lay paid like a back"),
    dict(id="c08-commission-on-loss", file="flumine/markets/market.py", func="Market.cleared",
         old="round(max(profit * client.commission_base, 0), 2)", new="round(profit * client.commission_base, 2)", expect=["R2"],
         why="negative commission on a loss"),
    dict(id="c08-sum-all-orders", file="flumine/markets/market.py", func="Market.cleared",
         old="orders = self.blotter.client_orders(client, matched_only=True)", new="orders = list(self.blotter)", expect=["R2"],
         why="other clients' orders in the summary"),
    dict(id="c08-each-way-placed-lay", file=SIM, func="SimulatedOrder.profit",
         old="                    profit = self.size_matched - place\n", new="                    profit = self.size_matched + place\n", expect=["R1"],
         why="placed each-way lay mis-settled"),
    dict(id="c08-each-way-loser-lay", file=SIM, func="SimulatedOrder.profit",
         old="                if self.side == \"BACK\":\n                    return -matched\n                else:\n                    return matched",
         new="                if self.side == \"BACK\":\n                    return -matched\n                else:\n                    return self.size_matched",
         expect=["R1"], why="each-way lay wins one stake instead of two"),
    dict(id="c08-removed-runner-pays", file=SIM, func="SimulatedOrder.profit",
         old="                elif self.order.runner_status == \"LOSER\":\n                    if self.side == \"BACK\":\n                        return -self.size_matched",
         new="                elif self.order.runner_status in (\"LOSER\", \"REMOVED\"):\n                    if self.side == \"BACK\":\n                        return -self.size_matched",
         expect=["R1"], why="bets on a removed runner lose instead of being void"),
    dict(id="c08-dead-heat-one-side", file=SIM, func="SimulatedOrder.profit",
         old="                    if number_of_dead_heat_winners == 2:\n                        profit = profit - (",
         new="                    if number_of_dead_heat_winners == 2 and self.side == \"BACK\":\n                        profit = profit - (",
         expect=["R1"], why="dead-heat reduction applied to backs only"),
    dict(id="c08-profit-not-simulated", file="flumine/order/order.py", func="BaseOrder.profit",
         old="        if self._simulated:\n            return self.simulated.profit", new="        if self._simulated and self.cleared_order:\n            return self.simulated.profit",
         expect=["R2"], why="simulated profit reported as zero"),
    dict(id="c08-summary-profit-rounded-per-order", file="flumine/markets/market.py", func="Market.cleared",
         old="profit = round(sum([order.profit for order in orders]), 2)", new="profit = round(sum([abs(order.profit) for order in orders]), 2)",
         expect=["R2"], why="losses added as wins"),
]
