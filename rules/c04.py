"""C04 - Simulated order sizes are conserved."""

import ast

from sa import AnalysisError
from sa.kinds import (key, utext, call_name, recv_text, calls_in, node_calls, all_stores, all_mutator_calls,
                      store_targets, canon_compare, oriented)
from sa.cfg import walk_calls, walk_nodes
from sa.astutil import canon_text as ct, gp

EXPLANATION = (
    "Decided part of C04. The sum identity is definitional (size_remaining is derived), so the content is that "
    "nothing writes a bucket in a way that can push the remainder below zero or leave a non-zero remainder on "
    "a terminal exit: (R1) size_remaining subtracts exactly matched, cancelled, lapsed and voided from the "
    "requested size; (R2) every write of the cancelled / lapsed / voided buckets is `+=` of the current "
    "remainder (or of a local proved min(., remainder)), with two named exceptions: the LAY starting-price "
    "re-size (the property's own exception) and the runner-removal void, which must reset all four other "
    "figures together; only SimulatedOrder and that void may write them; an order that replaces another one "
    "gets an order type of its own (the requested size of the replaced order is never overwritten); (R3) in SimulatedOrder.place every "
    "FAILURE return and every fill-or-kill return is preceded in its own branch by emptying the remainder; "
    "(R4) matched grows only through _update_matched / the full-match branch, the passive fill sites clamp to "
    "the remainder, the crossing-match helpers are called only from place with the order's own size, and "
    "matched is reduced only by the VWAP roll-back and the void; (R5) the three completion tests compare the "
    "remainder with zero. Not decided: rounding effects, non-negativity as a numeric fact, negative "
    "size_reduction inputs, the per-level arithmetic of the crossing match."
)

BUCKETS = ("size_cancelled", "size_lapsed", "size_voided")
SIM = "flumine/simulation/simulatedorder.py"


def void_group(ctx, rep, R):
    """the runner-removal void resets every figure together so that nothing remains (shared with C09-R2)"""
    prog = ctx.prog
    f = prog.own_method("SimulatedMiddleware", "_process_runner_removal")
    cfg = ctx.cfg(f)
    stores = {}
    for n in cfg.live_nodes():
        if n.kind == "stmt" and isinstance(n.ast, ast.Assign):
            t = utext(n.ast.targets[0])
            if t.startswith("order.simulated."):
                gs = [(utext(g.exprs[0]), pol) for g, pol in cfg.guards(n.id)]
                on_runner = any("order.lookup" in a and "==" in a and pol for a, pol in gs)
                if on_runner:
                    stores.setdefault(t[len("order.simulated."):], []).append((utext(n.ast.value), gs))
    need = {"size_matched": {"0", "0.0"}, "average_price_matched": {"0", "0.0"}, "matched": {"[]"},
            "size_cancelled": {"0", "0.0"}, "size_lapsed": {"0", "0.0"}}
    for attr, vals in need.items():
        got = stores.get(attr, [])
        rep.check(len(got) == 1 and got[0][0] in vals, R,
                  key(f, None, "void resets %s" % attr), f, None,
                  "a void that keeps an earlier %s leaves a negative remainder: requested - %s - voided(requested) < 0" % (
                      attr, attr) if attr in ("size_cancelled", "size_lapsed") else str(got))
    sv = stores.get("size_voided", [])
    tab = {}
    for val, gs in sv:
        lim = ("order.order_type.ORDER_TYPE == OrderTypes.LIMIT", True) in gs
        tab["LIMIT" if lim else "SP"] = val
    rep.check(tab == {"LIMIT": "order.order_type.size", "SP": "order.order_type.liability"}, R,
              key(f, None, "void sets voided to the full requested size / liability"), f, None, str(tab))
    return f


def _adjacent(fn_node, first, second):
    """`second` directly follows `first` in the same statement list (logging in between is transparent)"""
    from sa.cfg import is_logging_stmt
    for n in ast.walk(fn_node):
        for fld in ("body", "orelse", "finalbody"):
            b = getattr(n, fld, None)
            if isinstance(b, list) and first in b and second in b:
                seq = [x for x in b if not is_logging_stmt(x)]
                return seq.index(second) == seq.index(first) + 1
    return False


def run(ctx, rep):
    prog, res = ctx.prog, ctx.res
    so = prog.cls("SimulatedOrder")

    # ------------------------------------------------------------------ R1 derived remainder
    sr = prog.own_method("SimulatedOrder", "size_remaining")
    from sa.kinds import folded_returns
    cfgsr = ctx.cfg(sr)
    # what a LIMIT order's remainder is, with locals and new helpers folded in
    folded = folded_returns(cfgsr, sr, lambda e: True if utext(e) == "self.order.order_type.ORDER_TYPE == OrderTypes.LIMIT" else None)
    terms, base = None, None
    for txt in sorted(folded):
        v = ast.parse(txt, mode="eval").body
        if isinstance(v, ast.Call) and call_name(v) == "round":
            v = v.args[0]
        if isinstance(v, ast.BinOp) and isinstance(v.op, ast.Sub):
            ts = []
            while isinstance(v, ast.BinOp) and isinstance(v.op, ast.Sub):
                ts.append(utext(v.right))
                v = v.left
            if terms is None or "order_type.size" in utext(v):
                terms, base = set(ts), utext(v)
    want = {"self.size_matched", "self.size_cancelled", "self.size_lapsed", "self.size_voided"}
    rep.check(terms == want, "R1", key(sr, None, "remainder = requested - matched - cancelled - lapsed - voided"), sr, None,
              "subtracts %s" % sorted(terms or []))
    bdef = [base] if base else []
    rep.check(len(bdef) == 1 and bdef[0].startswith("self.order.order_type.size"), "R1",
              key(sr, None, "requested size is the order type's size"), sr)

    # ------------------------------------------------------------------ R2 bounded writes
    n_w = 0
    for attr in BUCKETS:
        for f, s, t, kind in all_stores(prog, attr):
            bt = res.type_of(t.value, f)
            if bt is not None and bt.name != "SimulatedOrder":
                continue
            if f.qual == "SimulatedOrder.__init__":
                continue
            n_w += 1
            if f.qual == "SimulatedMiddleware._process_runner_removal":
                rep.ok("R2", key(f, s, "part of the void group"), f, s, "checked as a group below")
                continue
            if not rep.check(f.cls is so, "R2", "bucket written outside the simulated order: " + key(f, s), f, s,
                             "only SimulatedOrder and the runner-removal void may move size between buckets"):
                continue
            val = utext(s.value)
            good = kind == "aug" and isinstance(s.op, ast.Add) and utext(t.value) == "self"
            bounded = val == "self.size_remaining"
            why = "adds the whole remainder"
            if good and not bounded and isinstance(s.value, ast.Name):
                d = [x for x in walk_nodes(f.node.body, ast.Assign) if utext(x.targets[0]) == s.value.id]
                if len(d) == 1 and _is_min_of_remaining(d[0].value, f):
                    bounded = True
                    why = "adds a local clamped with min(., self.size_remaining)"
                elif len(d) == 1 and utext(d[0].value) == "self.size_remaining" and _adjacent(f.node, d[0], s):
                    bounded = True
                    why = "adds the remainder read into a local by the statement before"
            if good and not bounded and f.name == "_process_sp" and attr == "size_cancelled" \
                    and val == "round(self.size_remaining - size, 2)":
                bounded = True
                why = "named exception: LAY starting-price re-size (conservation on the total only)"
            rep.check(good and bounded, "R2", key(f, s, "bounded by the remainder"), f, s,
                      why if (good and bounded) else "a write that is not `+= remainder` can overdraw the order")
    rep.floor("R2", "writes to the cancelled / lapsed / voided buckets", n_w, 10)
    # the LAY starting-price re-size: whenever the stake is re-derived from the liability, `cancelled`
    # absorbs the (possibly negative) difference on EVERY path to the fill - otherwise the total breaks
    sp = prog.own_method("SimulatedOrder", "_process_sp")
    cfgs = ctx.cfg(sp)
    resize = [n for n in cfgs.live_nodes() if n.kind == "stmt" and isinstance(n.ast, ast.Assign)
              and utext(n.ast.targets[0]) == "size" and "remaining_risk" in utext(n.ast.value)]
    comp = [n for n in cfgs.live_nodes() if n.kind == "stmt" and isinstance(n.ast, ast.AugAssign)
            and utext(n.ast.target) == "self.size_cancelled" and utext(n.ast.value) == "round(self.size_remaining - size, 2)"]
    fills = [n for n, c in node_calls(cfgs, "_update_matched")]
    good = len(resize) == 1 and len(comp) == 1 and len(fills) == 1 and \
        cfgs.all_paths_pass(resize[0].id, fills[0].id, [comp[0].id])
    rep.check(good, "R2", key(sp, None, "LAY starting-price re-size: cancelled absorbs remaining - new size on every path to the fill"),
              sp, comp[0].ast if comp else None,
              "a re-sized stake that is filled without the compensation overdraws the order (remaining < 0 when SP is below the limit)",
              cfgs.fmt_path(cfgs.path(resize[0].id, fills[0].id, [comp[0].id] if comp else [])) if (resize and fills and not good) else None)
    void_group(ctx, rep, "R2")
    # the requested size is the fixed side of the equation: the order that replaces another one gets an order
    # type of its own (a shared one would let the replacement's size overwrite the replaced order's), and nothing
    # of the replaced order is written while the replacement is built
    cr = prog.own_method("Trade", "create_order_replacement")
    from sa.kinds import resolve_local
    ctor = [c for c in walk_calls(cr.node.body) if call_name(c) == "BetfairOrder"]
    good = len(ctor) == 1
    if good:
        kws = {k.arg: k.value for k in ctor[0].keywords}
        ot = resolve_local(cr, kws.get("order_type")) if kws.get("order_type") is not None else None
        good = isinstance(ot, ast.Call) and call_name(ot) == "LimitOrder"
        if good:
            okw = {k.arg: utext(k.value) for k in ot.keywords}
            good = okw.get("price") == cr.params[2] and okw.get("size") == cr.params[3]
    rep.check(good, "R2", key(cr, None, "the replacing order has an order type of its own, with the new price and size"), cr)
    old_p = cr.params[1]
    writes = []
    for st in walk_nodes(cr.node.body, (ast.Assign, ast.AugAssign, ast.Delete)):
        for t, k in store_targets(st):
            b = t
            while isinstance(b, (ast.Attribute, ast.Subscript)):
                b = b.value
            if isinstance(b, ast.Name):
                src = resolve_local(cr, b)
                r = src
                while isinstance(r, (ast.Attribute, ast.Subscript)):
                    r = r.value
                if isinstance(r, ast.Name) and r.id == old_p:
                    writes.append(utext(st))
    rep.check(not writes, "R2", key(cr, None, "building the replacement writes nothing of the replaced order"), cr, None,
              "; ".join(writes))

    # ------------------------------------------------------------------ R3 terminal exits of place()
    pl = prog.own_method("SimulatedOrder", "place")
    cfg = ctx.cfg(pl)
    n_fail, n_fok = 0, 0
    empties = [n for n in cfg.live_nodes() if n.kind == "stmt" and isinstance(n.ast, ast.AugAssign)
               and utext(n.ast.value) == "self.size_remaining" and utext(n.ast.target) in (
                   "self.size_cancelled", "self.size_lapsed", "self.size_voided")]
    for n in cfg.live_nodes():
        if n.kind != "return" or not isinstance(n.ast.value, ast.Call):
            continue
        c = n.ast.value
        kws = {k.arg: utext(k.value) for k in c.keywords}
        gs = [(utext(g.exprs[0]), pol) for g, pol in cfg.guards(n.id)]
        is_fail = kws.get("status") == "'FAILURE'"
        is_fok = ("is_fill_or_kill_order", True) in gs
        if not (is_fail or is_fok):
            continue
        pre = [e for e in empties if cfg.dominates(e.id, n.id)
               and [(utext(g.exprs[0]), pol) for g, pol in cfg.guards(e.id)] == gs]
        if is_fail:
            n_fail += 1
            rep.check(bool(pre), "R3", key(pl, c, "failed placement empties the remainder [%s]" % kws.get("error_code")),
                      pl, c, "a FAILURE response with a remainder leaves a dead order that is never completed (#739)")
        if is_fok and not is_fail:
            n_fok += 1
            pre_c = [e for e in pre if utext(e.ast.target) == "self.size_cancelled"]
            rep.check(bool(pre_c), "R3", key(pl, c, "fill-or-kill return cancels the remainder") + " @" + ";".join(
                "%s=%s" % g for g in gs if "price" in g[0] or "available_size" in g[0] or "side" in g[0]), pl, c)
    rep.floor("R3", "FAILURE returns in SimulatedOrder.place", n_fail, 3)
    rep.floor("R3", "fill-or-kill returns in SimulatedOrder.place", n_fok, 1)
    # suspension lapse
    ca = prog.own_method("SimulatedOrder", "__call__")
    cfgc = ctx.cfg(ca)
    lapse = [n for n in cfgc.live_nodes() if n.kind == "stmt" and isinstance(n.ast, ast.AugAssign)
             and utext(n.ast.target) == "self.size_lapsed"]
    good = len(lapse) == 1
    if good:
        gs = [(utext(g.exprs[0]), pol) for g, pol in cfgc.guards(lapse[0].id)]
        good = ("market_book.status == 'SUSPENDED'", True) in gs and \
            ("self.order.order_type.persistence_type == 'LAPSE'", True) in gs and \
            gp("market_book.version != self.market_version") in gs
        good = good and _is_remainder(lapse[0].ast.value, ca, at=lapse[0].ast)
        # nothing after the lapse matches or writes the order: no call on the simulated order's own matching
        # functions and no store through `self` on any path from the lapse to the exit
        after = cfgc.reachable(lapse[0].id, include_src=False)
        for m in after:
            mn = cfgc.nodes[m]
            for cc in calls_in(mn):
                if call_name(cc).startswith("_process") or call_name(cc) in ("place", "cancel", "update"):
                    good = False
            if mn.kind == "stmt" and isinstance(mn.ast, (ast.Assign, ast.AugAssign, ast.AnnAssign)) and any(
                    isinstance(t, ast.Attribute) for t, k in store_targets(mn.ast)):
                good = False
    rep.check(good, "R3", key(ca, None, "lapse on a suspended material change empties the remainder and stops matching"), ca)

    # ------------------------------------------------------------------ R4 fills
    for f, s, t, kind in all_stores(prog, "size_matched"):
        bt = res.type_of(t.value, f)
        if bt is not None and bt.name != "SimulatedOrder":
            continue
        allowed = {"SimulatedOrder.__init__", "SimulatedOrder._update_matched", "SimulatedOrder._create_place_response",
                   "SimulatedOrder._process_price_matched_vwap", "SimulatedMiddleware._process_runner_removal"}
        if utext(t.value) == "order.current_order":
            continue  # SP liability scaling of MARKET_ON_CLOSE lays (C09, outside the limit-order buckets)
        rep.check(f.qual in allowed, "R4", "size_matched written in " + key(f, s), f, s)
        if f.qual not in ("SimulatedOrder.__init__", "SimulatedMiddleware._process_runner_removal"):
            rep.check(utext(s.value) == "wap(self.matched)", "R4", key(f, s, "size_matched is recomputed from the fills"), f, s)
    for f, s, t, kind in all_stores(prog, "matched"):
        bt = res.type_of(t.value, f)
        if bt is not None and bt.name != "SimulatedOrder":
            continue
        allowed = {"SimulatedOrder.__init__": "[]", "SimulatedOrder._process_price_matched_vwap": "[]",
                   "SimulatedMiddleware._process_runner_removal": "[]"}
        rep.check(f.qual in allowed and utext(s.value) == allowed.get(f.qual), "R4",
                  "fill list rebound in " + key(f, s), f, s, "fills are dropped only by the VWAP roll-back and the void")
    for f, c, mut in all_mutator_calls(prog, "matched"):
        r = c.func.value
        bt = res.type_of(r.value, f) if isinstance(r, ast.Attribute) else None
        if bt is not None and bt.name != "SimulatedOrder":
            continue
        rep.check(mut == "append" and f.qual in ("SimulatedOrder._update_matched", "SimulatedOrder._create_place_response"),
                  "R4", "fill list mutated in " + key(f, c), f, c)
    # the roll-back is the last thing the VWAP helper does and is guarded by the minimum fill
    vw = prog.own_method("SimulatedOrder", "_process_price_matched_vwap")
    cfgv = ctx.cfg(vw)
    rb = [n for n in cfgv.live_nodes() if n.kind == "stmt" and utext(n.ast) == "self.matched = []"]
    good = len(rb) == 1
    if good:
        gs = [(utext(g.exprs[0]), pol) for g, pol in cfgv.guards(rb[0].id)]
        good = gs == [(ct("self.size_matched < min_fill_size"), True)]
        after = [n for n in cfgv.live_nodes() if n.kind == "stmt" and utext(n.ast) == "self.size_cancelled += self.size_remaining"]
        good = good and len(after) == 1 and cfgv.dominates(rb[0].id, after[0].id)
    rep.check(good, "R4", key(vw, None, "VWAP roll-back: below the minimum fill nothing is matched and the order is cancelled"), vw)
    # full-match branch
    cp = prog.own_method("SimulatedOrder", "_create_place_response")
    cfgp = ctx.cfg(cp)
    ap = [n for n, c in node_calls(cfgp, "append") if recv_text(c) == "self.matched"]
    good = len(ap) == 1
    if good:
        gs = {(utext(g.exprs[0]), pol) for g, pol in cfgp.guards(ap[0].id)}
        c = [c for c in calls_in(ap[0], "append")][0]
        good = ("self.order.client.simulated_full_match", True) in gs and ("status == 'SUCCESS'", True) in gs and \
            ("self.size_remaining", True) in gs and utext(c.args[0].elts[2]) == "self.size_remaining"
    rep.check(good, "R4", key(cp, None, "full-match mode fills exactly the remainder of a successful placement"), cp)
    # passive fills clamp to the remainder
    for fn in ("_calculate_process_traded", "_calculate_process_available"):
        f = prog.own_method("SimulatedOrder", fn)
        ups = [c for c in walk_calls(f.node.body) if call_name(c) == "_update_matched"]
        good = len(ups) == 1 and isinstance(ups[0].args[0], ast.List) and len(ups[0].args[0].elts) == 3
        if good:
            sz = ups[0].args[0].elts[2]
            d = [x for x in walk_nodes(f.node.body, ast.Assign) if utext(x.targets[0]) == utext(sz)]
            good = bool(d) and _is_min_of_remaining(d[-1].value) and all(
                x.lineno < ups[0].lineno for x in d) and max(x.lineno for x in d) == d[-1].lineno
        rep.check(good, "R4", key(f, None, "passive fill clamped with min(self.size_remaining, .)"), f, None,
                  "an unclamped passive fill overfills the order")
    pl_calls = {}
    for fn in ("_process_price_matched", "_process_price_matched_vwap"):
        f = prog.own_method("SimulatedOrder", fn)
        for cs in res.call_sites_of(f):
            pl_calls.setdefault(fn, []).append(cs)
            good = cs.func.qual == "SimulatedOrder.place" and utext(cs.node.args[2]) == "size" and utext(cs.node.args[1]) == "price"
            rep.check(good, "R4", "caller of %s: %s" % (fn, key(cs.func, cs.node)), cs.func, cs.node,
                      "the crossing match assumes a fresh order and takes the order's full size")
    rep.floor("R4", "calls of the crossing-match helpers", sum(len(v) for v in pl_calls.values()), 2)
    sz = [s for s in walk_nodes(pl.node.body, ast.Assign) if utext(s.targets[0]) == "size"]
    rep.check(len(sz) == 1 and utext(sz[0].value) == "self.order.order_type.size", "R4",
              key(pl, None, "`size` is the order's requested size"), pl)
    um = prog.own_method("SimulatedOrder", "_update_matched")
    body = [utext(s) for s in um.node.body if not isinstance(s, ast.Expr) or call_name(s.value) != "debug"]
    rep.check(body == ["self.matched.append(data)", "self.size_matched, self.average_price_matched = wap(self.matched)"],
              "R4", key(um, None, "a fill is appended and the totals recomputed"), um, None, str(body))
    # cancel(): reduction clamped
    cn = prog.own_method("SimulatedOrder", "cancel")
    # what is added to the cancelled bucket: a local clamped with min(., remainder)
    adds = [x for x in walk_nodes(cn.node.body, ast.AugAssign) if utext(x.target) == "self.size_cancelled"]
    d = []
    if len(adds) == 1 and isinstance(adds[0].value, ast.Name):
        d = [x for x in walk_nodes(cn.node.body, ast.Assign) if len(x.targets) == 1 and utext(x.targets[0]) == adds[0].value.id]
    rep.check(len(d) == 1 and _is_min_of_remaining(d[0].value, cn), "R4",
              key(cn, None, "a cancel never removes more than the remainder"), cn)

    # ------------------------------------------------------------------ R5 completion on zero remainder
    sites = [("SimulatedOrder._create_place_response", "self.size_remaining"),
             ("SimulatedExecution.execute_cancel", "order.size_remaining"),
             ("FlumineSimulation._process_simulated_orders", "order.size_remaining")]
    for q, left in sites:
        cn_, mn = q.split(".")
        f = prog.own_method(cn_, mn)
        cfgf = ctx.cfg(f)
        conds = [n for n in cfgf.live_nodes() if n.kind == "cond" and oriented(canon_compare(n.exprs[0]), left)]
        good = len(conds) == 1
        if good:
            o = oriented(canon_compare(conds[0].exprs[0]), left)
            good = o[1] == "==" and o[2] in ("0", "0.0")
            tgt = [m for l, m in conds[0].succ if l == "T"][0]
            r = cfgf.reachable(tgt, [m for l, m in conds[0].succ if l == "F"])
            txt = " ".join(cfgf.nodes[x].text(200) for x in r)
            good = good and ("execution_complete" in txt or "EXECUTION_COMPLETE" in txt)
            # the test is made whatever operation is in flight on the order: a remainder of zero completes it
            from sa.kinds import guard_pairs
            stat = [t for t, pol in guard_pairs(cfgf, conds[0].id) if ".status" in t and "current_order" not in t and "market_book" not in t
                    and "instruction_report" not in t and "simulated_response" not in t]
            good = good and not stat
        rep.check(good, "R5", key(f, None, "complete exactly when the remainder is zero"), f, conds[0].exprs[0] if conds else None)


def _is_remainder(a, func=None, at=None):
    """`self.size_remaining`, or a local whose only binding reads it (the buckets are not written in this function
    before the local's last use other than by the statement that consumes it - checked by the caller's rule R2)"""
    if utext(a) == "self.size_remaining":
        return True
    if func is not None and isinstance(a, ast.Name) and a.id not in func.params:
        d = [x for x in walk_nodes(func.node.body, ast.Assign) if len(x.targets) == 1 and utext(x.targets[0]) == a.id]
        if len(d) == 1 and utext(d[0].value) == "self.size_remaining":
            # no bucket is written between the read and the end of the function except after all uses of the local
            writes = [x for x in walk_nodes(func.node.body, (ast.AugAssign, ast.Assign))
                      if any(isinstance(t, ast.Attribute) and t.attr in BUCKETS for t, k in store_targets(x))]
            uses = [n for n in ast.walk(func.node) if isinstance(n, ast.Name) and n.id == a.id and isinstance(n.ctx, ast.Load)]
            last_use = max((u.lineno, u.col_offset) for u in uses) if uses else (0, 0)
            if at is not None:
                # the use that matters is the consuming statement `at`: later reads of the local (a log line) see
                # the value the remainder had when it was consumed, which is what was consumed
                last_use = (at.lineno, at.col_offset)
                writes = [w for w in writes if w is not at]
            return all((w.lineno, w.col_offset) >= (last_use[0], 0) or w.lineno < d[0].lineno for w in writes)
    return False


def _is_min_of_remaining(v, func=None):
    if isinstance(v, ast.Call) and call_name(v) == "round" and v.args:
        v = v.args[0]
    return isinstance(v, ast.Call) and call_name(v) == "min" and any(_is_remainder(a, func) for a in v.args)


def MUTANTS(ctx):
    out = [
        dict(id="c04-replacement-shares-order-type", file="flumine/order/trade.py", func="Trade.create_order_replacement",
             old="        order_type = LimitOrder(\n            price=new_price,\n            size=size,\n            persistence_type=order.order_type.persistence_type,\n        )\n",
             new="        order_type = order.order_type\n        order_type.price = new_price\n        order_type.size = size\n", expect=["R2"],
             why="the replaced order's requested size is overwritten by the replacement's"),
        dict(id="c04-drop-lapsed-from-remaining", file=SIM, func="SimulatedOrder.size_remaining",
             old="                - self.size_lapsed\n", new="", expect=["R1"], why="lapsed size still counted as remaining"),
        dict(id="c04-cancel-unclamped", file=SIM, func="SimulatedOrder.cancel",
             old="            _size_cancelled = min(\n                _size_reduction, self.size_remaining\n            )",
             new="            _size_cancelled = _size_reduction", expect=["R2", "R4"], why="over-cancel drives the remainder negative"),
        dict(id="c04-traded-unclamped", file=SIM, func="SimulatedOrder._calculate_process_traded",
             old="            size = round(min(self.size_remaining, size), 2)", new="            size = round(size, 2)", expect=["R4"],
             why="passive fill larger than the remainder"),
        dict(id="c04-foreign-writer", file="flumine/execution/simulatedexecution.py", func="SimulatedExecution.execute_cancel",
             old="                elif simulated_response.status == \"FAILURE\":\n                    order.executable()",
             new="                elif simulated_response.status == \"FAILURE\":\n                    order.simulated.size_cancelled = order.order_type.size\n                    order.executable()",
             expect=["R2"], why="bucket overwritten from the execution layer"),
        dict(id="c04-void-keeps-cancelled", file="flumine/markets/middleware.py", func="SimulatedMiddleware._process_runner_removal",
             old="                    order.simulated.size_cancelled = 0.0\n", new="", expect=["R2"], why="negative remainder after a void (F05)"),
        dict(id="c04-lapse-without-return", file=SIM, func="SimulatedOrder.__call__",
             old="                        self.size_lapsed += self.size_remaining\n                        return\n",
             new="                        self.size_lapsed += self.size_remaining\n", expect=["R3"], why="lapsed order still matched"),
        dict(id="c04-completion-test-le", file="flumine/simulation/simulation.py", func="FlumineSimulation._process_simulated_orders",
             old="                    if order.size_remaining == 0:", new="                    if order.size_remaining >= 0:", expect=["R5"],
             why="orders completed with a remainder"),
        dict(id="c04-vwap-no-rollback", file=SIM, func="SimulatedOrder._process_price_matched_vwap",
             old="        if self.size_matched < min_fill_size:\n            self.matched = []\n            self.size_matched, self.average_price_matched = wap(self.matched)\n            self.size_cancelled += self.size_remaining",
             new="        if self.size_matched < min_fill_size:\n            self.size_cancelled += self.size_remaining",
             expect=["R4"], why="FOK partially filled below the minimum"),
        dict(id="c04-full-match-whole-size", file=SIM, func="SimulatedOrder._create_place_response",
             old="                    [0, self.order.order_type.price, self.size_remaining]",
             new="                    [0, self.order.order_type.price, self.order.order_type.size]", expect=["R4"],
             why="full-match mode overfills a partly matched order"),
        dict(id="c04-sp-resize-wrong-bucket", file=SIM, func="SimulatedOrder._process_sp",
             old="                        self.size_cancelled += round(self.size_remaining - size, 2)",
             new="                        self.size_cancelled = round(self.size_remaining - size, 2)", expect=["R2"],
             why="earlier cancellations forgotten at the starting price"),
        dict(id="c04-sp-resize-guarded", file=SIM, func="SimulatedOrder._process_sp",
             old="                        self.size_cancelled += round(self.size_remaining - size, 2)",
             new="                        if size < self.size_remaining:\n                            self.size_cancelled += round(self.size_remaining - size, 2)",
             expect=["R2"], why="SP below the limit: matched overshoots, remainder negative"),
        dict(id="c04-matched-decrement", file=SIM, func="SimulatedOrder._calculate_process_available",
             old="        self._piq = 0", new="        self._piq = 0\n        self.size_matched = round(self.size_matched, 1)", expect=["R4"],
             why="matched size changed outside the fill funnel"),
    ]
    # delete the `+= self.size_remaining` before each FAILURE return of place()
    f = ctx.prog.own_method("SimulatedOrder", "place")
    src = ctx.prog.modules["flumine.simulation.simulatedorder"].source.splitlines(keepends=True)
    k = 0
    for s in walk_nodes(f.node.body, ast.AugAssign):
        if utext(s.value) == "self.size_remaining":
            line = src[s.lineno - 1]
            out.append(dict(id="c04-drop-empty-%d" % k, file=SIM, func="SimulatedOrder.place", old=line, new="",
                            nth=sum(1 for x in walk_nodes(f.node.body, ast.AugAssign)
                                    if utext(x.value) == "self.size_remaining" and src[x.lineno - 1] == line
                                    and x.lineno < s.lineno),
                            expect=["R3"], why="terminal exit with a remainder"))
            k += 1
    return out
