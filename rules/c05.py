"""C05 - Fills never breach the order's limit; fill-or-kill is all-or-nothing."""

import ast
import itertools

from sa import AnalysisError
from sa.kinds import (key, utext, call_name, recv_text, calls_in, node_calls, canon_compare, oriented)
from sa.cfg import walk_calls, walk_nodes
from sa.astutil import canon_text as CT

EXPLANATION = (
    "Decided part of C05: (R1) provenance and orientation of every fill: a fill's price is either the order's "
    "own limit (passive fills, full-match mode) or a book level, and then - decided by evaluating the branch "
    "conditions over the finite domain side x ordering(limit, level) - the fill is appended exactly when "
    "BACK: limit <= level, LAY: limit >= level (crossing match), resp. BACK: vwap >= limit, LAY: vwap <= limit "
    "(fill-or-kill sweep); the ladder handed to the match helpers is the order's own side "
    "(BACK -> available_to_back, LAY -> available_to_lay); the level-by-level take stops at the first level "
    "that fails the test; starting-price reconciliation is the named exception; (R2) no fill-or-kill branch "
    "can reach the queue-position code, every one cancels the remainder, and the VWAP sweep ends with the "
    "minimum-fill roll-back; (R3) with best-price execution off, an order priced through the best price "
    "lapses before any match call of its side is reachable. Not decided: the VWAP value, 'never more than "
    "available at a level' (per-level arithmetic), minimum-fill arithmetic."
)

SIM = "flumine/simulation/simulatedorder.py"
ORD = ("<", "=", ">")


def _cmp_eval(o, rel):
    """truth of `a op b` when ordering(a, b) = rel"""
    a_lt, a_eq, a_gt = rel == "<", rel == "=", rel == ">"
    return {"<": a_lt, "<=": a_lt or a_eq, ">": a_gt, ">=": a_gt or a_eq, "==": a_eq, "!=": not a_eq}[o]


def reach_under(cfg, start, targets, atom_eval, stop=()):
    """which target node ids are reachable from `start` when cond atoms are decided by atom_eval
    (None = explore both edges); `stop`: node ids not to pass through"""
    seen, todo = set(), [start]
    hit = set()
    while todo:
        nid = todo.pop()
        if nid in seen or nid in stop:
            continue
        seen.add(nid)
        if nid in targets:
            hit.add(nid)
        n = cfg.nodes[nid]
        if n.kind == "cond":
            v = atom_eval(n.exprs[0])
            if v is not None:
                todo += [m for l, m in n.succ if l == ("T" if v else "F")]
                continue
        todo += [m for l, m in n.succ if l != "exc"]
    return hit


def _ladder_loops(func, param):
    """for loops over the ladder parameter: `for x in ladder` or `for i, x in enumerate(ladder)`"""
    out = []

    def is_ladder(e, depth=0):
        """the ladder parameter itself, a best-first prefix of it (`ladder[:n]`), or a local that only ever
        names one of these"""
        if utext(e) == param:
            return True
        if isinstance(e, ast.Subscript) and isinstance(e.slice, ast.Slice) and e.slice.lower is None and e.slice.step is None:
            return is_ladder(e.value, depth)
        if isinstance(e, ast.Name) and e.id not in func.params and depth < 3:
            defs = [s.value for s in walk_nodes(func.node.body, ast.Assign) if len(s.targets) == 1 and utext(s.targets[0]) == e.id]
            return bool(defs) and all(is_ladder(v, depth + 1) for v in defs)
        return False
    for lp in walk_nodes(func.node.body, ast.For):
        it = lp.iter
        if is_ladder(it) or (isinstance(it, ast.Call) and call_name(it) == "enumerate" and it.args and is_ladder(it.args[0])):
            out.append(lp)
    return out


def _level_var(lp):
    t = lp.target
    if isinstance(t, ast.Tuple):
        t = t.elts[-1]
    return utext(t)


def run(ctx, rep):
    prog, res = ctx.prog, ctx.res
    so = prog.cls("SimulatedOrder")

    # ------------------------------------------------------------------ R1 crossing match
    pm = prog.own_method("SimulatedOrder", "_process_price_matched")
    cfg = ctx.cfg(pm)
    loops = _ladder_loops(pm, pm.params[4])
    if len(loops) != 1:
        raise AnalysisError("_process_price_matched: loop over the ladder not found")
    lv = _level_var(loops[0])
    head = [n for n in cfg.live_nodes() if n.kind == "for" and n.ast is loops[0]][0]
    start = [m for l, m in head.succ if l == "iter"][0]
    ups = [n for n, c in node_calls(cfg, "_update_matched")]
    rep.check(len(ups) == 1, "R1", key(pm, None, "one fill per level"), pm)
    bad = []
    n_cases = 0
    for side, rel in itertools.product(("BACK", "LAY"), ORD):
        def ev(e, side=side, rel=rel):
            t = utext(e)
            if t == "self.side == 'BACK'":
                return side == "BACK"
            if t == "self.side == 'LAY'":
                return side == "LAY"
            if t in ("size_remaining == 0",):
                return False
            o = oriented(canon_compare(e), pm.params[2])
            if o and o[2] == "%s['price']" % lv:
                return _cmp_eval(o[1], rel)
            return None
        n_cases += 1
        hit = reach_under(cfg, start, {u.id for u in ups}, ev, stop={head.id})
        want = (side == "BACK" and rel in ("<", "=")) or (side == "LAY" and rel in (">", "="))
        if bool(hit) != want:
            bad.append("%s limit %s level: fill %s, expected %s" % (side, rel, bool(hit), want))
        # a level that fails the test ends the sweep (no later, worse level is taken)
        if not want:
            back = reach_under(cfg, start, {head.id}, ev)
            if back:
                bad.append("%s limit %s level: sweep continues past a level that fails the limit" % (side, rel))
    rep.check(not bad, "R1", key(pm, None, "crossing match fills exactly when BACK: limit <= level, LAY: limit >= level; stops at the limit"),
              pm, None, "; ".join(bad))
    if ups:
        d = [s for s in walk_nodes(pm.node.body, ast.Assign) if utext(s.targets[0]) == utext([c for c in calls_in(ups[0], "_update_matched")][0].args[0])]
        rep.check(len(d) == 1 and isinstance(d[0].value, ast.List) and utext(d[0].value.elts[1]) == "%s['price']" % lv, "R1",
                  key(pm, None, "the fill price is the level's price (never worse than the limit by the test above)"), pm)

    # VWAP sweep
    vw = prog.own_method("SimulatedOrder", "_process_price_matched_vwap")
    cfgv = ctx.cfg(vw)
    loops = _ladder_loops(vw, vw.params[4])
    if len(loops) != 1:
        raise AnalysisError("_process_price_matched_vwap: loop over the ladder not found")
    if not any(isinstance(x.value, ast.Call) and call_name(x.value) == "wap" and x in list(ast.walk(loops[0]))
               for x in walk_nodes(vw.node.body, ast.Assign)):
        raise AnalysisError("_process_price_matched_vwap: the volume-weighted average is not computed by utils.wap() over "
                            "the candidate fills; a re-implemented average is arithmetic this checker does not model")
    headv = [n for n in cfgv.live_nodes() if n.kind == "for" and n.ast is loops[0]][0]
    startv = [m for l, m in headv.succ if l == "iter"][0]
    upsv = [n for n, c in node_calls(cfgv, "_update_matched")]
    bad = []
    for side, rel in itertools.product(("BACK", "LAY"), ORD):
        def ev(e, side=side, rel=rel):
            t = utext(e)
            if t == "self.side == 'BACK'":
                return side == "BACK"
            if t == "self.side == 'LAY'":
                return side == "LAY"
            if t == "size_remaining == 0":
                return False
            o = oriented(canon_compare(e), "_average_price_matched")
            if o and o[2] == vw.params[2]:
                return _cmp_eval(o[1], rel)
            return None
        n_cases += 1
        hit = reach_under(cfgv, startv, {u.id for u in upsv}, ev, stop={headv.id})
        want = (side == "BACK" and rel in (">", "=")) or (side == "LAY" and rel in ("<", "="))
        if bool(hit) != want:
            bad.append("%s vwap %s limit: fill %s, expected %s" % (side, rel, bool(hit), want))
        if not want and reach_under(cfgv, startv, {headv.id}, ev):
            bad.append("%s vwap %s limit: sweep continues after the average breached the limit" % (side, rel))
    rep.check(not bad, "R1", key(vw, None, "fill-or-kill sweep accepts a level only while BACK: vwap >= limit, LAY: vwap <= limit"),
              vw, None, "; ".join(bad))
    rep.note("orientation_truth_table_cases", n_cases)
    avg = [s for s in walk_nodes(vw.node.body, ast.Assign) if "_average_price_matched" in utext(s.targets[0])]
    rep.check(len(avg) == 1 and utext(avg[0].value) == "wap(_all_matched)", "R1",
              key(vw, None, "the tested average includes the candidate level"), vw)
    cand = [c for c in walk_calls(vw.node.body) if call_name(c) == "append" and recv_text(c) == "_all_matched"]
    cp = [s for s in walk_nodes(vw.node.body, ast.Assign) if utext(s.targets[0]) == "_all_matched"]
    rep.check(len(cand) == 1 and len(cp) == 1 and utext(cp[0].value) == "self.matched.copy()", "R1",
              key(vw, None, "candidate = current fills + this level, on a copy"), vw)

    # the ladder handed to the helpers is the order's own side; own-limit fills
    pl = prog.own_method("SimulatedOrder", "place")
    cfgp = ctx.cfg(pl)
    n_calls = 0
    for n in cfgp.live_nodes():
        for c in calls_in(n):
            if call_name(c) in ("_process_price_matched", "_process_price_matched_vwap"):
                n_calls += 1
                gs = [(utext(g.exprs[0]), pol) for g, pol in cfgp.guards(n.id)]
                side = "BACK" if ("self.order.side == 'BACK'", True) in gs else (
                    "LAY" if ("self.order.side == 'BACK'", False) in gs else "?")
                want = {"BACK": "runner.ex.available_to_back", "LAY": "runner.ex.available_to_lay"}.get(side)
                rep.check(utext(c.args[3]) == want and utext(c.args[1]) == "price" and utext(c.args[2]) == "size", "R1",
                          key(pl, c, "%s order matched against its own side of the book at its limit" % side), pl, c)
    rep.floor("R1", "crossing-match calls in place()", n_calls, 2)
    pr = [s for s in walk_nodes(pl.node.body, ast.Assign) if utext(s.targets[0]) == "price"]
    rep.check(len(pr) == 1 and utext(pr[0].value) == "self.order.order_type.price", "R1",
              key(pl, None, "`price` is the order's limit"), pl)
    ct = prog.own_method("SimulatedOrder", "_calculate_process_traded")
    um = [c for c in walk_calls(ct.node.body) if call_name(c) == "_update_matched"]
    rep.check(len(um) == 1 and utext(um[0].args[0].elts[1]) == "self.order.order_type.price", "R1",
              key(ct, None, "passive fills are booked at the order's own limit"), ct)
    ca = prog.own_method("SimulatedOrder", "_calculate_process_available")
    um = [c for c in walk_calls(ca.node.body) if call_name(c) == "_update_matched"]
    ok = len(um) == 1 and utext(um[0].args[0].elts[1]) == ca.params[2]
    for cs in res.call_sites_of(ca):
        ok = ok and utext(cs.node.args[1]) == "price" and any(
            utext(s) == "price = self.order.order_type.price" for s in walk_nodes(cs.func.node.body, ast.Assign))
    rep.check(ok, "R1", key(ca, None, "available-price fills are booked at the order's own limit"), ca)
    cr = prog.own_method("SimulatedOrder", "_create_place_response")
    ap = [c for c in walk_calls(cr.node.body) if call_name(c) == "append" and recv_text(c) == "self.matched"]
    rep.check(len(ap) == 1 and utext(ap[0].args[0].elts[1]) == "self.order.order_type.price", "R1",
              key(cr, None, "full-match mode fills at the order's own limit"), cr)
    # every other _update_matched caller is listed
    um_f = prog.own_method("SimulatedOrder", "_update_matched")
    callers = sorted({cs.func.qual for cs in res.call_sites_of(um_f)})
    rep.check(set(callers) <= {"SimulatedOrder._calculate_process_available", "SimulatedOrder._calculate_process_traded",
                               "SimulatedOrder._process_price_matched", "SimulatedOrder._process_price_matched_vwap",
                               "SimulatedOrder._process_sp"}, "R1", "fill sites are among the five known ones (SP reconciliation is the named exception)",
              None, None, str(callers))

    # the book an order is matched against is its own runner's: selection AND handicap
    gr = prog.own_method("SimulatedOrder", "_get_runner")
    dcs = walk_nodes(gr.node.body, ast.DictComp)
    good = len(dcs) == 1 and utext(dcs[0].key) == "(runner.selection_id, runner.handicap)" and utext(dcs[0].value) == "runner" \
        and utext(dcs[0].generators[0].iter) == "%s.runners" % gr.params[1] and not dcs[0].generators[0].ifs
    rets = [r for r in walk_nodes(gr.node.body, ast.Return) if r.value is not None]
    good = good and len(rets) == 1 and isinstance(rets[0].value, ast.Call) and call_name(rets[0].value) == "get" \
        and utext(rets[0].value.args[0]) == "(self.order.selection_id, self.order.handicap)"
    rep.check(good, "R1", key(gr, None, "an order is matched against the book of its own runner (selection and handicap)"), gr, None,
              "on markets with handicap lines the same selection id appears once per line")
    for cs in res.call_sites_of(gr):
        rep.check(utext(cs.node.args[0]) in ("market_book",), "R1", key(cs.func, cs.node, "runner taken from the book being matched"), cs.func, cs.node)

    # ------------------------------------------------------------------ R2 fill-or-kill never rests
    fok = [n for n in cfgp.live_nodes() if n.kind == "cond" and utext(n.exprs[0]) == "is_fill_or_kill_order"
           and any(utext(g.exprs[0]) == "self.order.side == 'BACK'" for g, pol in cfgp.guards(n.id))]
    rep.floor("R2", "fill-or-kill branches (one per side)", len(fok), 2)
    piq = [n.id for n in cfgp.live_nodes() if n.kind in ("stmt", "for_init") and ("self._piq" in n.text(200) or
                                                                               (n.kind == "for_init" and utext(n.ast.iter) == "available"))]
    rep.floor("R2", "queue-position statements", len(piq), 1)
    for n in fok:
        t = [m for l, m in n.succ if l == "T"][0]
        r = cfgp.reachable(t)
        rep.check(not (set(piq) & r), "R2", key(pl, None, "a fill-or-kill order never reaches the queue (line %d)" % n.lineno), pl, n.exprs[0],
                  "a fill-or-kill order that rests in the market can be filled later")
        rets = [cfgp.nodes[x] for x in r if cfgp.nodes[x].kind == "return"]
        cancels = [x.id for x in cfgp.live_nodes() if x.kind == "stmt" and utext(x.ast) == "self.size_cancelled += self.size_remaining"
                   and x.id in r]
        # every way out of the fill-or-kill branch passes the statement that cancels the remainder
        okc = bool(rets) and bool(cancels) and all(cfgp.all_paths_pass(t, rt.id, cancels) for rt in rets) and \
            cfgp.all_paths_pass(t, cfgp.exit, cancels + [rt.id for rt in rets])
        rep.check(okc, "R2", key(pl, None, "every fill-or-kill exit cancels the unfilled part (line %d)" % n.lineno), pl, n.exprs[0])
    # the kill decision: limit through / at / behind the best price
    for side, best in (("BACK", "available_to_back"), ("LAY", "available_to_lay")):
        atoms = [utext(n.exprs[0]) for n in cfgp.live_nodes() if n.kind == "cond" and
                 ("is_fill_or_kill_order", True) in [(utext(g.exprs[0]), pol) for g, pol in cfgp.guards(n.id)]
                 and best in utext(n.exprs[0])]
        through = CT("price > %s" % best if side == "BACK" else "price < %s" % best)
        rep.check(through in atoms and CT("price == %s" % best) in atoms, "R2",
                  key(pl, None, "%s fill-or-kill: behind the best price nothing is matched, at it the level must hold the minimum fill" % side),
                  pl, None, str(atoms))
    mf = [n for n in cfgp.live_nodes() if n.kind == "cond" and utext(n.exprs[0]) == CT("available_size >= min_fill_size")]
    rep.check(len(mf) == 2, "R2", key(pl, None, "at the best price the level must hold at least the minimum fill"), pl)
    rb = [n for n in cfgv.live_nodes() if n.kind == "cond" and utext(n.exprs[0]) == CT("self.size_matched < min_fill_size")]
    good = len(rb) == 1 and cfgv.unconditional(rb[0].id)
    if good:
        t = [m for l, m in rb[0].succ if l == "T"][0]
        txt = " ".join(cfgv.nodes[x].text(200) for x in cfgv.reachable(t))
        good = "self.matched = []" in txt and "self.size_cancelled += self.size_remaining" in txt
        good = good and cfgv.all_paths_pass(cfgv.entry, cfgv.exit, [rb[0].id])
    rep.check(good, "R2", key(vw, None, "the sweep ends with the minimum-fill roll-back (all or nothing)"), vw)

    # ------------------------------------------------------------------ R3 best-price execution off
    for side, best, rel in (("BACK", "available_to_back", ">"), ("LAY", "available_to_lay", "<")):
        atoms = [n for n in cfgp.live_nodes() if n.kind == "cond" and oriented(canon_compare(n.exprs[0]), best)
                 and oriented(canon_compare(n.exprs[0]), best)[2] == "price"
                 and ("order_package.client.best_price_execution", False) in [(utext(g.exprs[0]), pol) for g, pol in cfgp.guards(n.id)]]
        if not rep.check(len(atoms) == 1 and oriented(canon_compare(atoms[0].exprs[0]), best)[1] == rel, "R3",
                         key(pl, None, "%s: price improvement test is best %s limit, evaluated only with best-price execution off" % (side, rel)),
                         pl, None, str([utext(a.exprs[0]) for a in atoms])):
            continue
        a = atoms[0]
        t = [m for l, m in a.succ if l == "T"][0]
        r = cfgp.reachable(t)
        matchers = [n.id for n in cfgp.live_nodes() if any(call_name(c) in ("_process_price_matched", "_process_price_matched_vwap")
                                                           for c in calls_in(n))]
        rets = [cfgp.nodes[x] for x in r if cfgp.nodes[x].kind == "return"]
        good = not (set(matchers) & r) and not (set(piq) & r) and len(rets) == 1 and "FAILURE" in rets[0].text(200)
        lap = [x for x in r if cfgp.nodes[x].kind == "stmt" and utext(cfgp.nodes[x].ast) == "self.size_lapsed += self.size_remaining"]
        rep.check(good and bool(lap), "R3", key(pl, None, "%s priced through the best price lapses instead of being price-improved" % side), pl, a.exprs[0])
        # the test comes before every match call of its side
        side_matchers = [n for n in cfgp.live_nodes() if n.id in matchers and
                         ("self.order.side == 'BACK'", side == "BACK") in [(utext(g.exprs[0]), pol) for g, pol in cfgp.guards(n.id)]]
        bpe = [n for n in cfgp.live_nodes() if n.kind == "cond" and utext(n.exprs[0]) == "order_package.client.best_price_execution"
               and ("self.order.side == 'BACK'", side == "BACK") in [(utext(g.exprs[0]), pol) for g, pol in cfgp.guards(n.id)]]
        rep.check(len(bpe) == 1 and all(cfgp.dominates(bpe[0].id, m.id) for m in side_matchers) and len(side_matchers) == 3, "R3",
                  key(pl, None, "%s: the best-price-execution test precedes every match call" % side), pl)


MUTANTS = [
    dict(id="c05-flip-back-test", file=SIM, func="SimulatedOrder._process_price_matched",
         old='elif (self.side == "BACK" and price <= avail["price"]) or (', new='elif (self.side == "BACK" and price >= avail["price"]) or (',
         expect=["R1"], why="BACK filled below its limit"),
    dict(id="c05-no-limit-test", file=SIM, func="SimulatedOrder._process_price_matched",
         old='            elif (self.side == "BACK" and price <= avail["price"]) or (\n                self.side == "LAY" and price >= avail["price"]\n            ):',
         new="            elif True:", expect=["R1"], why="sweeps the whole ladder regardless of the limit"),
    dict(id="c05-wrong-ladder", file=SIM, func="SimulatedOrder.place",
         old="                elif available_to_back >= price:\n                    self._process_price_matched(\n                        market_book.publish_time_epoch,\n                        price,\n                        size,\n                        runner.ex.available_to_back,",
         new="                elif available_to_back >= price:\n                    self._process_price_matched(\n                        market_book.publish_time_epoch,\n                        price,\n                        size,\n                        runner.ex.available_to_lay,",
         expect=["R1"], why="BACK matched against the lay side"),
    dict(id="c05-fok-no-cancel", file=SIM, func="SimulatedOrder.place",
         old="                        self.size_cancelled += self.size_remaining\n                        return self._create_place_response(bet_id)\n                    elif price == available_to_back:",
         new="                        return self._create_place_response(bet_id)\n                    elif price == available_to_back:",
         expect=["R2"], why="unfilled fill-or-kill remainder not cancelled"),
    dict(id="c05-fok-rests", file=SIM, func="SimulatedOrder.place",
         old="                    if price < available_to_lay:\n                        self.size_cancelled += self.size_remaining\n                        return self._create_place_response(bet_id)\n",
         new="                    if price < available_to_lay:\n                        pass\n", expect=["R2"], why="fill-or-kill order rests in the queue"),
    dict(id="c05-bpe-after-match", file=SIM, func="SimulatedOrder.place",
         old="                if (\n                    not order_package.client.best_price_execution\n                    and available_to_lay < price\n                ):",
         new="                if (\n                    not order_package.client.best_price_execution\n                    and available_to_lay > price\n                ):",
         expect=["R3"], why="price-improved fills with best-price execution off"),
    dict(id="c05-no-rollback", file=SIM, func="SimulatedOrder._process_price_matched_vwap",
         old="        if self.size_matched < min_fill_size:\n            self.matched = []\n", new="        if False:\n            self.matched = []\n",
         expect=["R2"], why="fill-or-kill partially filled below the minimum"),
    dict(id="c05-vwap-lay-flip", file=SIM, func="SimulatedOrder._process_price_matched_vwap",
         old='            elif self.side == "LAY" and _average_price_matched <= price:', new='            elif self.side == "LAY" and _average_price_matched >= price:',
         expect=["R1"], why="LAY fill-or-kill filled above its limit"),
    dict(id="c05-sweep-continues", file=SIM, func="SimulatedOrder._process_price_matched",
         old="                self._update_matched(_matched)\n            else:\n                break", new="                self._update_matched(_matched)\n            else:\n                continue",
         expect=["R1"], why="later levels taken after one failed the limit"),
    dict(id="c05-passive-at-traded-price", file=SIM, func="SimulatedOrder._calculate_process_traded",
         old="                        self.order.order_type.price,\n", new="                        self._piq,\n", expect=["R1"],
         why="passive fill booked at a price that is not the limit"),
    dict(id="c05-vwap-without-candidate", file=SIM, func="SimulatedOrder._process_price_matched_vwap",
         old="            _, _average_price_matched = wap(_all_matched)", new="            _, _average_price_matched = wap(self.matched)", expect=["R1"],
         why="average tested without the level being added"),
    dict(id="c05-min-fill-check-dropped", file=SIM, func="SimulatedOrder.place",
         old="                    elif price == available_to_back:\n                        if available_size >= min_fill_size:\n                            self._process_price_matched(",
         new="                    elif price == available_to_back:\n                        if True:\n                            self._process_price_matched(",
         expect=["R2"], why="fill-or-kill filled below its minimum at the best price"),
]
