"""C12 - Exchange call faults never strand an order or lose a transaction count."""

import ast

from sa import AnalysisError
from sa.kinds import (key, utext, call_name, recv_text, calls_in, node_calls, all_stores,
                      loop_body_exits_early)
from sa.cfg import walk_calls, walk_nodes
from sa.astutil import canon
from sa.astutil import canon_text as ct

EXPLANATION = (
    "Structural decision of C12 for the Betfair and the simulated execution: (R1) in every response handler, "
    "for every value of the instruction-report status domain (Betfair: SUCCESS/FAILURE/TIMEOUT; simulated: "
    "the statuses the Simulated*Response constructors are called with) every path through the per-order body "
    "calls executable() or execution_complete() on that order - the only branches allowed to leave a "
    "placement PENDING are SUCCESS with order_status PENDING (async) and TIMEOUT - and every setter call sits "
    "inside `with order.trade`, whose __exit__ restores LIVE; (R2) cancel reports are matched by bet id and "
    "orders not reported are reset; (R3) wherever a handler pairs the package with instructions or reports by "
    "position, the filter of the instruction list is either applied to the orders as well or cannot drop an "
    "order in the handler's entry states (typestate closure); (R4) retry() is a bounded monotone counter, the "
    "re-dispatch is control-dependent on it and the other branch resets the orders (complete for PLACE); "
    "(R5) the transaction count table (place: len(package); cancel/update: failures only; replace: "
    "len(package) + failures; only when a response exists; every `failed += 1` in a FAILURE branch) is "
    "identical in both executions and add_transaction forwards (count, failed) to the client's controls."
)

SETTERS = ("executable", "execution_complete")


def status_domain_sim(prog):
    dom = set()
    so = prog.cls("SimulatedOrder")
    allcalls = []
    for fn in so.methods.values():
        allcalls += walk_calls(fn.node.body)
    for c in allcalls:
        nm = call_name(c)
        if nm in ("SimulatedPlaceResponse", "SimulatedCancelResponse", "SimulatedUpdateResponse",
                  "_create_place_response"):
            for kw in c.keywords:
                if kw.arg == "status" and isinstance(kw.value, ast.Constant):
                    dom.add(kw.value.value)
    # default of _create_place_response
    cp = prog.own_method("SimulatedOrder", "_create_place_response")
    a = cp.node.args
    defaults = dict(zip([x.arg for x in a.args][-len(a.defaults):], a.defaults))
    if "status" in defaults and isinstance(defaults["status"], ast.Constant):
        dom.add(defaults["status"].value)
    return dom


def status_atoms(cfg, nodes):
    """{family text: {frozenset of literals: [cond node]}} for atoms `<family> == 'LIT'` and
    `<family> in ('A', 'B')` among the given nodes (a key is the set of values for which the atom is true)"""
    fam = {}
    for n in nodes:
        if n.kind != "cond":
            continue
        e = canon(n.exprs[0])
        if not (isinstance(e, ast.Compare) and len(e.ops) == 1 and isinstance(e.left, ast.Attribute)
                and e.left.attr in ("status", "order_status")):
            continue
        r = e.comparators[0]
        lits = None
        if isinstance(e.ops[0], ast.Eq) and isinstance(r, ast.Constant) and isinstance(r.value, str):
            lits = frozenset([r.value])
        elif isinstance(e.ops[0], ast.In) and isinstance(r, (ast.Tuple, ast.List, ast.Set)) and r.elts and \
                all(isinstance(x, ast.Constant) and isinstance(x.value, str) for x in r.elts):
            lits = frozenset(x.value for x in r.elts)
        if lits is not None:
            fam.setdefault(utext(e.left), {}).setdefault(lits, []).append(n)
    return fam


def _block_for(famtab, v):
    """edges excluded when the family's value is v"""
    blocked = set()
    for lits, nodes in famtab.items():
        for n in nodes:
            blocked.add((n.id, "F" if v in lits else "T"))
    return blocked


def order_loop(func, var="order"):
    """the for loop whose target binds the order variable and whose body contains `with <var>.trade`"""
    out = []
    for lp in walk_nodes(func.node.body, ast.For):
        names = [n.id for n in ast.walk(lp.target) if isinstance(n, ast.Name)]
        if var in names and any(utext(w.items[0].context_expr) == "%s.trade" % var
                                for w in walk_nodes(lp.body, ast.With)):
            out.append(lp)
    return out


def run(ctx, rep):
    prog, res = ctx.prog, ctx.res
    from rules.c03 import build as build_typestate
    ts = build_typestate(ctx)
    domains = {"BetfairExecution": {"SUCCESS", "FAILURE", "TIMEOUT"},
               "SimulatedExecution": status_domain_sim(prog)}
    rep.note("report_status_domains", {k: sorted(v) for k, v in domains.items()})
    rep.check(domains["SimulatedExecution"] == {"SUCCESS", "FAILURE"}, "R1",
              "simulated report status domain is {SUCCESS, FAILURE}", None, None,
              str(sorted(domains["SimulatedExecution"])))

    # ------------------------------------------------------------------ R1
    n_branches = 0
    for cname in ("BetfairExecution", "SimulatedExecution"):
        for hname in ("execute_place", "execute_cancel", "execute_update", "execute_replace"):
            f = prog.own_method(cname, hname)
            cfg = ctx.cfg(f)
            withs = [w for w in walk_nodes(f.node.body, ast.With)
                     if utext(w.items[0].context_expr) == "order.trade"]
            if not withs:
                raise AnalysisError("%s: no `with order.trade` scope found" % f.qual)
            chained = [w for w in withs if any(
                isinstance(c, ast.Compare) and isinstance(c.left, ast.Attribute) and c.left.attr == "status"
                and isinstance(c.comparators[0], ast.Constant) for c in [canon(x) for x in walk_nodes(w.body, ast.Compare)])]
            if len(chained) != 1:
                raise AnalysisError("%s: expected one per-order body with a report-status chain, found %d" % (
                    f.qual, len(chained)))
            w = chained[0]
            for w2 in withs:
                if w2 is w:
                    continue
                # a scope without a status chain (reset of unreported orders): unconditional setter
                e2 = [n for n in cfg.live_nodes() if n.kind == "with_enter" and n.ast is w2][0]
                x2 = [n for n in cfg.live_nodes() if n.kind == "with_exit" and n.ast is w2 and n.variant == "normal"]
                s2 = [n.id for n in cfg.live_nodes()
                      if any(call_name(c) in SETTERS and recv_text(c) == "order" for c in calls_in(n))]
                rep.check(all(cfg.all_paths_pass(e2.id, x.id, s2) for x in x2), "R1",
                          key(f, w2.body[0], "unconditional reset inside the trade scope"), f, w2)
            enter = [n for n in cfg.live_nodes() if n.kind == "with_enter" and n.ast is w]
            exits = [n for n in cfg.live_nodes() if n.kind == "with_exit" and n.ast is w
                     and n.variant in ("normal", "cont")]
            if len(enter) != 1 or not exits:
                raise AnalysisError("%s: with-scope nodes not found" % f.qual)
            enter = enter[0]
            inside = cfg.reachable(enter.id, [x.id for x in exits]) | {x.id for x in exits}
            body_nodes = [cfg.nodes[i] for i in inside]
            fam = status_atoms(cfg, body_nodes)
            fams = sorted(fam, key=lambda t: min(n.lineno for v in fam[t].values() for n in v))
            status_fams = [t for t in fams if t.endswith(".status")]
            if not status_fams:
                raise AnalysisError("%s: no report-status chain found in the per-order body" % f.qual)
            first = status_fams[0]
            dom = domains[cname]
            covered = set().union(*fam[first]) if fam[first] else set()
            rep.check(dom <= covered, "R1", key(f, None, "status chain covers %s" % sorted(dom)), f, w,
                      "branches on %s: %s" % (first, sorted(covered)))
            setters = [n for n in body_nodes
                       if any(call_name(c) in SETTERS and recv_text(c) == "order" for c in calls_in(n))]
            sids = [n.id for n in setters]
            for v in sorted(dom):
                n_branches += 1
                blocked = _block_for(fam[first], v)
                stranded = False
                for x in exits:
                    if not cfg.all_paths_pass(enter.id, x.id, sids, blocked):
                        stranded = True
                if not stranded:
                    rep.ok("R1", key(f, None, "%s == %r: order leaves its in-flight state" % (first, v)), f, w)
                    continue
                allowed = False
                why = ""
                if hname == "execute_place" and cname == "BetfairExecution":
                    if v == "TIMEOUT":
                        allowed, why = True, "the exchange may yet have accepted the placement"
                    elif v == "SUCCESS":
                        # only order_status == PENDING (async) may stay pending
                        of = [t for t in fams if t.endswith(".order_status")]
                        if of:
                            ofam = fam[of[0]]
                            ok_all = True
                            for ov in ("PENDING", "EXPIRED", "EXECUTABLE", "EXECUTION_COMPLETE"):
                                b2 = set(blocked) | _block_for(ofam, ov)
                                st2 = any(not cfg.all_paths_pass(enter.id, x.id, sids, b2) for x in exits)
                                if st2 and ov != "PENDING":
                                    ok_all = False
                                    why = "order_status == %r leaves the order PENDING" % ov
                            allowed = ok_all
                            if ok_all:
                                why = "async placement acknowledged as PENDING only"
                p = None
                if not allowed:
                    for x in exits:
                        pp = cfg.path(enter.id, x.id, sids, blocked)
                        if pp:
                            p = cfg.fmt_path(pp)
                            break
                rep.check(allowed, "R1", key(f, None, "%s == %r: order leaves its in-flight state" % (first, v)),
                          f, w, ("allowed exception: " + why) if allowed else
                          ("a path through the per-order body sets neither executable() nor execution_complete() "
                           "on the order" + (" (%s)" % why if why else "")), p)
            # setter calls on orders only inside a trade scope (C10-R4 cross-reference)
            for n in cfg.live_nodes():
                for c in calls_in(n):
                    if call_name(c) in SETTERS + ("placing", "cancelling", "updating", "replacing"):
                        r = recv_text(c)
                        scoped = any(g.kind == "with_enter" and utext(g.ast.items[0].context_expr) in (
                            "%s.trade" % r, "order.trade") and cfg.dominates(g.id, n.id)
                            for g in cfg.live_nodes())
                        rep.check(scoped, "R1", key(f, c, "inside `with order.trade`"), f, c,
                                  "a status change outside the trade's pending scope can complete the trade "
                                  "half-way through a response")
    rep.floor("R1", "handler x report-status branches", n_branches, 10)
    # a cancel the exchange REFUSED completes the order locally only when the refusal says the bet is gone
    # (BET_TAKEN_OR_LAPSED); any other code leaves a bet that is - or will again be - live at the exchange, and an
    # order completed locally is never revived by the order stream (its remainder drops out of the exposure figures)
    fc = prog.own_method("BetfairExecution", "execute_cancel")
    cfgc = ctx.cfg(fc)
    n_fc = 0
    for n, c in node_calls(cfgc, "execution_complete"):
        gs = [(g.exprs[0], pol) for g, pol in cfgc.guards(n.id)]
        if not any(utext(e).endswith(".status == 'FAILURE'") and pol for e, pol in gs):
            continue
        n_fc += 1
        codes = None
        for e, pol in gs:
            if isinstance(e, ast.Compare) and pol and len(e.ops) == 1 and isinstance(e.ops[0], ast.Eq) and \
                    isinstance(e.left, ast.Constant) and utext(e.comparators[0]).endswith(".error_code"):
                codes = {e.left.value}     # written with the constant on the left
            elif isinstance(e, ast.Compare) and utext(e.left).endswith(".error_code") and pol and len(e.ops) == 1:
                if isinstance(e.ops[0], ast.Eq) and isinstance(e.comparators[0], ast.Constant):
                    codes = {e.comparators[0].value}
                elif isinstance(e.ops[0], ast.In) and isinstance(e.comparators[0], (ast.Tuple, ast.List, ast.Set)):
                    codes = {x.value if isinstance(x, ast.Constant) else utext(x) for x in e.comparators[0].elts}
        rep.check(codes is not None and codes <= {"BET_TAKEN_OR_LAPSED"}, "R1",
                  key(fc, c, "a refused cancel completes the order only for BET_TAKEN_OR_LAPSED"), fc, c,
                  "error codes that complete the order: %s" % (sorted(codes) if codes else "any"))
    rep.floor("R1", "completion on a refused cancel", n_fc, 1)
    tx = prog.own_method("Trade", "__exit__")
    cfg = ctx.cfg(tx)
    live_calls = [n for n, c in node_calls(cfg, "_update_status") if utext(c.args[0]) == "TradeStatus.LIVE"]
    good = bool(live_calls)
    if good:
        gs = [(utext(g.exprs[0]), pol) for g, pol in cfg.guards(live_calls[0].id)]
        good = gs in ([("exc_tb is None", True)], [("exc_type is None", True)], [("exc_val is None", True)], [])
    rep.check(good, "R1", key(tx, None, "Trade.__exit__ restores LIVE on the normal path"), tx)
    te = prog.own_method("Trade", "__enter__")
    rep.check(any(utext(c.args[0]) == "TradeStatus.PENDING" for c in walk_calls(te.node.body)
                  if call_name(c) == "_update_status"), "R1", key(te, None, "Trade.__enter__ sets PENDING"), te)

    # ------------------------------------------------------------------ R2
    f = prog.own_method("BetfairExecution", "execute_cancel")
    cfg = ctx.cfg(f)
    lk = [s for s in walk_nodes(f.node.body, ast.Assign) if isinstance(s.value, ast.DictComp)]
    good = False
    lname = None
    if len(lk) == 1:
        dc = lk[0].value
        g = dc.generators[0]
        v = utext(g.target)
        good = (utext(dc.key) == "%s.bet_id" % v and utext(dc.value) == v
                and utext(g.iter) == f.params[1] and not g.ifs)
        lname = utext(lk[0].targets[0])
    rep.check(good, "R2", key(f, None, "orders indexed by bet id"), f, lk[0] if lk else None)
    pops = [c for c in walk_calls(f.node.body) if call_name(c) == "pop" and recv_text(c) == lname]
    good = len(pops) == 1 and utext(pops[0].args[0]).endswith("instruction.bet_id")
    rep.check(good, "R2", key(f, None, "each report is applied to the order with the report's bet id"), f,
              pops[0] if pops else None)
    rest = [lp for lp in walk_nodes(f.node.body, ast.For)
            if utext(lp.iter) in ("%s.values()" % lname, "list(%s.values())" % lname)]
    good = len(rest) == 1
    if good:
        lp = rest[0]
        calls = [c for c in walk_calls(lp.body) if call_name(c) in SETTERS]
        good = (len(calls) == 1 and recv_text(calls[0]) == utext(lp.target) and not loop_body_exits_early(lp)
                and not walk_nodes(lp.body, (ast.If, ast.Continue)))
        # the reset loop comes after the report loop
        rl = [x for x in walk_nodes(f.node.body, ast.For) if "cancel_instruction_reports" in utext(x.iter)]
        good = good and len(rl) == 1 and rl[0].lineno < lp.lineno
    rep.check(good, "R2", key(f, None, "orders not reported are reset unconditionally after the reports"), f,
              rest[0] if rest else None, "a missing cancel report must not leave the order CANCELLING")

    # ------------------------------------------------------------------ R3 alignment
    n_zip = 0
    for cname, mode in (("BetfairExecution", "live"), ("SimulatedExecution", "sim")):
        for hname in ("execute_place", "execute_cancel", "execute_update", "execute_replace"):
            f = prog.own_method(cname, hname)
            kind = hname.split("_")[1]
            entry = set(ts.handler_entry.get(f.qual, []))
            for lp in walk_nodes(f.node.body, ast.For):
                it = lp.iter
                if not (isinstance(it, ast.Call) and call_name(it) == "zip" and len(it.args) == 2):
                    continue
                n_zip += 1
                a0, a1 = it.args
                # filter of the instruction property (reports are answers to those instructions)
                pkg_cls = prog.cls("BetfairOrderPackage")
                prop = pkg_cls.find_method("%s_instructions" % kind)
                drops = _comp_filter_drops(prop)
                # filter applied to the orders
                left_filter = _order_side_filter(f, a0)
                if drops is None:
                    raise AnalysisError("%s: instruction property shape not understood" % prop.qual)
                dropped_states = {d for d in drops if d in entry}
                aligned = (not drops) or (left_filter == drops) or not dropped_states
                why = ""
                if drops and left_filter != drops:
                    why = ("instruction list drops orders in %s, the order side does not; entry states of this "
                           "handler: %s" % (sorted(drops), sorted(entry)))
                rep.check(aligned, "R3", key(f, it, "orders and %s instructions/reports stay aligned" % kind), f, it,
                          why or ("filters agree: %s" % (sorted(drops) if drops else "none")))
    rep.floor("R3", "positional pairings of package and instructions/reports", n_zip, 6)

    # a sender that refuses an empty instruction list (raise, not a BetfairError: neither retried nor reset)
    # must never see one for a non-empty package: its instruction property maps every order
    n_snd = 0
    for ecls, pcls in (("BetfairExecution", "BetfairOrderPackage"), ("BetdaqExecution", "BetdaqOrderPackage")):
        for kind in ("place", "cancel", "update", "replace"):
            snd = prog.cls(ecls).methods.get(kind)
            prop = prog.cls(pcls).methods.get("%s_instructions" % kind)
            if snd is None or prop is None:
                continue
            if not walk_nodes(snd.node.body, ast.Raise):
                continue
            n_snd += 1
            drops = _comp_filter_drops(prop)
            rep.check(drops == set(), "R3", key(prop, None, "one %s instruction per order of the package (the sender raises on an empty list)" % kind),
                      prop, None, "an order left out can be every order: the request is then given up without retry or reset")
    rep.floor("R3", "senders that refuse an empty instruction list", n_snd, 2)

    # ------------------------------------------------------------------ R4 retry
    rt = prog.own_method("BaseOrderPackage", "retry")
    cfg = ctx.cfg(rt)
    inc = [n for n in cfg.live_nodes() if n.kind == "stmt" and isinstance(n.ast, ast.AugAssign)
           and utext(n.ast.target) == "self._retry_count" and isinstance(n.ast.op, ast.Add)
           and utext(n.ast.value) == "1"]
    rets_true = [n for n in cfg.live_nodes() if n.kind == "return" and utext(n.ast.value) == "True"]
    good = len(inc) == 1 and len(rets_true) == 1
    if good:
        from sa.kinds import holds
        gs = {(utext(g.exprs[0]), pol) for g, pol in cfg.guards(rets_true[0].id)}
        # the two counters are ints (set in __init__, only ever += 1): `not (count >= max)` is `count < max`
        good = holds(gs, "self._retry_count < self._max_retries", total_order=True) and cfg.dominates(inc[0].id, rets_true[0].id)
    rep.check(good, "R4", key(rt, None, "retry() returns True only below the limit and after counting"), rt)
    writers = [(f2, s) for f2, s, t, kind in all_stores(prog, "_retry_count")]
    rep.check(all(f2.qual in ("BaseOrderPackage.__init__", "BaseOrderPackage.retry") for f2, s in writers), "R4",
              "_retry_count written only in __init__ and retry()", None, None,
              str([f2.qual for f2, s in writers]))
    wm = [(f2.qual) for f2, s, t, kind in all_stores(prog, "_max_retries")]
    rep.check(set(wm) == {"BaseOrderPackage.__init__"}, "R4", "_max_retries written only in __init__", None, None, str(wm))
    eh = prog.own_method("BetfairExecution", "_execution_helper")
    cfg = ctx.cfg(eh)
    hcalls = node_calls(cfg, "handler")
    good = len(hcalls) == 1
    if good:
        n, c = hcalls[0]
        gs = [(utext(g.exprs[0]), pol) for g, pol in cfg.guards(n.id)]
        good = ("order_package.retry()", True) in gs
        exc_handlers = [x for x in cfg.live_nodes() if x.kind == "except" and cfg.dominates(x.id, n.id)]
        good = good and len(exc_handlers) == 1 and utext(exc_handlers[0].ast.type) == "BetfairError"
    rep.check(good, "R4", key(eh, None, "re-dispatch only under retry() inside the BetfairError handler"), eh)
    resets = node_calls(cfg, "reset_orders")
    got = {}
    for n, c in resets:
        gs = {(utext(g.exprs[0]), pol) for g, pol in cfg.guards(n.id)}
        if ("order_package.retry()", False) not in gs:
            got["unguarded"] = utext(c)
        is_place = ("order_package.package_type == OrderPackageType.PLACE", True) in gs
        got["PLACE" if is_place else "other"] = utext(c)
    rep.check(got == {"PLACE": "order_package.reset_orders(complete=True)", "other": "order_package.reset_orders()"},
              "R4", key(eh, None, "exhausted retries reset the orders (complete for PLACE)"), eh, None, str(got))
    # every path through the BetfairError handler either re-dispatches or resets
    hnodes = [x for x in cfg.live_nodes() if x.kind == "except" and utext(x.ast.type) == "BetfairError"]
    if hnodes:
        via = [n.id for n, c in hcalls] + [n.id for n, c in resets]
        rep.check(cfg.all_paths_pass(hnodes[0].id, cfg.exit, via), "R4",
                  key(eh, None, "an API error always ends in a retry or a reset"), eh)
    generic = [x for x in cfg.live_nodes() if x.kind == "except" and utext(x.ast.type) == "Exception"]
    if generic:
        via = [n.id for n, c in resets]
        if not cfg.all_paths_pass(generic[0].id, cfg.exit, via):
            rep.remark("R4", key(eh, None, "generic `except Exception` branch does not reset the orders"), eh,
                       generic[0].ast, "outside the property's fault list (betfairlightweight wraps transport and "
                                       "API errors in BetfairError); observation only")
    ro = prog.own_method("BaseOrderPackage", "reset_orders")
    cfg = ctx.cfg(ro)
    table = {}
    for n in cfg.live_nodes():
        for c in calls_in(n):
            if call_name(c) in SETTERS and recv_text(c) == "order":
                gs = [(utext(g.exprs[0]), pol) for g, pol in cfg.guards(n.id)]
                table[call_name(c)] = gs
    rep.check(table == {"execution_complete": [("complete", True)], "executable": [("complete", False)]}, "R4",
              key(ro, None, "reset_orders completes or re-opens every order of the package"), ro, None, str(table))
    # `complete` is the caller's decision (a placement that was never acknowledged is finished, anything else
    # re-opened): reset_orders does not overrule it
    rebinds = [utext(st) for st in walk_nodes(ro.node.body, (ast.Assign, ast.AugAssign, ast.AnnAssign))
               if "complete" in [utext(t) for t in (st.targets if isinstance(st, ast.Assign) else [st.target])]]
    rep.check(not rebinds, "R4", key(ro, None, "reset_orders does not overrule the caller's `complete`"), ro, None,
              "; ".join(rebinds))
    lps = [lp for lp in walk_nodes(ro.node.body, ast.For)]
    rep.check(len(lps) == 1 and utext(lps[0].iter) == "self" and not loop_body_exits_early(lps[0]), "R4",
              key(ro, None, "over all orders, no early exit"), ro)

    # ------------------------------------------------------------------ R5 counts
    r5_counts(ctx, rep, "R5")


def r5_counts(ctx, rep, R):
    """count table of the response handlers (shared with C18-R6)"""
    prog, res = ctx.prog, ctx.res
    tables = {}
    for cname in ("BetfairExecution", "SimulatedExecution"):
        for hname in ("execute_place", "execute_cancel", "execute_update", "execute_replace"):
            f = prog.own_method(cname, hname)
            cfg = ctx.cfg(f)
            entries = []
            for n, c in node_calls(cfg, "add_transaction"):
                from sa.kinds import resolve_local
                # an argument may be named by a local first (`n = len(order_package)`)
                args = [utext(resolve_local(f, a)) if isinstance(a, ast.Name) and a.id != "failed_transaction_count" else utext(a)
                        for a in c.args] + ["%s=%s" % (k.arg, utext(k.value)) for k in c.keywords]
                gs = sorted((utext(g.exprs[0]), pol) for g, pol in cfg.guards(n.id)
                            if utext(g.exprs[0]) != "order_package.client.paper_trade")
                in_loop = any(n.ast in walk_nodes(lp.body, ast.stmt) for lp in walk_nodes(f.node.body, ast.For))
                entries.append((tuple(args), tuple(g for g in gs if g[0] != "response"), in_loop))
                if cname == "BetfairExecution":
                    rep.check(("response", True) in gs, R, key(f, c, "counted only when the call was answered"),
                              f, c)
                rep.check(not in_loop, R, key(f, c, "counted once per package"), f, c)
            tables[(cname, hname)] = sorted(entries)
            # failed += 1 only in FAILURE branches, and at least once where failures are counted
            n_inc = sum(1 for n in cfg.live_nodes() if n.kind == "stmt" and isinstance(n.ast, ast.AugAssign)
                        and utext(n.ast.target) == "failed_transaction_count")
            if hname != "execute_place":
                rep.check(n_inc >= 1, R, key(f, None, "a FAILURE report increments the failed-transaction counter"), f,
                          None, "failed instructions are never counted in this handler")
            for n in cfg.live_nodes():
                if n.kind == "stmt" and isinstance(n.ast, ast.AugAssign) and \
                        utext(n.ast.target) == "failed_transaction_count":
                    gs = [(utext(g.exprs[0]), pol) for g, pol in cfg.guards(n.id)]
                    infail = any(t.endswith("status == 'FAILURE'") and pol for t, pol in gs)
                    rep.check(infail and utext(n.ast.value) == "1" and isinstance(n.ast.op, ast.Add), R,
                              key(f, n.ast, "failure counter incremented by one in a FAILURE branch"), f, n.ast,
                              str(gs))
    want = {
        "execute_place": [(("len(order_package)",), (), False)],
        "execute_cancel": [(("failed_transaction_count", "failed=True"), (("failed_transaction_count", True),), False)],
        "execute_update": [(("failed_transaction_count", "failed=True"), (("failed_transaction_count", True),), False)],
        "execute_replace": sorted([(("len(order_package)",), (), False),
                                   (("failed_transaction_count", "failed=True"),
                                    (("failed_transaction_count", True),), False)]),
    }
    for (cname, hname), got in sorted(tables.items()):
        rep.check(got == want[hname], R, "%s.%s count table" % (cname, hname), None, None,
                  "got %s" % (got,))
    bc = prog.own_method("BaseClient", "add_transaction")
    calls = [c for c in walk_calls(bc.node.body) if call_name(c) == "add_transaction"]
    good = len(calls) == 1 and [utext(a) for a in calls[0].args] == bc.params[1:3]
    lps = walk_nodes(bc.node.body, ast.For)
    good = good and len(lps) == 1 and utext(lps[0].iter) == "self.trading_controls" \
        and not loop_body_exits_early(lps[0])
    rep.check(good, R, key(bc, None, "forwards (count, failed) to every control of this client"), bc)
    # who may count
    mt = prog.own_method("MaxTransactionCount", "add_transaction")
    for cs in res.call_sites_of(mt):
        rep.check(cs.func.qual == "BaseClient.add_transaction", R,
                  "caller of MaxTransactionCount.add_transaction: " + key(cs.func, cs.node), cs.func, cs.node)
    n_c = 0
    for cs in res.call_sites_of(bc):
        n_c += 1
        rep.check(cs.func.cls is not None and cs.func.cls.is_subclass_of("BaseExecution")
                  and cs.func.name.startswith("execute_"), R,
                  "caller of client.add_transaction: " + key(cs.func, cs.node), cs.func, cs.node,
                  "only response handlers charge transactions")
    rep.floor(R, "add_transaction call sites in handlers", n_c, 4)


def _comp_filter_drops(prop):
    """statuses dropped by the list-comprehension filter of an *_instructions property:
    set() when unfiltered, None when not understood."""
    body = [s for s in prop.node.body if not (isinstance(s, ast.Expr) and isinstance(s.value, ast.Constant))]
    if len(body) != 1 or not isinstance(body[0], ast.Return) or not isinstance(body[0].value, ast.ListComp):
        return None
    lc = body[0].value
    if len(lc.generators) != 1 or utext(lc.generators[0].iter) != "self":
        return None
    return _filter_drops(lc.generators[0])


def _filter_drops(gen):
    v = utext(gen.target)
    drops = set()
    for c in gen.ifs:
        c = canon(c)
        if isinstance(c, ast.Compare) and len(c.ops) == 1 and isinstance(c.ops[0], ast.NotEq) \
                and utext(c.left) == "%s.status" % v and utext(c.comparators[0]).startswith("OrderStatus."):
            drops.add(utext(c.comparators[0]).split(".")[1])
        else:
            return None
    return drops


def _order_side_filter(func, a0):
    """statuses dropped on the order side of a zip: follows a Name to its single list-comprehension
    definition over the package"""
    if isinstance(a0, ast.Name) and a0.id not in func.params:
        defs = [s for s in walk_nodes(func.node.body, ast.Assign) if utext(s.targets[0]) == a0.id]
        if len(defs) == 1 and isinstance(defs[0].value, ast.ListComp):
            lc = defs[0].value
            if len(lc.generators) == 1 and utext(lc.generators[0].iter) == func.params[1] \
                    and utext(lc.elt) == utext(lc.generators[0].target):
                return _filter_drops(lc.generators[0])
        return None
    return set()


_BF = "flumine/execution/betfairexecution.py"
_SIM = "flumine/execution/simulatedexecution.py"


def MUTANTS(ctx):
    out = []
    out.append(dict(id="c12-refused-cancel-completes-on-closed-market", file=_BF, func="BetfairExecution.execute_cancel",
                    old='if instruction_report.error_code == "BET_TAKEN_OR_LAPSED":',
                    new='if instruction_report.error_code in ("BET_TAKEN_OR_LAPSED", "MARKET_NOT_OPEN_FOR_BETTING"):',
                    expect=["R1"], why="a bet that is live again after the market re-opens is complete locally"))
    out.append(dict(id="c12-reset-overrules-complete", file="flumine/order/orderpackage.py", func="BaseOrderPackage.reset_orders",
                    old="        for order in self:\n            with order.trade:\n                if complete:",
                    new="        complete = complete and not self.async_\n        for order in self:\n            with order.trade:\n                if complete:",
                    expect=["R4"], why="an async placement that exhausted its retries is left EXECUTABLE without a bet id"))
    # delete the setter of one branch (every setter statement in the per-order bodies)
    for cname, path in (("BetfairExecution", _BF), ("SimulatedExecution", _SIM)):
        for hname in ("execute_place", "execute_cancel", "execute_update", "execute_replace"):
            f = ctx.prog.own_method(cname, hname)
            seen = {}
            for s in walk_nodes(f.node.body, ast.Expr):
                if isinstance(s.value, ast.Call) and call_name(s.value) in SETTERS and recv_text(s.value) == "order":
                    txt = "order.%s()" % call_name(s.value)
                    k = seen.get(txt, 0)
                    seen[txt] = k + 1
                    # the place-FAILURE branch of the simulated replace re-opens the original, which is a
                    # no-op on a completed order: deleting it changes nothing
                    if cname == "SimulatedExecution" and hname == "execute_replace" and txt == "order.executable()" and k == 1:
                        continue
                    out.append(dict(id="c12-drop-setter-%s-%s-%s-%d" % (cname[:3], hname, call_name(s.value), k),
                                    file=path, func="%s.%s" % (cname, hname), old=txt, new="pass", nth=k,
                                    expect=["R1", "R2"], why="order left in its in-flight state on this branch"))
    out += [
        dict(id="c12-drop-unreported-reset", file=_BF, func="BetfairExecution.execute_cancel",
             old="            for order in order_lookup.values():\n                with order.trade:\n                    order.executable()\n",
             new="", expect=["R2"], why="a missing cancel report leaves the order CANCELLING"),
        dict(id="c12-cancel-by-position", file=_BF, func="BetfairExecution.execute_cancel",
             old="order = order_lookup.pop(instruction_report.instruction.bet_id)",
             new="order = order_lookup.pop(next(iter(order_lookup)))", expect=["R2"],
             why="cancel reports applied by position"),
        dict(id="c12-retry-counter-reset", file="flumine/order/orderpackage.py", func="BaseOrderPackage.retry",
             old="self._retry_count += 1", new="self._retry_count = 1", expect=["R4"], why="unbounded retries"),
        dict(id="c12-retry-no-bound", file="flumine/order/orderpackage.py", func="BaseOrderPackage.retry",
             old="if self._retry and self._retry_count < self._max_retries:", new="if self._retry:", expect=["R4"],
             why="unbounded retries"),
        dict(id="c12-redispatch-unconditional", file=_BF, func="BetfairExecution._execution_helper",
             old="if order_package.retry():", new="if order_package.retry() or True:", expect=["R4"],
             why="retries for ever"),
        dict(id="c12-no-reset-after-retries", file=_BF, func="BetfairExecution._execution_helper",
             old="                        order_package.reset_orders()\n", new="                        pass\n",
             expect=["R4"], why="orders stranded after exhausted retries"),
        dict(id="c12-place-reset-not-complete", file=_BF, func="BetfairExecution._execution_helper",
             old="order_package.reset_orders(complete=True)", new="order_package.reset_orders()", expect=["R4"],
             why="failed placement re-opened as executable"),
        dict(id="c12-count-cancel-success", file=_SIM, func="SimulatedExecution.execute_cancel",
             old="        if failed_transaction_count:\n            order_package.client.add_transaction(failed_transaction_count, failed=True)",
             new="        order_package.client.add_transaction(len(order_package))", expect=["R5"],
             why="cancels counted as bets"),
        dict(id="c12-count-before-response", file=_BF, func="BetfairExecution.execute_place",
             old="        response = self._execution_helper(self.place, order_package, http_session)\n",
             new="        response = self._execution_helper(self.place, order_package, http_session)\n        order_package.client.add_transaction(len(order_package))\n",
             expect=["R5"], why="unanswered calls counted / counted twice"),
        dict(id="c12-failed-counted-on-success", file=_BF, func="BetfairExecution.execute_update",
             old="                        order.executable()\n                    elif instruction_report.status == \"FAILURE\":",
             new="                        order.executable()\n                        failed_transaction_count += 1\n                    elif instruction_report.status == \"FAILURE\":",
             expect=["R5"], why="successes counted as failed transactions"),
        dict(id="c12-replace-misaligned", file=_SIM, func="SimulatedExecution.execute_replace",
             old="for order, instruction in zip(orders, order_package.replace_instructions):",
             new="for order, instruction in zip(order_package, order_package.replace_instructions):",
             expect=["R3"], why="instruction applied to the wrong order (F07)"),
        dict(id="c12-trade-exit-no-live", file="flumine/order/trade.py", func="Trade.__exit__",
             old="            self._update_status(TradeStatus.LIVE)", new="            pass", expect=["R1"],
             why="trade left PENDING after a response"),
        dict(id="c12-forward-failed-inverted", file="flumine/clients/baseclient.py", func="BaseClient.add_transaction",
             old="control.add_transaction(count, failed)", new="control.add_transaction(count, not failed)",
             expect=["R5"], why="failed flag inverted"),
        dict(id="c12-replace-count-dropped", file=_BF, func="BetfairExecution.execute_replace",
             old="            order_package.client.add_transaction(len(order_package))\n", new="", expect=["R5"],
             why="replacement bets not counted"),
        dict(id="c12-cancel-instructions-filtered", file="flumine/order/orderpackage.py", func="BetfairOrderPackage.cancel_instructions",
             old="return [order.create_cancel_instruction() for order in self]",
             new="return [order.create_cancel_instruction() for order in self if order.size_remaining]",
             expect=["R3"], why="an empty list makes the sender raise: no retry, no reset"),
    ]
    return out
