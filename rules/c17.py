"""C17 - Price helpers and order validation agree with the exchange's ladders (constants and guards only)."""

import ast
from fractions import Fraction

from sa import AnalysisError
from sa.kinds import (key, utext, call_name, recv_text, calls_in, node_calls, canon_compare, oriented, guard_pairs)
from sa.cfg import walk_calls, walk_nodes
from sa.astutil import canon_text as ct, gp

EXPLANATION = (
    "Narrow decision of C17: (R1) the ladder constants are compared with Betfair's published increment table "
    "(1.01-2 by 0.01, 2-3 by 0.02, 3-4 by 0.05, 4-6 by 0.1, 6-10 by 0.2, 10-20 by 0.5, 20-30 by 1, 30-50 by 2, "
    "50-100 by 5, 100-1000 by 10; minimum 1.01, maximum 1000), the FINEST ladder is 0.01 up to 1000, and "
    "PRICES / FINEST_PRICES / BETDAQ_PRICES are built by make_prices from these tables; the ladder generator's "
    "shape (steps of 1/step from the cursor to each cut-off, maximum appended) is checked; (R2) "
    "OrderValidation: the exchange dispatch and the order-type dispatch both end in a refusal for unknown "
    "kinds; per order type exactly the required validators are called; each validator contains its guards "
    "with the right orientation (None, <= 0, more than two decimals, price not on the market's ladder, the "
    "minimum stake / payout / liability conjunction) and every failing guard refuses the order; each client minimum "
    "is read from its own column of the currency table on every read; validation is "
    "the first default control; (R3) the helpers that take the ladder as a parameter consult no fixed ladder table. "
    "Not decided: make_prices / get_nearest_price / price_ticks_away / "
    "make_line_prices as arithmetic (rounding, idempotence, tick distances)."
)

PUBLISHED = [(Fraction("1.01"), Fraction(2), Fraction("0.01")), (Fraction(2), Fraction(3), Fraction("0.02")),
             (Fraction(3), Fraction(4), Fraction("0.05")), (Fraction(4), Fraction(6), Fraction("0.1")),
             (Fraction(6), Fraction(10), Fraction("0.2")), (Fraction(10), Fraction(20), Fraction("0.5")),
             (Fraction(20), Fraction(30), Fraction(1)), (Fraction(30), Fraction(50), Fraction(2)),
             (Fraction(50), Fraction(100), Fraction(5)), (Fraction(100), Fraction(1000), Fraction(10))]

TC = "flumine/controls/tradingcontrols.py"


def run(ctx, rep):
    prog, res = ctx.prog, ctx.res
    U = "flumine.utils"

    # ------------------------------------------------------------------ R1 constants
    cut = prog.const_value(U, "CUTOFFS")
    mn, mx = prog.const_value(U, "MIN_PRICE"), prog.const_value(U, "MAX_PRICE")
    table = []
    lo = Fraction(str(mn))
    for c, step in cut:
        table.append((lo, Fraction(str(c)), 1 / Fraction(str(step))))
        lo = Fraction(str(c))
    rep.check(table == PUBLISHED, "R1", "CUTOFFS / MIN_PRICE equal Betfair's published price increments", None, None,
              "got %s" % [(float(a), float(b), float(s)) for a, b, s in table if (a, b, s) not in PUBLISHED][:4])
    rep.check(Fraction(str(mn)) == Fraction("1.01") and Fraction(str(mx)) == 1000, "R1", "MIN_PRICE 1.01, MAX_PRICE 1000", None, None,
              "%s %s" % (mn, mx))
    m = prog.module(U)
    want = {"PRICES": "make_prices(MIN_PRICE, CUTOFFS)", "FINEST_PRICES": "make_prices(MIN_PRICE, ((1000, 100),))",
            "BETDAQ_PRICES": "make_prices(BETDAQ_MIN_PRICE, BETDAQ_CUTOFFS)"}
    for nm, txt in want.items():
        rep.check(nm in m.constants and utext(m.constants[nm]) == txt, "R1", "%s is generated from its table" % nm, None,
                  m.constants.get(nm), utext(m.constants[nm]) if nm in m.constants else "missing")
    bc = prog.const_value(U, "BETDAQ_CUTOFFS")
    ok = all(b > a for (a, _), (b, _) in zip(bc, bc[1:])) and all(s > 0 for _, s in bc) and bc[-1][0] == prog.const_value(U, "BETDAQ_MAX_PRICE")
    rep.check(ok, "R1", "BETDAQ_CUTOFFS are increasing with positive steps up to BETDAQ_MAX_PRICE", None, None, str(bc))
    mp = prog.func("utils.make_prices")
    body = [utext(s) for s in mp.node.body]
    good = any(s == "prices.extend(arange(as_dec(cursor), as_dec(cutoff), as_dec(1 / step)))" for s in
               [utext(x) for lp in walk_nodes(mp.node.body, ast.For) for x in lp.body]) and \
        "cursor = as_dec(%s)" % mp.params[0] in body and "prices.append(as_dec(MAX_PRICE))" in body and \
        any(utext(x) == "cursor = cutoff" for lp in walk_nodes(mp.node.body, ast.For) for x in lp.body)
    rep.check(good, "R1", key(mp, None, "ladder generator: from the cursor to each cut-off in steps of 1/step, maximum appended"), mp)
    ar = prog.func("utils.arange")
    wl = [w for w in ar.node.body if isinstance(w, ast.While)]
    good_ar = len(wl) == 1 and len(ar.node.body) == 1
    if good_ar:
        o = oriented(canon_compare(wl[0].test), ar.params[0])
        ys = walk_nodes(wl[0].body, ast.Yield)
        inc = [s for s in walk_nodes(wl[0].body, ast.AugAssign)]
        good_ar = o is not None and o[1] == "<" and o[2] == ar.params[1] and len(ys) == 1 and utext(ys[0].value) == ar.params[0] \
            and len(inc) == 1 and utext(inc[0]) == "%s += %s" % (ar.params[0], ar.params[2]) and ys[0].lineno < inc[0].lineno
    rep.check(good_ar, "R1",
              key(ar, None, "arange is half-open [start, stop)"), ar)
    ad = prog.func("utils.as_dec")
    rep.check(utext(ad.node.body[-1]) == "return Decimal(str(value))", "R1", key(ad, None, "decimal conversion through str (no binary noise)"), ad)

    # ------------------------------------------------------------------ R3 ladder-parameterised helpers
    # a helper that takes the ladder as a parameter must not consult one particular ladder's table
    # (its result has to be a tick of the ladder it was asked about)
    ladder_tables = {n for n in m.constants if n.isupper() and ("PRICES" in n or "CUTOFFS" in n)}
    for q, param in (("utils.get_nearest_price", "cutoffs"), ("utils.price_ticks_away", "prices"), ("utils.make_prices", "cutoffs")):
        fn = prog.func(q)
        if param not in fn.params:
            raise AnalysisError("%s: ladder parameter %s not found" % (q, param))
        cfgl = ctx.cfg(fn)
        bad_refs = []
        for nd in cfgl.live_nodes():
            refs = [x.id for e in nd.exprs for x in ast.walk(e) if isinstance(x, ast.Name) and x.id in ladder_tables]
            if not refs:
                continue
            # the only accepted use: the default when no ladder was passed - `param = TABLE` where param is falsy,
            # or `param = param or TABLE`
            a = nd.ast if nd.kind == "stmt" and isinstance(nd.ast, ast.Assign) else None
            ok_ref = False
            if a is not None and utext(a.targets[0]) == param:
                v_ = a.value
                if isinstance(v_, ast.Name) and (param, False) in guard_pairs(cfgl, nd.id):
                    ok_ref = True
                if isinstance(v_, ast.BoolOp) and isinstance(v_.op, ast.Or) and utext(v_.values[0]) == param and \
                        all(isinstance(x, ast.Name) for x in v_.values[1:]):
                    ok_ref = True
            if not ok_ref:
                bad_refs += refs
        rep.check(not bad_refs, "R3", key(fn, None, "result depends on the ladder passed in, not on one fixed ladder table"), fn, None,
                  "references %s" % sorted(set(bad_refs)))

    # ------------------------------------------------------------------ R2 OrderValidation
    ov = prog.cls("OrderValidation")
    v = prog.own_method("OrderValidation", "_validate")
    cfg = ctx.cfg(v)
    tab = {}
    for n in cfg.live_nodes():
        for c in calls_in(n):
            if call_name(c) in ("_validate_betfair_order", "_validate_betdaq_order"):
                gs = [(utext(g.exprs[0]), pol) for g, pol in cfg.guards(n.id) if pol]
                tab[call_name(c)] = [g[0] for g in gs]
    rep.check(tab == {"_validate_betfair_order": ["order.EXCHANGE == ExchangeType.BETFAIR"],
                      "_validate_betdaq_order": ["order.EXCHANGE == ExchangeType.BETDAQ"]}, "R2",
              key(v, None, "orders are validated by their exchange's rules"), v, None, str(tab))
    bo = prog.cls("BetfairOrder").class_attrs.get("EXCHANGE")
    rep.check(bo is not None and utext(bo) == "ExchangeType.BETFAIR", "R2", "simulated and live Betfair orders carry EXCHANGE BETFAIR")
    required = {
        "_validate_betfair_order": {
            "OrderTypes.LIMIT": {"_validate_size", "_validate_betfair_price", "_validate_betfair_min_size"},
            "OrderTypes.LIMIT_ON_CLOSE": {"_validate_betfair_price", "_validate_betfair_liability", "_validate_betfair_min_size"},
            "OrderTypes.MARKET_ON_CLOSE": {"_validate_betfair_liability", "_validate_betfair_min_size"}},
        "_validate_betdaq_order": {
            "OrderTypes.LIMIT": {"_validate_size", "_validate_betdaq_price", "_validate_betdaq_min_size"}},
    }
    for fn, want_t in required.items():
        f = prog.own_method("OrderValidation", fn)
        cfgf = ctx.cfg(f)
        got = {}
        default_err = False
        for n in cfgf.live_nodes():
            for c in calls_in(n):
                gs = [(utext(g.exprs[0]), pol) for g, pol in cfgf.guards(n.id)]
                typ = [t.split("== ")[1] for t, pol in gs if pol and t.startswith("order.order_type.ORDER_TYPE == ")]
                if call_name(c) == "_on_error" and not typ and all(not pol for t, pol in gs) and len(gs) == len(want_t):
                    default_err = True
                elif typ and call_name(c).startswith("_validate"):
                    got.setdefault(typ[0], set()).add(call_name(c))
                    rep.check(utext(c.args[0]) == "order", "R2", key(f, c, "validator applied to the order"), f, c)
        rep.check(got == want_t, "R2", key(f, None, "each order type runs exactly its validators"), f, None,
                  "got %s" % {k: sorted(x) for k, x in got.items()})
        rep.check(default_err, "R2", key(f, None, "an unknown order type is refused"), f)

    def guards_of(fname, specs, also_accounted=()):
        """specs: [(description, guard as source text)]; the guard must exist and the edge on which it holds must
        lead to a refusal (through further conjuncts only)"""
        f = prog.own_method("OrderValidation", fname)
        cfgf = ctx.cfg(f)
        conds = [n for n in cfgf.live_nodes() if n.kind == "cond"]
        accounted = set(also_accounted)
        all_errs = {x.id for x in cfgf.live_nodes() if any(call_name(c) == "_on_error" for c in calls_in(x))}
        for desc, src in specs:
            text, pol = gp(src)
            hit = [n for n in conds if utext(n.exprs[0]) == text]
            good = len(hit) >= 1
            for n in hit:
                on, off = ("T", "F") if pol else ("F", "T")
                t = [mm for l, mm in n.succ if l == on][0]
                accounted |= {x for x in all_errs if x == t or (x in cfgf.reachable(t) and (n, pol) in
                                                                [(g, p_) for g, p_ in cfgf.guards(x)])}
                errs = [x.id for x in cfgf.live_nodes() if any(call_name(c) == "_on_error" for c in calls_in(x))]
                # once the guard holds the refusal is inevitable
                good = good and (t in errs or cfgf.all_paths_pass(t, cfgf.exit, errs)) and bool(errs)
            rep.check(good, "R2", key(f, None, "guard: " + desc), f, hit[0].exprs[0] if hit else None,
                      "guard missing, mis-oriented or not refusing" if not good else "")
        # "exactly when": these are the only refusals - another one turns away orders the rules above let through
        handlers_ = [h for h in cfgf.live_nodes() if h.kind == "except"]
        # a refusal on a failure path (the ladder could not be built) turns away nothing the ladder would accept
        extra = sorted(x for x in all_errs - accounted if not any(cfgf.dominates(h.id, x) for h in handlers_))
        if fname in ("_validate_betfair_price", "_validate_betdaq_price", "_validate_size", "_validate_betfair_liability"):
            rep.check(not extra, "R2", key(f, None, "no refusal beyond the listed guards"), f,
                      cfgf.nodes[extra[0]].exprs[0] if extra else None,
                      "further refusals at lines %s" % [cfgf.nodes[x].lineno for x in extra])

    guards_of("_validate_size", [("size is None", "size is None"), ("size <= 0", "size <= 0"),
                                 ("more than two decimals", "size != round(size, 2)")])
    guards_of("_validate_betfair_liability", [
        ("liability is None", "order.order_type.liability is None"),
        ("liability <= 0", "order.order_type.liability <= 0"),
        ("more than two decimals", "order.order_type.liability != round(order.order_type.liability, 2)")])
    # per ladder definition: the price is tested against that definition's own ladder (however the ladder reaches
    # the test - three separate tests, or one test on a ladder picked in the branches) and refused when not on it
    from sa.kinds import folded_conds
    fpr = prog.own_method("OrderValidation", "_validate_betfair_price")
    cfgpr = ctx.cfg(fpr)
    line_ladder = ("utils.make_line_prices(order.order_type.line_range_info.min_unit_value, "
                   "order.order_type.line_range_info.max_unit_value, order.order_type.line_range_info.interval)")
    want_ladder = {"CLASSIC": {"utils.PRICES"}, "FINEST": {"utils.FINEST_PRICES"},
                   "LINE_RANGE": {line_ladder, "tuple(%s)" % line_ladder, "list(%s)" % line_ladder, "prices"}}
    errs_pr = [x.id for x in cfgpr.live_nodes() if any(call_name(c) == "_on_error" for c in calls_in(x))]
    lad = {}
    ladder_refusals = set()
    for D in ("CLASSIC", "FINEST", "LINE_RANGE"):
        def evD(e, D=D):
            t = utext(e)
            if t == "order.order_type.price is None":
                return False
            if t.startswith("order.order_type.price_ladder_definition == "):
                return t.endswith("'%s'" % D)
            return None
        tests = [(n, t) for n, t in folded_conds(cfgpr, fpr, evD) if t.startswith("utils.as_dec(order.order_type.price) in ")]
        ok_D = len(tests) == 1
        if ok_D:
            n, t = tests[0]
            lad[D] = t.split(" in ", 1)[1]
            off = [mm for l, mm in n.succ if l == "F"][0]
            ok_D = lad[D] in want_ladder[D] and (off in errs_pr or cfgpr.all_paths_pass(off, cfgpr.exit, errs_pr))
            ladder_refusals |= {x for x in errs_pr if x == off or x in cfgpr.reachable(off, [y for y in errs_pr if y != x])}
        rep.check(ok_D, "R2", key(fpr, None, "guard: %s price not on the %s" % (
            D if D != "LINE_RANGE" else "LINE", "ladder" if D != "LINE_RANGE" else "market's range")), fpr, None, str(lad.get(D)))
    guards_of("_validate_betfair_price", [("price is None", "order.order_type.price is None")], ladder_refusals)
    guards_of("_validate_betdaq_price", [
        ("price is None", "order.order_type.price is None"),
        ("price not on the Betdaq ladder", "utils.as_dec(order.order_type.price) not in utils.BETDAQ_PRICES")])
    # the LINE_RANGE ladder named `prices` above must be the one built from the order's own range
    f = prog.own_method("OrderValidation", "_validate_betfair_price")
    if lad.get("LINE_RANGE") == "prices":
        lp = [s_ for s_ in walk_nodes(f.node.body, ast.Assign) if utext(s_.targets[0]) == "prices"]
        lpv = lp[0].value if len(lp) == 1 else None
        if isinstance(lpv, ast.Call) and isinstance(lpv.func, ast.Name) and lpv.func.id in ("tuple", "list", "frozenset", "set") and len(lpv.args) == 1:
            lpv = lpv.args[0]
        rep.check(lpv is not None and " ".join(utext(lpv).split()) == line_ladder,
                  "R2", key(f, None, "the line ladder is built from the market's own range and interval"), f)
    else:
        rep.check(lad.get("LINE_RANGE") in want_ladder["LINE_RANGE"], "R2",
                  key(f, None, "the line ladder is built from the market's own range and interval"), f, None, str(lad.get("LINE_RANGE")))
    rep.check({k: v for k, v in lad.items() if k != "LINE_RANGE"} == {"CLASSIC": "utils.PRICES", "FINEST": "utils.FINEST_PRICES"}, "R2",
              key(f, None, "each ladder definition is checked against its own ladder"), f, None, str(lad))
    from rules.c01 import control_always_validates
    control_always_validates(ctx, rep, "R2")
    # minimum stake rules
    ms = prog.own_method("OrderValidation", "_validate_betfair_min_size")
    cfgm = ctx.cfg(ms)
    sk = [n for n in cfgm.live_nodes() if n.kind == "cond" and utext(n.exprs[0]) == "client.min_bet_validation is False"]
    good = len(sk) == 1 and all(cfgm.nodes[mm].kind == "return" for l, mm in sk[0].succ if l == "T")
    rep.check(good, "R2", key(ms, None, "minimum-stake rules are skipped only when min_bet_validation is off"), ms)
    conds = {utext(n.exprs[0]): n for n in cfgm.live_nodes() if n.kind == "cond"}
    lim = ct("size < client.min_bet_size") in conds and ct("order.order_type.price * size < client.min_bet_payout") in conds
    if lim:
        a, b = conds[ct("size < client.min_bet_size")], conds[ct("order.order_type.price * size < client.min_bet_payout")]
        lim = [mm for l, mm in a.succ if l == "T"] == [b.id] and any(
            call_name(c) == "_on_error" for l, mm in b.succ if l == "T" for c in calls_in(cfgm.nodes[mm]))
        lim = lim and ("order_type == OrderTypes.LIMIT", True) in [(utext(g.exprs[0]), pol) for g, pol in cfgm.guards(a.id)]
    rep.check(lim, "R2", key(ms, None, "LIMIT: refused when below the minimum stake AND below the minimum payout"), ms)
    sp = {}
    for t, n in conds.items():
        c = canon_compare(n.exprs[0])
        o = oriented(c, "order.order_type.liability") if c else None
        if o and o[1] == "<":
            gs = [(utext(g.exprs[0]), pol) for g, pol in cfgm.guards(n.id)]
            side = "BACK" if ("order.side == 'BACK'", True) in gs else ("LAY" if ("order.side == 'LAY'", True) in gs else "?")
            refuses = any(call_name(cc) == "_on_error" for l, mm in n.succ if l == "T" for cc in calls_in(cfgm.nodes[mm]))
            sp[side] = (o[2], refuses)
    rep.check(sp == {"BACK": ("client.min_bet_size", True), "LAY": ("client.min_bsp_liability", True)}, "R2",
              key(ms, None, "starting-price orders: BACK liability >= minimum stake, LAY liability >= minimum SP liability"), ms, None, str(sp))
    # the limits themselves: every read of client.min_* looks the account's currency up afresh (the account
    # details arrive at login and are refreshed later; a value remembered from before would be another
    # currency's, or the GBP fallback)
    from sa.kinds import get_effects
    eff = get_effects(ctx)
    n_lim = 0
    for cls in [prog.cls("BaseClient")] + list(prog.cls("BaseClient").all_subclasses()):
        for pname in ("min_bet_size", "min_bet_payout", "min_bsp_liability"):
            pf = cls.methods.get(pname)
            if pf is None or pf.is_abstract_stub:
                continue
            n_lim += 1
            reach = res.reachable_funcs([pf])
            eff_f = [g.qual for g in reach if eff.effectful(g)]
            attrs = {n.attr for g in reach for n in walk_nodes(g.node.body, ast.Attribute) if utext(n.value) == "self"}
            rep.check(not eff_f and attrs <= {"account_details"}, "R2",
                      "%s.%s is computed from the account details on every read, nothing is remembered" % (cls.name, pname),
                      pf, None, "effectful: %s; instance state read: %s" % (eff_f, sorted(attrs)))
    rep.floor("R2", "client minimum-stake properties", n_lim, 9)
    # ... and each limit is read from its OWN column of the currency table, with its own fallback constant (the
    # columns coincide for most currencies: a swapped key only shows for the few where they differ, e.g. EUR)
    bc = prog.cls("BetfairClient")
    names = {"min_bet_size": "MIN_BET_SIZE", "min_bet_payout": "MIN_BET_PAYOUT", "min_bsp_liability": "MIN_BSP_LIABILITY"}
    for pname, const in names.items():
        pf = bc.methods.get(pname)
        if pf is None:
            continue
        keys = [n.slice.value for n in walk_nodes(pf.node.body, ast.Subscript)
                if isinstance(n.slice, ast.Constant) and isinstance(n.slice.value, str) and n.slice.value in names]
        consts = {n.id for r_ in walk_nodes(pf.node.body, ast.Return) if r_.value is not None
                  for n in ast.walk(r_.value) if isinstance(n, ast.Name) and n.id in names.values()}
        rep.check(bool(keys) and set(keys) == {pname} and consts <= {const}, "R2",
                  "BetfairClient.%s reads the '%s' column of the currency parameters and falls back to %s" % (pname, pname, const),
                  pf, None, "columns read: %s; fallback constants: %s" % (sorted(set(keys)), sorted(consts)))
    sz = prog.own_method("OrderValidation", "_validate_size")
    d = [utext(s.value) for s in walk_nodes(sz.node.body, ast.Assign) if utext(s.targets[0]) == "size"]
    rep.check(sorted(d) == ["order.order_type.size", "order.order_type.size or order.order_type.bet_target_size"], "R2",
              key(sz, None, "the validated size is the order's size (or its bet target size)"), sz, None, str(d))
    init = prog.own_method("BaseFlumine", "__init__")
    regs = [utext(c.args[0]) for c in sorted([c for c in walk_calls(init.node.body) if call_name(c) == "add_trading_control"],
                                            key=lambda c: c.lineno)]
    rep.check(regs[:1] == ["OrderValidation"], "R2", key(init, None, "order validation is the first default control"), init, None, str(regs))
    for sc in ov.all_subclasses():
        rep.remark("R2", "%s subclasses OrderValidation" % sc.name)


_U = "flumine/utils.py"
MUTANTS = [
    dict(id="c17-payout-reads-bsp-column", file="flumine/clients/betfairclient.py", func="BetfairClient.min_bet_payout",
         old="                    \"min_bet_payout\"\n", new="                    \"min_bsp_liability\"\n", expect=["R2"],
         why="EUR accounts get a payout threshold of 10 instead of 20"),
    dict(id="c17-fast-path-fixed-ladder", file=_U, func="get_nearest_price",
         old="    price = as_dec(price)\n    for cutoff, step in cutoffs:", new="    if price in PRICES_FLOAT:\n        return float(price)\n    price = as_dec(price)\n    for cutoff, step in cutoffs:",
         expect=["R3"], why="classic ticks returned for the Betdaq ladder"),
    dict(id="c17-cutoff-changed", file=_U, old="    (6, 10),\n", new="    (6, 20),\n", expect=["R1"], why="0.05 ticks between 4 and 6"),
    dict(id="c17-cutoff-boundary", file=_U, old="    (30, 1),\n", new="    (40, 1),\n", expect=["R1"], why="1.0 ticks up to 40"),
    dict(id="c17-min-price", file=_U, old="\nMIN_PRICE = 1.01", new="\nMIN_PRICE = 1.0", expect=["R1"], why="1.00 accepted"),
    dict(id="c17-size-le-zero", file=TC, func="OrderValidation._validate_size", old="        elif size <= 0:", new="        elif size < 0:",
         expect=["R2"], why="zero-size orders accepted"),
    dict(id="c17-drop-2dp", file=TC, func="OrderValidation._validate_size",
         old="        elif size != round(size, 2):\n            self._on_error(order, \"Order size has more than 2dp\")\n", new="", expect=["R2"],
         why="sizes with three decimals reach the exchange"),
    dict(id="c17-finest-not-checked", file=TC, func="OrderValidation._validate_betfair_price",
         old="            if utils.as_dec(order.order_type.price) not in utils.FINEST_PRICES:", new="            if utils.as_dec(order.order_type.price) not in utils.PRICES and False:",
         expect=["R2"], why="any price accepted on FINEST markets"),
    dict(id="c17-no-default-error", file=TC, func="OrderValidation._validate_betfair_order",
         old="        else:\n            self._on_error(order, \"Unknown orderType\")", new="        else:\n            pass",
         expect=["R2"], why="unknown order types pass validation"),
    dict(id="c17-validation-after-exposure", file="flumine/baseflumine.py", func="BaseFlumine.__init__",
         old="        self.add_trading_control(OrderValidation)\n        self.add_trading_control(MarketValidation)\n        self.add_trading_control(StrategyExposure)\n",
         new="        self.add_trading_control(StrategyExposure)\n        self.add_trading_control(OrderValidation)\n        self.add_trading_control(MarketValidation)\n",
         expect=["R2"], why="exposure computed on an unvalidated order"),
    dict(id="c17-classic-uses-finest", file=TC, func="OrderValidation._validate_betfair_price",
         old="            if utils.as_dec(order.order_type.price) not in utils.PRICES:", new="            if utils.as_dec(order.order_type.price) not in utils.FINEST_PRICES:",
         expect=["R2"], why="off-ladder prices accepted on classic markets"),
    dict(id="c17-min-size-or", file=TC, func="OrderValidation._validate_betfair_min_size",
         old="                size < client.min_bet_size\n                and (order.order_type.price * size) < client.min_bet_payout",
         new="                size < client.min_bet_size\n                and (order.order_type.price * size) > client.min_bet_payout", expect=["R2"],
         why="small stakes with a large payout refused, tiny ones accepted"),
    dict(id="c17-loc-no-liability-check", file=TC, func="OrderValidation._validate_betfair_order",
         old="            self._validate_betfair_price(order)\n            self._validate_betfair_liability(order)\n", new="            self._validate_betfair_price(order)\n",
         expect=["R2"], why="limit-on-close liability unchecked"),
    dict(id="c17-lay-sp-min", file=TC, func="OrderValidation._validate_betfair_min_size",
         old="                and order.order_type.liability < client.min_bsp_liability", new="                and order.order_type.liability < client.min_bet_size",
         expect=["R2"], why="lay SP liability below the exchange minimum accepted"),
    dict(id="c17-prices-from-floats", file=_U, func="as_dec", old="    return Decimal(str(value))", new="    return Decimal(value)", expect=["R1"],
         why="binary noise: valid prices rejected"),
    dict(id="c17-arange-closed", file=_U, func="arange", old="    while start < stop:", new="    while start <= stop:", expect=["R1"],
         why="cut-off prices duplicated"),
    dict(id="c17-finest-step", file=_U, old="FINEST_PRICES = make_prices(MIN_PRICE, ((1000, 100),))", new="FINEST_PRICES = make_prices(MIN_PRICE, ((1000, 10),))",
         expect=["R1"], why="0.1 ticks on finest markets"),
    dict(id="c17-liability-none-dropped", file=TC, func="OrderValidation._validate_betfair_liability",
         old="        if order.order_type.liability is None:\n            self._on_error(order, \"Order liability is None\")\n        elif order.order_type.liability <= 0:",
         new="        if order.order_type.liability is not None and order.order_type.liability <= 0:", expect=["R2"], why="missing liability accepted"),
    dict(id="c17-min-stake-cached", file="flumine/clients/simulatedclient.py", func="SimulatedClient.min_bet_size",
         old="        if self.account_details:", new="        self._seen = True\n        if self.account_details:",
         expect=["R2"], why="the property keeps state between reads"),
]
