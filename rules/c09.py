"""C09 - Runner removal voids bets on the runner and reduces the others once."""

import ast

from sa import AnalysisError
from sa.kinds import (key, utext, call_name, recv_text, calls_in, node_calls, all_stores, all_mutator_calls,
                      canon_compare, oriented, loop_body_exits_early)
from sa.cfg import walk_calls, walk_nodes

EXPLANATION = (
    "Decided part of C09: (R1) the de-duplication registry of applied removals lives as long as the middleware "
    "instance (created in __init__, never purged), so its key must identify the market as well as the runner "
    "and factor; a removal is registered exactly when it is applied and applied before the simulated matching "
    "of that update; (R2) the void resets matched, average price, fills, cancelled and lapsed together and "
    "sets voided to the full size/liability, so nothing remains whatever state the order was in; (R3) the void "
    "and the reduction range over the whole blotter, not the live list, and select the runner by (market, "
    "selection, handicap); (R4) the price reduction applies iff the factor is set and >= 2.5, multiplies by "
    "(1 - factor/100), rounds to 2 dp and is floored at 1.01; the starting-price liability scaling applies to "
    "MARKET_ON_CLOSE lays in WIN and in PLACE/OTHER_PLACE markets; (R5) a placement on a removed runner is "
    "refused before any matching. Not decided: the scaling formulas, completion of starting-price orders on a "
    "removed runner."
)

MW = "flumine/markets/middleware.py"


def run(ctx, rep):
    prog, res = ctx.prog, ctx.res
    mw = prog.cls("SimulatedMiddleware")
    call = prog.own_method("SimulatedMiddleware", "__call__")
    prr = prog.own_method("SimulatedMiddleware", "_process_runner_removal")

    # ------------------------------------------------------------------ R1 registry
    init = prog.own_method("SimulatedMiddleware", "__init__")
    created = [s for s in walk_nodes(init.node.body, ast.Assign) if utext(s.targets[0]) == "self._runner_removals"]
    stores = [(f, s) for f, s, t, kind in all_stores(prog, "_runner_removals")]
    purged = [(f, c, m) for f, c, m in all_mutator_calls(prog, "_runner_removals") if m != "append"]
    instance_wide = len(created) == 1 and all(f.qual == "SimulatedMiddleware.__init__" for f, s in stores) and not purged
    cfg = ctx.cfg(call)
    aps = [(n, c) for n, c in node_calls(cfg, "append") if recv_text(c) == "self._runner_removals"]
    if len(aps) != 1:
        foreign = sorted({f.qual for f, s in stores if f.qual != "SimulatedMiddleware.__init__"} | {f.qual for f, c2, m in purged})
        if foreign:
            # the registry is rebuilt / purged instead of extended: removals applied earlier (in this or another
            # market of the run) are forgotten and applied again
            rep.violation("R1", key(call, None, "applied removals are only ever added to the registry"), call, None,
                          "self._runner_removals is rebound or purged in %s" % foreign)
            return
        raise AnalysisError("SimulatedMiddleware.__call__: registration of a removal not found")
    n, c = aps[0]
    keyname = utext(c.args[0])
    kd = [s for s in walk_nodes(call.node.body, ast.Assign) if utext(s.targets[0]) == keyname]
    comps = []
    if kd and isinstance(kd[0].value, ast.Tuple):
        comps = [utext(e) for e in kd[0].value.elts]
    per_market = isinstance(res.type_of(ast.parse("self._runner_removals", mode="eval").body, init), type(None)) and False
    has_market = any("market_id" in x or x == "market" for x in comps)
    # accepted alternatives: key contains the market id, or the registry is purged per market in remove_market,
    # or it is a per-market mapping
    rm = prog.own_method("SimulatedMiddleware", "remove_market")
    purges_in_remove = any(f is rm for f, c2, m in purged) or any(
        "_runner_removals" in utext(s) for s in walk_nodes(rm.node.body, (ast.Delete, ast.Assign)))
    # a registry without the market in its key can only be purged wholesale: that re-applies the
    # removals of every market still in flight (once is the other half of the clause)
    rep.check(has_market or not (purged or any(f.qual != "SimulatedMiddleware.__init__" for f, s in stores)), "R1",
              key(call, None, "applied removals are not forgotten while their market is still processed"), call, None,
              "the registry key %s does not identify the market, yet the registry is cleared/rebound in %s: removals of "
              "markets still in flight are applied a second time" % (comps, sorted({f.qual for f, c2, m in purged} |
                                                                               {f.qual for f, s in stores if f.qual != "SimulatedMiddleware.__init__"})))
    rep.check(has_market, "R1",
              key(call, None, "de-duplication key of applied removals identifies the market"), call, kd[0] if kd else None,
              "key is %s and the registry lives for the whole middleware instance: the same selection and "
              "factor removed in another market of the run is taken for already applied and never processed" % (comps,))
    gs = [(utext(g.exprs[0]), pol) for g, pol in cfg.guards(n.id)]
    rep.check(("%s in self._runner_removals" % keyname, False) in gs and ("runner.status == 'REMOVED'", True) in gs,
              "R1", key(call, None, "a removal is registered only when it is new"), call, c, str(gs))
    lst = [(n2, c2) for n2, c2 in node_calls(cfg, "append") if recv_text(c2) == "runner_removals"]
    good = len(lst) == 1 and [(utext(g.exprs[0]), pol) for g, pol in cfg.guards(lst[0][0].id)] == gs
    rep.check(good, "R1", key(call, None, "registered and scheduled for processing together"), call)
    pr = node_calls(cfg, "_process_runner_removal")
    sim = node_calls(cfg, "_process_simulated_orders")
    good = len(pr) == 1 and len(sim) == 1 and cfg.dominates([x for x in cfg.live_nodes() if x.kind == "for_init" and
                                                             pr[0][1] in walk_calls(x.ast.body)][0].id, sim[0][0].id)
    if good:
        lp = [x for x in walk_nodes(call.node.body, ast.For) if pr[0][1] in walk_calls(x.body)][0]
        a = pr[0][1].args
        # the scheduled triple is passed on whole: `*_removal`, or the three names of an unpacking loop target
        whole = (len(a) == 2 and utext(a[1]) == "*" + utext(lp.target)) or (
            isinstance(lp.target, ast.Tuple) and [utext(x) for x in a[1:]] == [utext(e) for e in lp.target.elts]
            and len(lp.target.elts) == 3)
        good = utext(lp.iter) == "runner_removals" and not loop_body_exits_early(lp) and \
            utext(a[0]) == "market" and whole and not pr[0][1].keywords
    if good:
        lpn = [x for x in cfg.live_nodes() if x.kind == "for_init" and x.ast is lp][0]
        good = cfg.unconditional(lpn.id)
    rep.check(good, "R1", key(call, None, "every new removal is applied once, unconditionally, before the matching of this update"), call,
              None, "a removal that is registered but applied only under some condition is lost for good")
    rl = [x for x in walk_nodes(call.node.body, ast.For) if utext(x.iter) == "market.market_book.runners"]
    rep.check(len(rl) == 1 and not loop_body_exits_early(rl[0]), "R1", key(call, None, "all runners of the book are inspected"), call)

    # ------------------------------------------------------------------ R2 void group
    from rules.c04 import void_group
    void_group(ctx, rep, "R2")

    # the removal step runs inside the middleware wrapper: an exception in it is contained - and ends the step for
    # every order still to come, for good (the removal is already registered).  What can raise here without
    # a visible `raise`: reading a field that only some order types have.  Every such read must sit under a
    # test of the order type that guarantees the field.
    ot_fields = {}
    for cn_ in ("LimitOrder", "LimitOnCloseOrder", "MarketOnCloseOrder"):
        oc = prog.cls(cn_)
        init_ = oc.methods.get("__init__")
        otv = utext(oc.class_attrs.get("ORDER_TYPE")) if "ORDER_TYPE" in oc.class_attrs else None
        if init_ is None or otv is None:
            raise AnalysisError("order type class %s: __init__ / ORDER_TYPE not found" % cn_)
        ot_fields[otv] = {t.attr for st_ in walk_nodes(init_.node.body, ast.Assign) for t in st_.targets
                          if isinstance(t, ast.Attribute) and utext(t.value) == "self"} | {"ORDER_TYPE", "EXCHANGE", "info"}
    cfgr = ctx.cfg(prr)
    from sa.kinds import guard_pairs
    n_typed = 0
    for nd in cfgr.live_nodes():
        for e_ in nd.exprs:
            for a_ in ast.walk(e_):
                if isinstance(a_, ast.Attribute) and isinstance(a_.ctx, ast.Load) and utext(a_.value) == "order.order_type":
                    have = {k for k, v in ot_fields.items() if a_.attr in v}
                    if len(have) == len(ot_fields):
                        continue
                    n_typed += 1
                    gs_ = guard_pairs(cfgr, nd.id)
                    allowed = set(ot_fields)
                    for t_, pol_ in gs_:
                        for k in list(ot_fields):
                            if t_ == "order.order_type.ORDER_TYPE == %s" % k:
                                allowed &= ({k} if pol_ else (set(ot_fields) - {k}))
                        if t_.startswith("order.order_type.ORDER_TYPE in "):
                            inside = {k for k in ot_fields if k in t_}
                            allowed &= (inside if pol_ else (set(ot_fields) - inside))
                    rep.check(allowed <= have, "R2", key(prr, a_, "order.order_type.%s is read only where the order type has it" % a_.attr),
                              prr, a_, "order types possible here: %s; types that have the field: %s - an AttributeError here "
                                        "is swallowed by the middleware wrapper and the orders after this one are never voided / reduced" % (
                                            sorted(allowed), sorted(have)))
    rep.floor("R2", "reads of type-specific order fields in the removal step", n_typed, 2)

    # ------------------------------------------------------------------ R3 range and selection
    lps = [x for x in walk_nodes(prr.node.body, ast.For) if utext(x.target) == "order"]
    rep.check(len(lps) == 1 and utext(lps[0].iter) == "market.blotter" and not loop_body_exits_early(lps[0]), "R3",
              key(prr, None, "ranges over every order of the blotter (not only live ones), no early exit"), prr,
              lps[0] if lps else None, "completed orders keep fills that must be voided / reduced as well")
    cfgp = ctx.cfg(prr)
    sel = [n for n in cfgp.live_nodes() if n.kind == "cond" and "order.lookup" in utext(n.exprs[0])]
    good = len(sel) == 1
    if good:
        c = canon_compare(sel[0].exprs[0])
        o = oriented(c, "order.lookup")
        good = o is not None and o[1] == "==" and o[2].replace(" ", "") == "(market.market_id,%s,%s)" % (prr.params[2], prr.params[3])
    rep.check(good, "R3", key(prr, None, "the removed runner is selected by (market, selection, handicap)"), prr)
    it = prog.own_method("Blotter", "__iter__")
    rep.check(utext(it.node.body[-1]) == "return iter(list(self._orders.values()))", "R3",
              key(it, None, "iterating a blotter yields all its orders"), it)

    # ------------------------------------------------------------------ R4 constants and orientation
    cst = prog.const_value("flumine.markets.middleware", "WIN_MINIMUM_ADJUSTMENT_FACTOR")
    rep.check(cst == 2.5, "R4", "WIN_MINIMUM_ADJUSTMENT_FACTOR == 2.5 (exchange rule)", None, None, str(cst))
    thr = [n for n in cfgp.live_nodes() if n.kind == "cond" and "WIN_MINIMUM_ADJUSTMENT_FACTOR" in utext(n.exprs[0])]
    good = len(thr) == 1
    if good:
        o = oriented(canon_compare(thr[0].exprs[0]), prr.params[4])
        good = o is not None and o[1] == ">=" and o[2] == "WIN_MINIMUM_ADJUSTMENT_FACTOR"
        gs = [(utext(g.exprs[0]), pol) for g, pol in cfgp.guards(thr[0].id)]
        good = good and (prr.params[4], True) in gs
    rep.check(good, "R4", key(prr, None, "reduction applies iff the factor is set and >= the threshold"), prr,
              thr[0].exprs[0] if thr else None)
    red = [(n, c) for n, c in node_calls(cfgp, "_calculate_reduction_factor")]
    good = len(red) == 1 and thr and ("T", ) and cfgp.dominates(thr[0].id, red[0][0].id)
    if good:
        n, c = red[0]
        good = isinstance(n.ast, ast.Assign) and utext(n.ast.targets[0]) == "match[1]" and \
            [utext(a) for a in c.args] == ["match[1]", prr.params[4]]
        lp = [x for x in walk_nodes(prr.node.body, ast.For) if utext(x.target) == "match"]
        good = good and len(lp) == 1 and utext(lp[0].iter) == "order.simulated.matched" and not loop_body_exits_early(lp[0])
        gs = [(utext(g.exprs[0]), pol) for g, pol in cfgp.guards(n.id)]
        good = good and any("order.lookup" in a and pol is False for a, pol in gs)
    rep.check(good, "R4", key(prr, None, "every fill of the other runners is re-priced once, in place"), prr)
    wp = [n for n in cfgp.live_nodes() if n.kind == "stmt" and "wap(order.simulated.matched)" in n.text(200)]
    mloop = [x for x in cfgp.live_nodes() if x.kind == "for_init" and utext(x.ast.target) == "match"]
    rep.check(len(wp) == 1 and len(mloop) == 1 and cfgp.dominates(mloop[0].id, wp[0].id)
              and wp[0].id not in cfgp.reachable(cfgp.entry, [mloop[0].id]), "R4",
              key(prr, None, "average price recomputed after the re-pricing"), prr)
    crf = prog.own_method("SimulatedMiddleware", "_calculate_reduction_factor")
    body = [utext(s) for s in crf.node.body]
    p, a = crf.params[0], crf.params[1]
    good = body == ["price_adjusted = round(%s * (1 - %s / 100), 2)" % (p, a), "return max(price_adjusted, 1.01)"]
    rep.check(good, "R4", key(crf, None, "price x (1 - factor/100), 2 dp, floored at 1.01"), crf, None, str(body))
    mt = {}
    for n in cfgp.live_nodes():
        if n.kind == "cond" and utext(n.exprs[0]).startswith("market.market_type"):
            mt[utext(n.exprs[0])] = n
    types_ok = "market.market_type == 'WIN'" in mt and any(
        t.replace(" ", "") in ("market.market_typein{'PLACE','OTHER_PLACE'}", "market.market_typein{'OTHER_PLACE','PLACE'}",
                               "market.market_typein('PLACE','OTHER_PLACE')", "market.market_typein['PLACE','OTHER_PLACE']")
        for t in mt)
    rep.check(types_ok, "R4", key(prr, None, "liability scaling for WIN and for PLACE / OTHER_PLACE markets"), prr, None, str(sorted(mt)))
    sc = [n for n in cfgp.live_nodes() if n.kind == "stmt" and isinstance(n.ast, ast.AugAssign)
          and utext(n.ast.target) == "order.order_type.liability"]
    good = len(sc) >= 1
    for n in sc:
        gs = [(utext(g.exprs[0]), pol) for g, pol in cfgp.guards(n.id)]
        good = good and ("order.order_type.ORDER_TYPE == OrderTypes.MARKET_ON_CLOSE", True) in gs and \
            ("order.side == 'LAY'", True) in gs and isinstance(n.ast.op, ast.Mult) and utext(n.ast.value) == "multiplier"
    rep.check(good, "R4", key(prr, None, "only MARKET_ON_CLOSE lay liabilities on other runners are scaled down"), prr)

    # ------------------------------------------------------------------ R5 refused on a removed runner
    pl = prog.own_method("SimulatedOrder", "place")
    cfgl = ctx.cfg(pl)
    rem = [n for n in cfgl.live_nodes() if n.kind == "cond" and utext(n.exprs[0]) == "runner.status == 'REMOVED'"]
    good = len(rem) == 1
    if good:
        matchers = [n for n in cfgl.live_nodes() if any(call_name(c) in (
            "_process_price_matched", "_process_price_matched_vwap") for c in calls_in(n))]
        piq = [n for n in cfgl.live_nodes() if n.kind == "stmt" and "self._piq" in n.text()]
        good = all(cfgl.dominates(rem[0].id, m.id) and m.id not in cfgl.reachable(
            [mm for l, mm in rem[0].succ if l == "T"][0]) for m in matchers + piq) and len(matchers) >= 6
        tgt = [mm for l, mm in rem[0].succ if l == "T"][0]
        r = cfgl.reachable(tgt)
        rets = [cfgl.nodes[x] for x in r if cfgl.nodes[x].kind == "return"]
        good = good and len(rets) == 1 and "FAILURE" in rets[0].text(200)
    rep.check(good, "R5", key(pl, None, "placement on a removed runner fails before any matching or queueing"), pl)
    # ... for every order type: no response other than a FAILURE is produced without the runner having been
    # looked at (an accepted starting-price order on a removed runner would never be voided: its removal has
    # been applied already)
    if len(rem) == 1:
        from sa.kinds import guard_pairs
        n_acc, bad_acc = 0, []
        for n in cfgl.live_nodes():
            if n.kind == "return" and isinstance(n.ast.value, ast.Call) and call_name(n.ast.value) == "_create_place_response":
                kws = {k.arg: utext(k.value) for k in n.ast.value.keywords}
                if kws.get("status") == "'FAILURE'":
                    continue
                n_acc += 1
                if ("runner.status == 'REMOVED'", False) not in guard_pairs(cfgl, n.id):
                    bad_acc.append(n.lineno)
        rep.check(not bad_acc and n_acc >= 3, "R5", key(pl, None, "no order type is accepted without the removed-runner test"), pl, None,
                  "accepting returns not behind the test: lines %s" % bad_acc)


MUTANTS = [
    dict(id="c09-removed-test-limit-only", file="flumine/simulation/simulatedorder.py", func="SimulatedOrder.place",
         old="        if runner.status == \"REMOVED\":", new="        if runner.status == \"REMOVED\" and self.order.order_type.ORDER_TYPE == OrderTypes.LIMIT:",
         expect=["R5"], why="starting-price orders are accepted on a removed runner and never voided"),
    dict(id="c09-void-live-only", file=MW, func="SimulatedMiddleware._process_runner_removal",
         old="        for order in market.blotter:", new="        for order in market.blotter.live_orders:", expect=["R3"],
         why="completed orders keep their fills on a removed runner"),
    dict(id="c09-threshold-strict", file=MW, func="SimulatedMiddleware._process_runner_removal",
         old="and removal_adjustment_factor >= WIN_MINIMUM_ADJUSTMENT_FACTOR", new="and removal_adjustment_factor > WIN_MINIMUM_ADJUSTMENT_FACTOR",
         expect=["R4"], why="no reduction at exactly 2.5%"),
    dict(id="c09-threshold-value", file=MW, old="WIN_MINIMUM_ADJUSTMENT_FACTOR = 2.5", new="WIN_MINIMUM_ADJUSTMENT_FACTOR = 2.0",
         expect=["R4"], why="reduction applied under the exchange threshold"),
    dict(id="c09-drop-floor", file=MW, func="SimulatedMiddleware._calculate_reduction_factor",
         old="        return max(price_adjusted, 1.01)  # min: 1.01", new="        return price_adjusted", expect=["R4"],
         why="reduced price below 1.01"),
    dict(id="c09-removed-test-after-match", file="flumine/simulation/simulatedorder.py", func="SimulatedOrder.place",
         old="        if runner.status == \"REMOVED\":\n            self.size_voided += self.size_remaining\n            return self._create_place_response(\n                None,\n                status=\"FAILURE\",\n                error_code=\"RUNNER_REMOVED\",\n            )\n",
         new="", expect=["R5"], why="orders accepted on a removed runner"),
    dict(id="c09-void-keeps-lapsed", file=MW, func="SimulatedMiddleware._process_runner_removal",
         old="                    order.simulated.size_lapsed = 0.0\n", new="", expect=["R2"], why="negative remainder after void"),
    dict(id="c09-void-partial", file=MW, func="SimulatedMiddleware._process_runner_removal",
         old="                        order.simulated.size_voided = order.order_type.size",
         new="                        order.simulated.size_voided = order.size_remaining", expect=["R2"],
         why="matched part not voided"),
    dict(id="c09-register-always", file=MW, func="SimulatedMiddleware.__call__",
         old="                if _removal not in self._runner_removals:", new="                if True:", expect=["R1"],
         why="reduction applied on every update"),
    dict(id="c09-removal-after-matching", file=MW, func="SimulatedMiddleware.__call__",
         old="        for _removal in runner_removals:\n            self._process_runner_removal(market, *_removal)\n\n        market.context[\"simulated\"] = market_analytics\n        # process simulated orders\n        if market.blotter.active:\n            self._process_simulated_orders(market, market_analytics)",
         new="        market.context[\"simulated\"] = market_analytics\n        # process simulated orders\n        if market.blotter.active:\n            self._process_simulated_orders(market, market_analytics)\n        for _removal in runner_removals:\n            self._process_runner_removal(market, *_removal)",
         expect=["R1"], why="orders on the removed runner still matched in the removal update"),
    dict(id="c09-select-by-selection-only", file=MW, func="SimulatedMiddleware._process_runner_removal",
         old="                if order.lookup == (\n                    market.market_id,\n                    removal_selection_id,\n                    removal_handicap,\n                ):",
         new="                if order.selection_id == removal_selection_id:", expect=["R3"],
         why="handicap lines voided together"),
    dict(id="c09-reduction-percent", file=MW, func="SimulatedMiddleware._calculate_reduction_factor",
         old="price * (1 - (adjustment_factor / 100))", new="price * (1 - adjustment_factor)", expect=["R4"],
         why="factor taken as a fraction"),
    dict(id="c09-scale-back-liability", file=MW, func="SimulatedMiddleware._process_runner_removal",
         old="                    ) and order.side == \"LAY\":", new="                    ):", expect=["R4"],
         why="back SP liabilities scaled too"),
]
