#!/usr/bin/env python3
"""show what the reference-relative normal form does to a patch: nf_show.py <patch.diff> [function name ...]"""
import sys, os, subprocess, shutil, ast
VERIF = os.path.dirname(os.path.dirname(os.path.abspath(__file__)))
sys.path.insert(0, VERIF)
from sa.index import Program
diff = os.path.abspath(sys.argv[1])
root = "/tmp/nfshow"
shutil.rmtree(root, ignore_errors=True); os.makedirs(root)
shutil.copytree("/repo/flumine", root + "/flumine")
subprocess.run("git init -q . && git apply %s" % diff, shell=True, cwd=root, check=True)
p = Program(root)
print("expanded helpers:", p.expanded_helpers)
print("propagated aliases:", p.propagated_aliases)
for name in sys.argv[2:]:
    for f in p.all_functions():
        if f.qual == name or f.name == name:
            print("----", f.qual); print(ast.unparse(f.node))
shutil.rmtree(root, ignore_errors=True)
