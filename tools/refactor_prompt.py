#!/usr/bin/env python3
"""writes /tmp/seedprompts/rf<ID>.txt : the brief for an independent sub-agent that produces
behaviour-PRESERVING refactors of the code a property is anchored in (false-alarm test of the checks)."""
import json, sys, os
PREFIX = os.environ.get('RF_PREFIX', 'rf')
EXTRA = os.environ.get('RF_EXTRA', '')
props = {json.loads(l)['id']: json.loads(l) for l in open('/verif/properties.jsonl')}
T = '''You are helping to test a verification effort for the open-source Python project betcode-org/flumine (an event-driven sports-betting trading framework). You work ONLY inside the git worktree {wt} (a checkout of the project). Do not read or write anything under /verif or /repo. Python to use: /venv/bin/python. IMPORTANT: `flumine` is also installed from another directory; run pytest as `cd {wt} && /venv/bin/python -m pytest ...` (this imports the worktree copy).

Here is a semantic property that the framework satisfies today:

ID: {id} — {title}
STATEMENT: {statement}
QUANTIFIED OVER: {qtext}
CODE THE PROPERTY IS ANCHORED IN: {files}
MECHANISMS: {mech}

YOUR TASK: produce THREE independent REFACTORS (A, B, C) of the code that implements this property — the kind of clean-up a careful maintainer of the project would really make and a reviewer would accept — such that each one, applied alone, leaves the behaviour of the package EXACTLY unchanged: same results, same state changes in the same order, same exceptions, same calls to the exchange/betting client, for every input, history, schedule and fault. (Log message text may differ; nothing else observable may.) The property above must therefore still hold after each refactor. Each refactor should really touch the statements that make the property true (not comments, docstrings, or unrelated code), and should be non-trivial: 5-40 changed lines. Use different kinds for A, B and C, for example:
  - extract a helper method/function from a block, or inline a small private helper into its only caller;
  - turn a loop that builds a list into a comprehension or the reverse; replace a comprehension filter by an explicit loop with `continue`;
  - restructure conditionals: guard clauses / early `continue` instead of nesting (or the reverse), merge nested `if`s into one `and` condition, split an `and` into nested `if`s, turn an if/elif chain into a dictionary dispatch where that is exactly equivalent, De Morgan rewrites;
  - cache a repeatedly read attribute chain in a local (only where nothing can change it in between), or remove such a local;
  - reorder statements that are provably independent; hoist an invariant computation out of a loop (only if provably invariant and side-effect free);
  - replace `try/except KeyError` by `.get()`/`in` (or the reverse) where exactly equivalent; `x = x + y` vs `x += y` on numbers; `len(x) == 0` vs `not x` for lists; tuple unpacking; f-strings;
  - move a constant or a pure helper to module level; add type annotations to locals; rename local variables / a parameter of a private helper consistently.
{extra}RULES: keep the names and signatures of all existing classes, methods, functions, properties and attributes (the tests and users call them); new helpers may be named freely. Do not change any threshold, constant, comparison outcome, default, iteration order, or the order of side effects. Do not "fix" anything you think is a bug. If you are not sure a rewrite is exactly equivalent, choose another one.
For EACH refactor: the package must import and the existing test-suite must pass exactly as before: run `cd {wt} && /venv/bin/python -m pytest -q -p no:cacheprovider --timeout=900 2>&1 | tail -5` — the baseline is "5 failed, 976 passed" (the 5 failures are pre-existing network/json tests: test_event_processing, test_simulation_multi_clients, test_simulation_pro, test_get_file_event_id, test_get_file_event_id_tuple); with your refactor it must be the same 976 passed and the same 5 failed.

DELIVERABLES (write them into {wt}/seeds/ , create that directory):
  seeds/A.diff, seeds/B.diff, seeds/C.diff — produced with `git -C {wt} diff > seeds/A.diff` (each relative to the unchanged checkout, each containing ONLY its own change to files under flumine/)
  seeds/A.md, seeds/B.md, seeds/C.md — 5-10 lines each: what kind of refactor, which function(s), and a short argument why behaviour is exactly preserved (which cases you considered: exceptions, empty inputs, aliasing, evaluation order), plus the test-suite tail you observed with the refactor applied.
When you are finished, restore the worktree's tracked files (`git -C {wt} checkout -- .`) so that only the untracked seeds/ directory remains. Verify each diff applies cleanly on the restored tree with `git -C {wt} apply --check seeds/A.diff`.

In your final message, summarise the three refactors in two lines each. Do not commit anything. Never use `git stash` (the stash is shared between worktrees); to switch between patched and unpatched use `git diff > file`, `git checkout -- .` and `git apply file`.
'''
os.makedirs('/tmp/seedprompts', exist_ok=True)
for pid in sys.argv[1:]:
    p = props[pid]
    wt = '/tmp/wt/' + PREFIX + pid.lower()
    open('/tmp/seedprompts/%s%s.txt' % (PREFIX, pid), 'w').write(T.format(
        extra=EXTRA, wt=wt, id=pid, title=p['title'], statement=p['statement'], qtext=p['quantifier']['text'],
        files=', '.join(p['anchors']['files']),
        mech='; '.join('%s (%s)' % (m['name'], m['where']) for m in p['anchors']['mechanism'])))
    print('wrote', pid)
