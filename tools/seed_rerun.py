#!/usr/bin/env python3
"""Re-run every claimed check against every seeded change in /verif/seeded and print which checks report it.
Updates meta.json (detected_by, undecided, rules).

Default: every seed gets a scratch copy of /repo's package directory under /tmp/seedrun/<id> (patch applied
with `git apply` there, removed afterwards) and `./check <id> --root <copy>`, 16 seeds at a time.
--in-place: the patch is applied to /repo itself and reverted afterwards (sequential).
"""
import json, os, subprocess, sys, glob, shutil
from concurrent.futures import ThreadPoolExecutor

VERIF = os.path.dirname(os.path.dirname(os.path.abspath(__file__)))
SCRATCH = "/tmp/seedrun-%d" % os.getpid()   # one scratch tree per invocation


def sh(cmd, cwd=None):
    p = subprocess.run(cmd, shell=True, cwd=cwd, capture_output=True, text=True)
    return p.returncode, p.stdout + p.stderr


def props():
    man = json.load(open(os.path.join(VERIF, "MANIFEST.json")))
    return [c["property_id"] for c in man["checks"]]


def run_checks(root):
    det, und, rules = [], [], []
    for p in props():
        rcx, o = sh("./check %s --no-evidence --root %s" % (p, root), VERIF)
        if rcx == 1:
            det.append(p)
            rules += [l.strip().split(":")[0] for l in o.splitlines() if l.strip().startswith("%s rule" % p)]
        elif rcx != 0:
            und.append(p)
    return det, und, sorted(set(rules))


def one(d, in_place=False):
    name = os.path.basename(d)
    diff = os.path.join(d, "patch.diff")
    if in_place:
        root = "/repo"
        rc, out = sh("git -C /repo apply %s" % diff)
    else:
        root = os.path.join(SCRATCH, name)
        shutil.rmtree(root, ignore_errors=True)
        os.makedirs(root)
        shutil.copytree("/repo/flumine", os.path.join(root, "flumine"))
        rc, out = sh("git init -q . && git apply %s" % diff, root)
    if rc != 0:
        if not in_place:
            shutil.rmtree(root, ignore_errors=True)
        return name, None, out.strip()[:120]
    try:
        res = run_checks(root)
    finally:
        if in_place:
            sh("git -C /repo checkout -- .")
        else:
            shutil.rmtree(root, ignore_errors=True)
    det, und, rules = res
    meta_p = os.path.join(d, "meta.json")
    meta = json.load(open(meta_p)) if os.path.exists(meta_p) else {}
    meta["detected_by"], meta["undecided"], meta["rules"] = det, und, rules
    json.dump(meta, open(meta_p, "w"), indent=1)
    return name, res, ""


def main():
    in_place = "--in-place" in sys.argv
    only = [a for a in sys.argv[1:] if not a.startswith("--")]
    rc, out = sh("git -C /repo status --short")
    if out.strip():
        print("/repo not clean")
        return 2
    dirs = [d for d in sorted(glob.glob(os.path.join(VERIF, "seeded", "*"))) if os.path.exists(os.path.join(d, "patch.diff"))]
    if only:
        dirs = [d for d in dirs if any(o in os.path.basename(d) for o in only)]
    missed, undecided = [], []
    if in_place:
        results = [one(d, True) for d in dirs]
    else:
        with ThreadPoolExecutor(max_workers=14) as ex:
            results = list(ex.map(one, dirs))
        shutil.rmtree(SCRATCH, ignore_errors=True)
    for name, res, err in results:
        if res is None:
            print("%-50s does not apply: %s" % (name, err))
            missed.append(name)
            continue
        det, und, rules = res
        print("%-50s detected by %-14s %s%s" % (name, ",".join(det) or "-", ",".join(rules),
                                              ("  UNDECIDED " + ",".join(und)) if und else ""))
        if not det:
            missed.append(name)
        if und:
            undecided.append(name)
    print("seeds:", len(results), "missed:", missed, "with an undecided check:", undecided)
    return 1 if missed else 0


if __name__ == "__main__":
    sys.exit(main())
