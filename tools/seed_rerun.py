#!/usr/bin/env python3
"""Re-run every claimed check against every seeded change in /verif/seeded (patch applied to /repo, reverted
afterwards) and print which checks report it.  Updates meta.json (detected_by)."""
import json, os, subprocess, sys, glob
VERIF = os.path.dirname(os.path.dirname(os.path.abspath(__file__)))
def sh(cmd, cwd=None):
    p = subprocess.run(cmd, shell=True, cwd=cwd, capture_output=True, text=True)
    return p.returncode, p.stdout + p.stderr
def main():
    rc, out = sh("git -C /repo status --short")
    if out.strip():
        print("/repo not clean"); return 2
    man = json.load(open(os.path.join(VERIF, "MANIFEST.json")))
    props = [c["property_id"] for c in man["checks"]]
    missed = []
    for d in sorted(glob.glob(os.path.join(VERIF, "seeded", "*"))):
        diff = os.path.join(d, "patch.diff")
        if not os.path.exists(diff):
            continue
        rc, out = sh("git -C /repo apply %s" % diff)
        if rc != 0:
            print("%-45s does not apply: %s" % (os.path.basename(d), out.strip()[:80])); continue
        try:
            det, und, rules = [], [], []
            for p in props:
                rcx, o = sh("./check %s --no-evidence" % p, VERIF)
                if rcx == 1:
                    det.append(p)
                    rules += [l.strip().split(":")[0] for l in o.splitlines() if l.strip().startswith("%s rule" % p)]
                elif rcx == 2:
                    und.append(p)
        finally:
            sh("git -C /repo checkout -- .")
        meta_p = os.path.join(d, "meta.json")
        meta = json.load(open(meta_p)) if os.path.exists(meta_p) else {}
        meta["detected_by"], meta["undecided"], meta["rules"] = det, und, sorted(set(rules))
        json.dump(meta, open(meta_p, "w"), indent=1)
        print("%-45s detected by %-14s %s%s" % (os.path.basename(d), ",".join(det) or "-", ",".join(sorted(set(rules))),
                                              ("  UNDECIDED " + ",".join(und)) if und else ""))
        if not det:
            missed.append(os.path.basename(d))
    print("missed:", missed)
    return 1 if missed else 0
if __name__ == "__main__":
    sys.exit(main())
