#!/usr/bin/env python3
"""Behaviour-preserving refactors written by independent sub-agents: confirm (suite unchanged) and run every
claimed check against each.  A report is a false alarm unless the refactor turns out not to preserve behaviour.

usage: refactor_eval.py <worktree> <property id> [dest]   evaluate seeds/{A,B,C}.diff of a sub-agent worktree and
                                                        keep them under /verif/<dest>/<id>-<letter>/ (dest: refactors
                                                        (default) or features - property-preserving enhancements)
       refactor_eval.py --rerun [name-part ...]          re-run the checks on everything kept under /verif/refactors
                                                        and /verif/features
"""
import json, os, shutil, subprocess, sys, glob
from concurrent.futures import ThreadPoolExecutor

VERIF = os.path.dirname(os.path.dirname(os.path.abspath(__file__)))
PY = "/venv/bin/python"
SCRATCH = "/tmp/rfrun-%d" % os.getpid()   # one scratch tree per invocation: concurrent runs do not touch each other


def sh(cmd, cwd=None, timeout=1800):
    p = subprocess.run(cmd, shell=True, cwd=cwd, capture_output=True, text=True, timeout=timeout)
    return p.returncode, (p.stdout + p.stderr)


def props():
    return [c["property_id"] for c in json.load(open(os.path.join(VERIF, "MANIFEST.json")))["checks"]]


def run_checks(diff, name):
    root = os.path.join(SCRATCH, name)
    shutil.rmtree(root, ignore_errors=True)
    os.makedirs(root)
    shutil.copytree("/repo/flumine", os.path.join(root, "flumine"))
    rc, out = sh("git init -q . && git apply %s" % diff, root)
    if rc != 0:
        shutil.rmtree(root, ignore_errors=True)
        return None, out.strip()[:200]
    reports = []
    try:
        for p in props():
            rcx, o = sh("./check %s --no-evidence --root %s" % (p, root), VERIF)
            if rcx == 1:
                for l in o.splitlines():
                    if l.strip().startswith("%s rule" % p):
                        reports.append(("VIOLATION", l.strip()[:260]))
            elif rcx != 0:
                msg = [l for l in o.splitlines() if "ANALYSIS-ERROR" in l or "Error" in l]
                reports.append(("UNDECIDED", "%s: %s" % (p, " | ".join(msg[-2:])[:260])))
    finally:
        shutil.rmtree(root, ignore_errors=True)
    return reports, ""


def suite(cwd):
    rc, out = sh("%s -m pytest -q -p no:cacheprovider --timeout=900 2>&1 | tail -3" % PY, cwd)
    last = [l for l in out.strip().splitlines() if "passed" in l or "failed" in l]
    return last[-1] if last else out[-200:]


def rerun(parts):
    dirs = [d for base in ("refactors", "features") for d in sorted(glob.glob(os.path.join(VERIF, base, "*")))
            if os.path.exists(os.path.join(d, "patch.diff"))]
    if parts:
        dirs = [d for d in dirs if any(p in "%s/%s" % (os.path.basename(os.path.dirname(d)), os.path.basename(d)) for p in parts)]

    def one(d):
        label = "%s/%s" % (os.path.basename(os.path.dirname(d)), os.path.basename(d))
        return label, run_checks(os.path.join(d, "patch.diff"), label.replace("/", "-"))
    with ThreadPoolExecutor(max_workers=14) as ex:
        res = list(ex.map(one, dirs))
    bad = 0
    for name, (reports, err) in res:
        if reports is None:
            print("%-40s does not apply: %s" % (name, err)); bad += 1; continue
        print("%-40s %s" % (name, "quiet" if not reports else "%d report(s)" % len(reports)))
        for kind, txt in reports:
            print("      %s %s" % (kind, txt))
        bad += bool(reports)
    print("refactors: %d, with a report: %d" % (len(res), bad))
    shutil.rmtree(SCRATCH, ignore_errors=True)
    return 1 if bad else 0


def main():
    if sys.argv[1] == "--rerun":
        return rerun(sys.argv[2:])
    wt, prop = sys.argv[1:3]
    dest_base = sys.argv[3] if len(sys.argv) > 3 else "refactors"
    for letter in "ABC":
        diff = os.path.join(wt, "seeds", "%s.diff" % letter)
        if not os.path.exists(diff):
            print(letter, "missing"); continue
        sh("git checkout -- .", wt)
        rc, out = sh("git apply %s" % diff, wt)
        if rc != 0:
            print(letter, "does not apply:", out[:200]); continue
        st = suite(wt)
        sh("git checkout -- .", wt)
        base = os.path.basename(wt.rstrip("/"))
        rnd = base[:-len(prop)] if base.lower().endswith(prop.lower()) else ""
        name = "%s%s-%s" % ((rnd + "-") if rnd and rnd not in ("rf", "ft") else "", prop.lower(), letter)
        dst = os.path.join(VERIF, dest_base, name)
        os.makedirs(dst, exist_ok=True)
        shutil.copy(diff, os.path.join(dst, "patch.diff"))
        md = os.path.join(wt, "seeds", "%s.md" % letter)
        if os.path.exists(md):
            shutil.copy(md, os.path.join(dst, "notes.md"))
        reports, err = run_checks(os.path.join(dst, "patch.diff"), name)
        ok_suite = "976 passed" in st and "5 failed" in st
        json.dump({"refactor": name, "property": prop, "suite": st, "suite_unchanged": ok_suite,
                   "reports": reports, "source": "independent sub-agent given only the property text"},
                  open(os.path.join(dst, "meta.json"), "w"), indent=1)
        print("%s suite=%s  %s" % (name, "same" if ok_suite else st, "quiet" if not reports else ""))
        for kind, txt in reports or []:
            print("      %s %s" % (kind, txt))
    return 0


if __name__ == "__main__":
    sys.exit(main())
