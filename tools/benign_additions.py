#!/usr/bin/env python3
"""Hand-written benign feature additions (new methods, fields, parameters, logging events, a new control
class ...).  Every claimed check must stay quiet on each of them (no VIOLATION, no ANALYSIS-ERROR)."""
import json, os, sys
VERIF = os.path.dirname(os.path.dirname(os.path.abspath(__file__)))
sys.path.insert(0, VERIF)
from sa import AnalysisError
from sa.driver import Ctx, run_property
from sa.sensitivity import _apply
from concurrent.futures import ProcessPoolExecutor

ROOT = os.environ.get("VERIF_REPO", "/repo")
O = "flumine/order/order.py"
ADD = [
    dict(id="new-order-method", file=O, old="    def placing(self) -> None:\n",
         new="    def is_live(self) -> bool:\n        return self.status in LIVE_STATUS\n\n    def placing(self) -> None:\n"),
    dict(id="new-order-field", file=O, old="        self.cleared_order = None\n", new="        self.cleared_order = None\n        self.tags = []\n"),
    dict(id="new-control-class", file="flumine/controls/tradingcontrols.py", old="class MarketValidation(BaseControl):",
         new="class MaxOrderAge(BaseControl):\n    NAME = \"MAX_ORDER_AGE\"\n\n    def _validate(self, order, package_type):\n        if package_type == OrderPackageType.PLACE and order.elapsed_seconds_created > 3600:\n            self._on_error(order, \"Order too old\")\n\n\nclass MarketValidation(BaseControl):"),
    dict(id="new-default-control-at-end", file="flumine/baseflumine.py", old="        self.add_trading_control(StrategyExposure)\n",
         new="        self.add_trading_control(StrategyExposure)\n        self.add_trading_control(ExecutionValidation)\n"),
    dict(id="new-util", file="flumine/utils.py", old="def get_price(data: list, level: int)", new="def mid_price(a, b):\n    return (a + b) / 2\n\n\ndef get_price(data: list, level: int)"),
    dict(id="new-param-place-order", file="flumine/execution/transaction.py",
         old="        execute: bool = True,\n        force: bool = False,\n    ) -> bool:\n        order.update_client(self._client)",
         new="        execute: bool = True,\n        force: bool = False,\n        notes: str = None,\n    ) -> bool:\n        order.update_client(self._client)"),
    dict(id="trade-repr", file="flumine/order/trade.py", old="    def __enter__(self):\n        # todo raise error",
         new="    def __repr__(self):\n        return \"Trade %s\" % self.id\n\n    def __enter__(self):\n        # todo raise error"),
    dict(id="log-event-after-cancel", file="flumine/execution/transaction.py",
         old="        self._pending_cancel.append((order, None))\n        self._pending_orders = True\n",
         new="        self._pending_cancel.append((order, None))\n        self._pending_orders = True\n        self.market.flumine.log_control(events.OrderEvent(order))\n"),
    dict(id="update-counter-sim", file="flumine/simulation/simulation.py",
         old="            # process market\n            market(market_book)\n", new="            # process market\n            market(market_book)\n            market.context[\"updates\"] = market.context.get(\"updates\", 0) + 1\n"),
    dict(id="warn-else-branch", file="flumine/order/process.py",
         old="    elif order.status == OrderStatus.EXECUTABLE:\n        if order.current_order.status in [\"EXECUTION_COMPLETE\", \"EXPIRED\"]:\n            order.execution_complete()\n",
         new="    elif order.status == OrderStatus.EXECUTABLE:\n        if order.current_order.status in [\"EXECUTION_COMPLETE\", \"EXPIRED\"]:\n            order.execution_complete()\n    else:\n        logger.debug(\"no status change\")\n"),
    dict(id="new-config", file="flumine/config.py", old="order_sep = \"-\"", new="order_sep = \"-\"\nmax_order_age = 3600"),
    dict(id="blotter-helper", file="flumine/markets/blotter.py", old="    @property\n    def live_orders(self) -> Iterable:",
         new="    def order_count(self) -> int:\n        return len(self._orders)\n\n    @property\n    def live_orders(self) -> Iterable:"),
    dict(id="docstrings", file="flumine/execution/simulatedexecution.py", old="    def execute_cancel(\n        self, order_package, http_session: Optional[requests.Session]\n    ) -> None:\n",
         new="    def execute_cancel(\n        self, order_package, http_session: Optional[requests.Session]\n    ) -> None:\n        \"\"\"Simulated cancel\"\"\"\n"),
    dict(id="middleware-new-stat", file="flumine/markets/middleware.py", old="        market.context[\"simulated\"] = market_analytics\n",
         new="        market.context[\"simulated\"] = market_analytics\n        market.context[\"runner_count\"] = len(market_analytics)\n"),
    dict(id="message-text", file="flumine/execution/transaction.py", old="\"Order %s has already been placed\" % order.id", new="\"Order {0} already placed\".format(order.id)"),
    dict(id="strategy-new-hook", file="flumine/strategy/strategy.py", old="    def finish(self, flumine) -> None:\n        # called before flumine ends",
         new="    def process_order_update(self, market, order) -> None:\n        return\n\n    def finish(self, flumine) -> None:\n        # called before flumine ends"),
    dict(id="new-event-type", file="flumine/events/events.py", old="# both\n", new="class HeartbeatEvent(BaseEvent):\n    EVENT_TYPE = EventType.CUSTOM_EVENT\n    QUEUE_TYPE = QueueType.LOGGING\n\n\n# both\n"),
    dict(id="exposure-copy-then-append", file="flumine/markets/blotter.py",
         old="        for order in self.strategy_selection_orders(strategy, *lookup[1:]) + (\n            [new_order] if new_order is not None else []\n        ):",
         new="        orders = list(self.strategy_selection_orders(strategy, *lookup[1:]))\n        if new_order is not None:\n            orders.append(new_order)\n        for order in orders:"),
    dict(id="control-call-timed", file="flumine/controls/__init__.py", old="        self._validate(order, package_type)",
         new="        logger.debug('control %s', self.NAME)\n        self._validate(order, package_type)"),
    dict(id="cleared-skip-foreign", file="flumine/markets/blotter.py",
         old="            order_id = cleared_order.customer_order_ref[STRATEGY_NAME_HASH_LENGTH + 1 :]",
         new="            if not cleared_order.customer_order_ref:\n                continue\n            order_id = cleared_order.customer_order_ref[STRATEGY_NAME_HASH_LENGTH + 1 :]"),
    dict(id="min-size-local", file="flumine/clients/simulatedclient.py",
         old="        if self.account_details:\n            return currency_parameters[self.account_details.currency_code][\n                \"min_bet_size\"",
         new="        if self.account_details:\n            code = self.account_details.currency_code\n            return currency_parameters[code][\n                \"min_bet_size\""),
    dict(id="clock-read-into-local", file="flumine/strategy/runnercontext.py",
         old="        self.datetime_last_reset = datetime.datetime.utcnow()",
         new="        now = datetime.datetime.utcnow()\n        self.datetime_last_reset = now"),
    dict(id="type-annotations", file="flumine/simulation/simulatedorder.py", old="        _traded_size = traded_size / 2\n", new="        _traded_size: float = traded_size / 2\n"),
]


def run_one(m):
    prog = Ctx(ROOT).prog
    ov, why = _apply(prog, m)
    if ov is None:
        return m["id"], [("-", "-", "NOT-APPLIED", why)]
    ctx = Ctx(ROOT, ov)
    props = [c["property_id"] for c in json.load(open(os.path.join(VERIF, "MANIFEST.json")))["checks"]]
    bad = []
    for p in props:
        try:
            rep = run_property(p, ctx, "quick", emit=False)
            for o in rep.classify()[0]:
                bad.append((p, o["rule"], "VIOLATION", o["key"][:150]))
        except AnalysisError as e:
            bad.append((p, "-", "ANALYSIS-ERROR", str(e)[:150]))
        except Exception as e:
            bad.append((p, "-", "CRASH", repr(e)[:150]))
    return m["id"], bad


if __name__ == "__main__":
    n = 0
    with ProcessPoolExecutor(max_workers=16) as ex:
        for name, bad in ex.map(run_one, ADD):
            if bad:
                n += 1
            print("%-28s %s" % (name, "quiet" if not bad else ""))
            for b in bad:
                print("      ", b)
    print("additions with a report: %d of %d" % (n, len(ADD)))
    sys.exit(1 if n else 0)
