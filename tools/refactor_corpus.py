#!/usr/bin/env python3
"""False-alarm resistance: behaviour-preserving rewrites of the current tree must leave every check quiet.

For every function of the package three kinds of variants are generated on the syntax tree
(in memory, nothing is written to /repo):
  rename   every local variable (not parameters) gets a new name
  flip     every comparison a < b is written b > a, a == C as C == a (also <=, >=, !=)
  logging  a `logger.debug(...)` statement is inserted at the top of every branch and loop body
Each variant is analysed with all claimed checks; any VIOLATION that the unchanged tree does not
have, and any ANALYSIS-ERROR, is reported with the rule that produced it.

usage: refactor_corpus.py [--kinds rename,flip,logging] [--module flumine/order/order.py] [--jobs 16]
"""
import argparse
import ast
import json
import os
import sys
from concurrent.futures import ProcessPoolExecutor

VERIF = os.path.dirname(os.path.dirname(os.path.abspath(__file__)))
sys.path.insert(0, VERIF)

from sa import AnalysisError  # noqa: E402
from sa.driver import Ctx, run_property  # noqa: E402
from sa.index import Program  # noqa: E402

ROOT = os.environ.get("VERIF_REPO", "/repo")


def claimed():
    man = json.load(open(os.path.join(VERIF, "MANIFEST.json")))
    return [c["property_id"] for c in man["checks"]]


class Renamer(ast.NodeTransformer):
    def __init__(self, names):
        self.names = names

    def visit_Name(self, n):
        if n.id in self.names:
            return ast.copy_location(ast.Name(id=n.id + "_rn", ctx=n.ctx), n)
        return n

    def visit_ExceptHandler(self, n):
        self.generic_visit(n)
        if n.name in self.names:
            n.name = n.name + "_rn"
        return n


def local_names(fn):
    params = {a.arg for a in fn.args.posonlyargs + fn.args.args + fn.args.kwonlyargs}
    if fn.args.vararg:
        params.add(fn.args.vararg.arg)
    if fn.args.kwarg:
        params.add(fn.args.kwarg.arg)
    names = set()
    declared = set()
    for n in ast.walk(fn):
        if isinstance(n, (ast.Global, ast.Nonlocal)):
            declared |= set(n.names)
        if isinstance(n, ast.Name) and isinstance(n.ctx, ast.Store):
            names.add(n.id)
        if isinstance(n, ast.ExceptHandler) and n.name:
            names.add(n.name)
    return names - params - declared - {"_"}


class Flipper(ast.NodeTransformer):
    FL = {ast.Lt: ast.Gt, ast.Gt: ast.Lt, ast.LtE: ast.GtE, ast.GtE: ast.LtE, ast.Eq: ast.Eq, ast.NotEq: ast.NotEq}

    def visit_Compare(self, n):
        self.generic_visit(n)
        if len(n.ops) == 1 and type(n.ops[0]) in self.FL:
            return ast.copy_location(ast.Compare(left=n.comparators[0], ops=[self.FL[type(n.ops[0])]()],
                                                 comparators=[n.left]), n)
        return n


class Logger(ast.NodeTransformer):
    def _stmt(self):
        return ast.parse("logger.debug('refactor corpus')").body[0]

    def _wrap(self, body):
        if body and not (isinstance(body[0], ast.Expr) and isinstance(body[0].value, ast.Constant)):
            return [self._stmt()] + body
        return body

    def visit_If(self, n):
        self.generic_visit(n)
        n.body = self._wrap(n.body)
        if n.orelse and not (len(n.orelse) == 1 and isinstance(n.orelse[0], ast.If)):
            n.orelse = self._wrap(n.orelse)
        return n

    def visit_For(self, n):
        self.generic_visit(n)
        n.body = self._wrap(n.body)
        return n

    def visit_While(self, n):
        self.generic_visit(n)
        n.body = self._wrap(n.body)
        return n


class NegSwap(ast.NodeTransformer):
    """if c: A else: B  ->  if not c: B else: A   (only plain if/else, not elif chains)"""
    def visit_If(self, n):
        self.generic_visit(n)
        if n.orelse and not (len(n.orelse) == 1 and isinstance(n.orelse[0], ast.If)):
            t = n.test
            if isinstance(t, ast.UnaryOp) and isinstance(t.op, ast.Not):
                nt = t.operand
            else:
                nt = ast.UnaryOp(op=ast.Not(), operand=t)
            return ast.copy_location(ast.If(test=nt, body=n.orelse, orelse=n.body), n)
        return n


def _ends(body):
    return bool(body) and isinstance(body[-1], (ast.Return, ast.Raise, ast.Continue, ast.Break))


class ElseAfterReturn(ast.NodeTransformer):
    """if c: ...return   rest   ->   if c: ...return  else: rest   (and the reverse for if/else)"""
    def _fix(self, body):
        out = []
        i = 0
        while i < len(body):
            s = body[i]
            if isinstance(s, ast.If) and not s.orelse and _ends(s.body) and i + 1 < len(body):
                s.orelse = body[i + 1:]
                out.append(s)
                return out
            if isinstance(s, ast.If) and s.orelse and _ends(s.body) and not (
                    len(s.orelse) == 1 and isinstance(s.orelse[0], ast.If)):
                rest = s.orelse
                s.orelse = []
                out.append(s)
                out.extend(rest)
                i += 1
                continue
            out.append(s)
            i += 1
        return out

    def generic_visit(self, node):
        super().generic_visit(node)
        for fld in ("body", "orelse", "finalbody"):
            b = getattr(node, fld, None)
            if isinstance(b, list) and b and isinstance(b[0], ast.stmt):
                setattr(node, fld, self._fix(b))
        return node


class AnnAssign(ast.NodeTransformer):
    """x = v  ->  x: object = v   for simple local names"""
    def visit_Assign(self, n):
        if len(n.targets) == 1 and isinstance(n.targets[0], ast.Name):
            return ast.copy_location(ast.AnnAssign(target=n.targets[0], annotation=ast.Name(id="object", ctx=ast.Load()),
                                                   value=n.value, simple=1), n)
        return n


def inline_single_use(fn):
    """x = <attribute chain / subscript / name / constant>; ... one later use of x  ->  the use is replaced
    by the expression and the assignment removed (only when x is assigned once and the statement that
    uses it is the next statement of the same block, so evaluation order is unchanged)"""
    changed = False

    def pure(e):
        return all(isinstance(n, (ast.Attribute, ast.Subscript, ast.Name, ast.Constant, ast.Load, ast.Slice,
                                  ast.BinOp, ast.Add, ast.Sub, ast.Tuple)) for n in ast.walk(e))

    stores = {}
    loads = {}
    for n in ast.walk(fn):
        if isinstance(n, ast.Name):
            (stores if isinstance(n.ctx, ast.Store) else loads).setdefault(n.id, []).append(n)

    def fix(body):
        nonlocal changed
        out = []
        i = 0
        while i < len(body):
            s = body[i]
            if (isinstance(s, ast.Assign) and len(s.targets) == 1 and isinstance(s.targets[0], ast.Name)
                    and pure(s.value) and i + 1 < len(body)):
                x = s.targets[0].id
                nxt = body[i + 1]
                uses_next = [n for n in ast.walk(nxt) if isinstance(n, ast.Name) and n.id == x and isinstance(n.ctx, ast.Load)]
                if len(stores.get(x, [])) == 1 and len(loads.get(x, [])) == 1 and len(uses_next) == 1 \
                        and not isinstance(nxt, (ast.For, ast.While, ast.If, ast.With, ast.Try)):
                    class R(ast.NodeTransformer):
                        def visit_Name(self, n):
                            if n.id == x and isinstance(n.ctx, ast.Load):
                                return s.value
                            return n
                    body[i + 1] = R().visit(nxt)
                    changed = True
                    i += 1
                    continue
            for fld in ("body", "orelse", "finalbody"):
                b = getattr(s, fld, None)
                if isinstance(b, list) and b and isinstance(b[0], ast.stmt):
                    setattr(s, fld, fix(b))
            for h in getattr(s, "handlers", []) or []:
                h.body = fix(h.body)
            out.append(s)
            i += 1
        return out

    fn.body = fix(fn.body)
    return changed


def variants(prog, kinds, only_module=None):
    out = []
    for m in prog.modules.values():
        if only_module and m.relpath != only_module:
            continue
        has_logger = "logger" in m.constants
        funcs = []
        for s in ast.walk(m.tree):
            if isinstance(s, (ast.FunctionDef, ast.AsyncFunctionDef)):
                funcs.append(s)
        for fn in funcs:
            for kind in kinds:
                tree = ast.parse(m.source)
                target = None
                for s in ast.walk(tree):
                    if isinstance(s, (ast.FunctionDef, ast.AsyncFunctionDef)) and s.lineno == fn.lineno and s.name == fn.name:
                        target = s
                if target is None:
                    continue
                before = ast.dump(target)
                if kind == "rename":
                    names = local_names(target)
                    if not names:
                        continue
                    Renamer(names).visit(target)
                elif kind == "flip":
                    Flipper().visit(target)
                elif kind == "logging":
                    if not has_logger:
                        continue
                    Logger().visit(target)
                elif kind == "inline":
                    if not inline_single_use(target):
                        continue
                elif kind == "negswap":
                    for i, c in enumerate(list(target.body)):
                        target.body[i] = NegSwap().visit(c)
                elif kind == "elseret":
                    ElseAfterReturn().visit(target)
                elif kind == "annassign":
                    for i, c in enumerate(list(target.body)):
                        target.body[i] = AnnAssign().visit(c)
                if ast.dump(target) == before:
                    continue
                ast.fix_missing_locations(tree)
                try:
                    src = ast.unparse(tree)
                    compile(src, m.relpath, "exec")
                except Exception:
                    continue
                out.append(("%s:%s:%s" % (m.relpath, fn.name, kind), {m.relpath: src}))
    return out


def run_one(args):
    name, overrides, props, base = args
    try:
        ctx = Ctx(ROOT, overrides)
    except Exception as e:
        return name, [("*", "model", "ANALYSIS-ERROR", str(e)[:200])]
    bad = []
    for p in props:
        try:
            rep = run_property(p, ctx, "quick", emit=False)
            viol, kf = rep.classify()
            for o in viol:
                bad.append((p, o["rule"], "VIOLATION", o["key"][:160]))
        except AnalysisError as e:
            bad.append((p, "-", "ANALYSIS-ERROR", str(e)[:200]))
        except Exception as e:
            bad.append((p, "-", "CRASH", repr(e)[:200]))
    return name, bad


def main():
    ap = argparse.ArgumentParser()
    ap.add_argument("--kinds", default="rename,flip,logging")
    ap.add_argument("--module")
    ap.add_argument("--jobs", type=int, default=16)
    ap.add_argument("--props")
    a = ap.parse_args()
    props = a.props.split(",") if a.props else claimed()
    prog = Program(ROOT)
    vs = variants(prog, a.kinds.split(","), a.module)
    print("variants:", len(vs), "checks:", len(props))
    n_bad = 0
    summary = {}
    with ProcessPoolExecutor(max_workers=a.jobs) as ex:
        for name, bad in ex.map(run_one, [(n, o, props, None) for n, o in vs], chunksize=2):
            if bad:
                n_bad += 1
                for p, r, kind, txt in bad:
                    summary.setdefault((p, r, kind), []).append((name, txt))
    for (p, r, kind), items in sorted(summary.items()):
        print("%s %s %s  x%d" % (p, r, kind, len(items)))
        for name, txt in items[:3]:
            print("     %s  ->  %s" % (name, txt))
    print("variants with a report: %d of %d" % (n_bad, len(vs)))
    return 1 if n_bad else 0


if __name__ == "__main__":
    sys.exit(main())
