#!/usr/bin/env python3
"""False-alarm resistance: behaviour-preserving rewrites of the current tree must leave every check quiet.

For every function of the package three kinds of variants are generated on the syntax tree
(in memory, nothing is written to /repo):
  rename   every local variable (not parameters) gets a new name
  flip     every comparison a < b is written b > a, a == C as C == a (also <=, >=, !=)
  logging  a `logger.debug(...)` statement is inserted at the top of every branch and loop body
Each variant is analysed with all claimed checks; any VIOLATION that the unchanged tree does not
have, and any ANALYSIS-ERROR, is reported with the rule that produced it.

usage: refactor_corpus.py [--kinds rename,flip,logging] [--module flumine/order/order.py] [--jobs 16]
"""
import argparse
import ast
import json
import os
import sys
from concurrent.futures import ProcessPoolExecutor

VERIF = os.path.dirname(os.path.dirname(os.path.abspath(__file__)))
sys.path.insert(0, VERIF)

from sa import AnalysisError  # noqa: E402
from sa.driver import Ctx, run_property  # noqa: E402
from sa.index import Program  # noqa: E402

ROOT = os.environ.get("VERIF_REPO", "/repo")


def claimed():
    man = json.load(open(os.path.join(VERIF, "MANIFEST.json")))
    return [c["property_id"] for c in man["checks"]]


class Renamer(ast.NodeTransformer):
    def __init__(self, names):
        self.names = names

    def visit_Name(self, n):
        if n.id in self.names:
            return ast.copy_location(ast.Name(id=n.id + "_rn", ctx=n.ctx), n)
        return n

    def visit_ExceptHandler(self, n):
        self.generic_visit(n)
        if n.name in self.names:
            n.name = n.name + "_rn"
        return n


def local_names(fn):
    params = {a.arg for a in fn.args.posonlyargs + fn.args.args + fn.args.kwonlyargs}
    if fn.args.vararg:
        params.add(fn.args.vararg.arg)
    if fn.args.kwarg:
        params.add(fn.args.kwarg.arg)
    names = set()
    declared = set()
    for n in ast.walk(fn):
        if isinstance(n, (ast.Global, ast.Nonlocal)):
            declared |= set(n.names)
        if isinstance(n, ast.Name) and isinstance(n.ctx, ast.Store):
            names.add(n.id)
        if isinstance(n, ast.ExceptHandler) and n.name:
            names.add(n.name)
    return names - params - declared - {"_"}


class Flipper(ast.NodeTransformer):
    FL = {ast.Lt: ast.Gt, ast.Gt: ast.Lt, ast.LtE: ast.GtE, ast.GtE: ast.LtE, ast.Eq: ast.Eq, ast.NotEq: ast.NotEq}

    def visit_Compare(self, n):
        self.generic_visit(n)
        if len(n.ops) == 1 and type(n.ops[0]) in self.FL:
            return ast.copy_location(ast.Compare(left=n.comparators[0], ops=[self.FL[type(n.ops[0])]()],
                                                 comparators=[n.left]), n)
        return n


class Logger(ast.NodeTransformer):
    def _stmt(self):
        return ast.parse("logger.debug('refactor corpus')").body[0]

    def _wrap(self, body):
        if body and not (isinstance(body[0], ast.Expr) and isinstance(body[0].value, ast.Constant)):
            return [self._stmt()] + body
        return body

    def visit_If(self, n):
        self.generic_visit(n)
        n.body = self._wrap(n.body)
        if n.orelse and not (len(n.orelse) == 1 and isinstance(n.orelse[0], ast.If)):
            n.orelse = self._wrap(n.orelse)
        return n

    def visit_For(self, n):
        self.generic_visit(n)
        n.body = self._wrap(n.body)
        return n

    def visit_While(self, n):
        self.generic_visit(n)
        n.body = self._wrap(n.body)
        return n


def variants(prog, kinds, only_module=None):
    out = []
    for m in prog.modules.values():
        if only_module and m.relpath != only_module:
            continue
        has_logger = "logger" in m.constants
        funcs = []
        for s in ast.walk(m.tree):
            if isinstance(s, (ast.FunctionDef, ast.AsyncFunctionDef)):
                funcs.append(s)
        for fn in funcs:
            for kind in kinds:
                tree = ast.parse(m.source)
                target = None
                for s in ast.walk(tree):
                    if isinstance(s, (ast.FunctionDef, ast.AsyncFunctionDef)) and s.lineno == fn.lineno and s.name == fn.name:
                        target = s
                if target is None:
                    continue
                before = ast.dump(target)
                if kind == "rename":
                    names = local_names(target)
                    if not names:
                        continue
                    Renamer(names).visit(target)
                elif kind == "flip":
                    Flipper().visit(target)
                elif kind == "logging":
                    if not has_logger:
                        continue
                    Logger().visit(target)
                if ast.dump(target) == before:
                    continue
                ast.fix_missing_locations(tree)
                try:
                    src = ast.unparse(tree)
                    compile(src, m.relpath, "exec")
                except Exception:
                    continue
                out.append(("%s:%s:%s" % (m.relpath, fn.name, kind), {m.relpath: src}))
    return out


def run_one(args):
    name, overrides, props, base = args
    try:
        ctx = Ctx(ROOT, overrides)
    except Exception as e:
        return name, [("*", "model", "ANALYSIS-ERROR", str(e)[:200])]
    bad = []
    for p in props:
        try:
            rep = run_property(p, ctx, "quick", emit=False)
            viol, kf = rep.classify()
            for o in viol:
                bad.append((p, o["rule"], "VIOLATION", o["key"][:160]))
        except AnalysisError as e:
            bad.append((p, "-", "ANALYSIS-ERROR", str(e)[:200]))
        except Exception as e:
            bad.append((p, "-", "CRASH", repr(e)[:200]))
    return name, bad


def main():
    ap = argparse.ArgumentParser()
    ap.add_argument("--kinds", default="rename,flip,logging")
    ap.add_argument("--module")
    ap.add_argument("--jobs", type=int, default=16)
    ap.add_argument("--props")
    a = ap.parse_args()
    props = a.props.split(",") if a.props else claimed()
    prog = Program(ROOT)
    vs = variants(prog, a.kinds.split(","), a.module)
    print("variants:", len(vs), "checks:", len(props))
    n_bad = 0
    summary = {}
    with ProcessPoolExecutor(max_workers=a.jobs) as ex:
        for name, bad in ex.map(run_one, [(n, o, props, None) for n, o in vs], chunksize=2):
            if bad:
                n_bad += 1
                for p, r, kind, txt in bad:
                    summary.setdefault((p, r, kind), []).append((name, txt))
    for (p, r, kind), items in sorted(summary.items()):
        print("%s %s %s  x%d" % (p, r, kind, len(items)))
        for name, txt in items[:3]:
            print("     %s  ->  %s" % (name, txt))
    print("variants with a report: %d of %d" % (n_bad, len(vs)))
    return 1 if n_bad else 0


if __name__ == "__main__":
    sys.exit(main())
