#!/usr/bin/env python3
"""Regenerates MANIFEST.json from the table below (single source of truth for the interface)."""
import json
import os
import sys

HERE = os.path.dirname(os.path.dirname(os.path.abspath(__file__)))

TRUST = ("Trusted base: the checker's own CFG construction, callee resolution (annotations, __init__ "
         "field types, frozen naming table) and the frozen who-may-write / who-may-call / triage tables "
         "of the rule module; Python semantics without monkey-patching of framework classes; implicit "
         "exceptions are not modelled; nothing in /repo is imported or executed.")

CLAIMS = {
    "C02": dict(
        text="Full structural decision: validate-before-mutate (dominance under force=False), refusal edge, "
             "raise-after-write, pairing table request/pending list/package type, pending flag, grouping by "
             "market version, chunking by order_limit, clear-on-exit, single dispatch, force only skips the "
             "controls, who-may-send, VIOLATION filter. Holds for every input and history because no rule "
             "looks at a value. Known finding F03 (a refused cancel/update/replace marks a live order "
             "VIOLATION) is reported on every run.",
        technique="CFG dominance + inter-procedural effect summaries + who-may-call over the resolved call graph + table agreement",
        design="§3 C02"),
}

NOT_YET = "check not built yet in this session (work in progress; see DESIGN.md §3 for the planned rules)"
NA = {
    "C16": "numeric identity between two exposure computations (sums of products with rounding over all "
           "fill combinations): no sound static argument in reach bounds it; its only shape-visible clause "
           "(which orders are counted, exclusion/new_order handling) is decided under C01 R7/R8",
}

ALL = ["C%02d" % i for i in range(1, 21)]


def main():
    checks, na = [], []
    for p in ALL:
        if p in CLAIMS:
            c = CLAIMS[p]
            checks.append({
                "property_id": p,
                "quick_cmd": "./check %s --tier quick" % p,
                "thorough_cmd": "./check %s --tier thorough" % p,
                "evidence_file": "/verif/evidence/%s.json" % p,
                "replay_cmd_template": "./check %s --explain {path}" % p,
                "engine": "sa",
                "level_claimed": {"category": "other", "text": c["text"], "design_ref": c["design"]},
                "level_note": TRUST,
                "technique": "static analysis: " + c["technique"],
            })
        else:
            na.append({"property_id": p, "reason": NA.get(p, NOT_YET)})
    man = {
        "version": 1,
        "setup_cmd": "/venv/bin/python -m compileall -q sa rules tools >/dev/null && ./check --help >/dev/null",
        "hooks": {
            "guard": "BETCODE_ORG_FLUMINE_VERIF",
            "enable": "no source hooks: the checks are purely static and read /repo's working tree; the guard name is reserved and unused",
            "baseline_off_cmd": "cd /repo && /venv/bin/python -m pytest -ra -q -p no:cacheprovider --timeout=900 --continue-on-collection-errors",
            "source_commits": [],
            "add_only": True,
        },
        "engines": [{
            "name": "sa",
            "path": "/verif/sa",
            "serves_properties": sorted(CLAIMS),
            "kind_free_text": "stdlib-only static analyser (ast): program index, statement-level CFG with "
                              "short-circuit expansion and exception edges, dominance/reachability, callee "
                              "resolution and call graph, raise and effect summaries; rule modules in /verif/rules",
        }],
        "checks": checks,
        "not_applicable": na,
        "notes": "Exit codes: 0 property held (KNOWN-FINDING lines allowed), 1 VIOLATION, 2 ANALYSIS-ERROR "
                 "(undecided shape / vanished anchor - never reported as a violation). Two genuine defects were "
                 "repaired in /repo with fix: commits (see known_findings.json 'fixed').",
    }
    with open(os.path.join(HERE, "MANIFEST.json"), "w") as fh:
        json.dump(man, fh, indent=1)
        fh.write("\n")
    print("MANIFEST.json: %d checks, %d not_applicable" % (len(checks), len(na)))


if __name__ == "__main__":
    sys.exit(main())
