#!/usr/bin/env python3
"""Regenerates MANIFEST.json from the table below (single source of truth for the interface)."""
import json
import os
import sys

HERE = os.path.dirname(os.path.dirname(os.path.abspath(__file__)))

TRUST = ("Trusted base: the checker's own CFG construction, callee resolution (annotations, __init__ "
         "field types, frozen naming table) and the frozen who-may-write / who-may-call / triage tables "
         "of the rule module; Python semantics without monkey-patching of framework classes; implicit "
         "exceptions are not modelled; nothing in /repo is imported or executed.")

CLAIMS = {
    "C01": dict(
        text="Partial (the gate, not the numbers): PLACE/REPLACE reach the exchange only through the controls "
             "(dominance), all controls called under one ControlError handler, default registration, refusal "
             "mechanics, the three limit tests (presence, orientation, reached for PLACE and REPLACE, value "
             "dependencies, BACK/LAY figure), request parameters visible to the controls, exclusion/new_order "
             "aliasing, which orders exposure counts, the control-free path. Known findings F01 (replace / "
             "Betdaq update validated on the old price and size) and F02 (replaced order left out of the market "
             "figure) are reported on every run. Not decided: exposure arithmetic; the loss bound over all later histories.",
        technique="CFG dominance + guard-set + comparator orientation + def-use slice + alias (possible-value) analysis + who-may-call",
        design="§3 C01"),
    "C04": dict(
        text="Partial: derived remainder subtracts exactly the four buckets; every bucket write is bounded by "
             "the remainder (named exceptions: LAY SP re-size, the runner-removal void as a complete group); "
             "every FAILURE / fill-or-kill exit of place() empties the remainder; fills only through the fill "
             "funnel, passive fills clamped; completion tests compare with zero. Not decided: rounding, "
             "numeric non-negativity, crossing-match arithmetic.",
        technique="who-may-write with bounded-write forms + must-precede on the CFG per exit + who-may-call",
        design="§3 C04"),
    "C07": dict(
        text="Partial: clock -> release of due packages -> new book ordering in every iteration (dominance), "
             "release loop shape and strict test, delay table, queue discipline, and a mode-sensitive lint that "
             "every simulation-reachable function reads time only through the patchable module attribute. "
             "Not decided: numeric relation between timestamps and publish times.",
        technique="CFG dominance/must-pass-through + table extraction + call-graph reachability lint (mode-sensitive)",
        design="§3 C07"),
    "C09": dict(
        text="Partial: removal registry key vs lifetime (known finding F06: key lacks the market), applied once "
             "and before matching, void resets every figure, range over the whole blotter, selection by "
             "(market, selection, handicap), threshold 2.5 / floor 1.01 / reduction formula shape, SP "
             "liability scaling scope, placement on a removed runner refused before matching. Not decided: "
             "scaling formulas; completion of SP orders on a removed runner.",
        technique="key agreement vs object lifetime + who-may-write + dominance + constants vs published figures",
        design="§3 C09"),
    "C19": dict(
        text="Partial: writer/reader agreement of the reference format (slices at the writer's hash length), "
             "32-character bound computed from the id's digit count, character set equals the documented one, "
             "validating setter discipline, id independent of the patched clock. Not decided: uniqueness.",
        technique="writer/reader table agreement + length arithmetic in the checker + charset evaluation + who-may-write",
        design="§3 C19"),
    "C20": dict(
        text="Partial: closure sequence (presence, guards, order by dominance), strategy loop shape and "
             "condition, re-open resets, removal policy (3600 s live, clear=False in simulation), results "
             "assigned to every order from its own runner. Not decided: event counts over repeated closes in a whole run.",
        technique="call-set and ordering by dominance + loop shape + who-may-write",
        design="§3 C20"),
    "C05": dict(
        text="Partial: fill provenance and orientation decided over the finite domain side x ordering(limit, "
             "level / vwap): crossing match and fill-or-kill sweep fill exactly on the allowed side of the "
             "limit and stop at it; own-side ladder; passive and full-match fills at the own limit; "
             "fill-or-kill branches never reach the queue and always cancel the rest, minimum-fill roll-back; "
             "best-price-execution lapse precedes every match. Not decided: VWAP value, per-level amounts, minimum-fill arithmetic.",
        technique="finite-domain evaluation of branch conditions on the CFG + provenance + dominance",
        design="§3 C05"),
    "C06": dict(
        text="Partial (mechanisms): one ladder copy per strategy / per update, consumption written back under "
             "the same key with the same halving constant, queue consumed first, eligibility orientation, "
             "service order and iteration of the sorted list, queue captured from the opposite side, matchable "
             "statuses, per-update traded volume as positive difference of cumulative ladders. Not decided: "
             "the aggregate bound and the queue arithmetic.",
        technique="alias / loop-variance analysis + write-back pairing + finite-domain orientation + table extraction",
        design="§3 C06"),
    "C08": dict(
        text="Partial: SimulatedOrder.profit is evaluated path by path over the finite domain market kind x runner "
             "result x dead-heat class x ordering(line, result); the returned expressions are normalised to "
             "polynomials in matched size S, average price P, dead-heat count N, each-way divisor D. Decided: "
             "LAY == -BACK on every case; the BACK polynomial equals the exchange's settlement rule on every case "
             "(S(P-1), -S, 0, dead-heat split (S/N)(P-1) - S(N-1)/N, each-way S(P-1)+S(P-1)/D, S(P-1)/D - S, -2S, "
             "even money on lines, 0 on the line); every term carries S; summary = sum over the client's matched "
             "orders, commission only on a net win; results assigned to every order. Not decided: the numeric "
             "effect of rounding to 2 dp; whether the fills fed in are right (C04/C05).",
        technique="symbolic settlement table: finite truth table over CFG paths + polynomial (Laurent) normal form of the "
                  "returned expressions compared with the rule table; parity (odd-function) analysis",
        design="§3 C08"),
    "C11": dict(
        text="Partial (adoption / lookup / status mapping): key agreement lookup vs adoption, adoption only on "
             "a miss and effect-free for unknown strategies, adoption sequence insert -> charge -> PENDING, "
             "status mapping decided over local status x bet id x stream status (56 cases), bet-id discipline, "
             "replacement routing, reconcile before strategies. Not decided: convergence under all "
             "interleavings, restart equivalence.",
        technique="key agreement + effect summaries + dominance + finite-domain evaluation of the status mapping",
        design="§3 C11"),
    "C14": dict(
        text="Partial: k-way merge shape (sort ascending before taking the head, processed once, advanced once, "
             "re-queued under the new head's time, exhausted streams dropped without stopping), one batch per "
             "accepted update, clock patch discipline (restored unconditionally / in finally, processing inside "
             "the with), and a lint for nondeterministic sources over the simulation-reachable functions. Not "
             "decided: equality of two runs; listener filter arithmetic.",
        technique="loop/merge shape analysis + who-may-write (module attribute) + pairing + call-graph reachability lint",
        design="§3 C14"),
    "C17": dict(
        text="Narrow: ladder constants against Betfair's published increment table, ladders generated from "
             "those tables, generator shape; OrderValidation dispatch exhaustive with refusing defaults, per "
             "type validators, every guard present, oriented and refusing, ladder chosen by the ladder "
             "definition, first default control. Not decided: the arithmetic of the price helpers.",
        technique="constants vs published table (exact rational arithmetic in the checker) + exhaustive dispatch + guard-set",
        design="§3 C17"),
    "C02": dict(
        text="Full structural decision: validate-before-mutate (dominance under force=False), refusal edge, "
             "raise-after-write, a refusal marks only a new order (typestate), pairing table request/pending "
             "list/package type, pending flag, grouping by market version, chunking by order_limit, "
             "clear-on-exit, single dispatch, force only skips the controls, who-may-send, VIOLATION filter. "
             "Holds for every input and history because no rule looks at a value.",
        technique="CFG dominance + inter-procedural effect summaries + who-may-call over the resolved call graph + table agreement + typestate",
        design="§3 C02"),
    "C03": dict(
        text="Full structural decision: request guards of the five order request methods (guard set, raise "
             "before write, sibling agreement) and an inter-procedural typestate analysis of every status "
             "setter call in the package against the documented lifecycle, with handler entry states closed "
             "under the interference of the asynchronous actors; tables LIVE/COMPLETE, setter table, "
             "who-may-write status. Not decided: matched size of live orders after completion (exchange data).",
        technique="typestate dataflow (context-sensitive, interference closure) + guard-set dominance + who-may-write",
        design="§3 C03, §2.5"),
    "C10": dict(
        text="Full structural decision: status funnel ordering, Trade.complete as a conjunction (finite truth "
             "table over two orders), who-may-call of RunnerContext.place/reset and complete_trade with key "
             "agreement, list discipline, every handler setter inside the trade's pending scope, "
             "validate_order decided over the finite abstract domain of count/limit orderings, membership and "
             "cool-downs. Not decided: wall-clock arithmetic of the cool-downs.",
        technique="who-may-call/who-may-write + with-scope containment + finite-domain truth tables evaluated on the CFG",
        design="§3 C10"),
    "C12": dict(
        text="Full structural decision for the Betfair and simulated executions: exhaustive report-status "
             "dispatch with must-transition on every branch, cancel reports matched by bet id and unreported "
             "orders reset, positional alignment of orders with instructions/reports (filters vs typestate "
             "entry states), bounded monotone retry with reset on exhaustion, transaction count table "
             "identical in both executions. Not decided: what the real exchange did with a timed-out "
             "request; Betdaq (outside the property).",
        technique="exhaustive dispatch over a finite status domain on the CFG + must-pass-through + table agreement between siblings",
        design="§3 C12"),
    "C13": dict(
        text="Partial: the containment sentence is decided completely (every callback dispatch through a "
             "wrapper, wrapper shapes, dispatch loop shapes and order); of the isolation sentence only its "
             "mechanism (the per-strategy copy of the traded ladder). Not decided: run(A) = run(A+B).",
        technique="who-may-call + try/except shape analysis + loop-shape and dominance + alias/loop-variance of the ladder copy",
        design="§3 C13"),
    "C15": dict(
        text="Full structural decision: exhaustive population of all nine views on insert with writer/reader "
             "key agreement, who-may-write of the containers, absence test before every insert, completion "
             "proved (typestate) at every removal from the live list, sibling accessor filters identical, bet "
             "id assigned before the insert for replacement/adopted orders.",
        technique="who-may-write + key agreement + dominance + typestate probes + sibling comparison",
        design="§3 C15"),
    "C18": dict(
        text="Full structural decision: lock discipline for every read-modify-write, pairing of total and "
             "hourly counter per branch, monotone totals, reset only in _set_next_hour, hour check precedes "
             "the limit test, `safe` decided over the finite abstract domain, per-client instance, count table "
             "of the handlers. Not decided: hour-boundary date arithmetic.",
        technique="lock-scope containment + who-may-write + dominance + finite-domain truth table + table agreement",
        design="§3 C18"),
}

NOT_YET = "check not built yet in this session (work in progress; see DESIGN.md §3 for the planned rules)"
NA = {
    "C16": "numeric identity between two exposure computations (sums of products with rounding over all "
           "fill combinations): no sound static argument in reach bounds it; its only shape-visible clause "
           "(which orders are counted, exclusion/new_order handling) is decided under C01 R7/R8",
}

ALL = ["C%02d" % i for i in range(1, 21)]


def main():
    checks, na = [], []
    for p in ALL:
        if p in CLAIMS:
            c = CLAIMS[p]
            checks.append({
                "property_id": p,
                "quick_cmd": "./check %s --tier quick" % p,
                "thorough_cmd": "./check %s --tier thorough" % p,
                "evidence_file": "/verif/evidence/%s.json" % p,
                "replay_cmd_template": "./check %s --explain {path}" % p,
                "engine": "sa",
                "level_claimed": {"category": "other", "text": c["text"], "design_ref": c["design"]},
                "level_note": TRUST,
                "technique": "static analysis: " + c["technique"],
            })
        else:
            na.append({"property_id": p, "reason": NA.get(p, NOT_YET)})
    man = {
        "version": 1,
        "setup_cmd": "/venv/bin/python -m compileall -q sa rules tools >/dev/null && ./check --help >/dev/null",
        "hooks": {
            "guard": "BETCODE_ORG_FLUMINE_VERIF",
            "enable": "no source hooks: the checks are purely static and read /repo's working tree; the guard name is reserved and unused",
            "baseline_off_cmd": "cd /repo && /venv/bin/python -m pytest -ra -q -p no:cacheprovider --timeout=900 --continue-on-collection-errors",
            "source_commits": [],
            "add_only": True,
        },
        "engines": [{
            "name": "sa",
            "path": "/verif/sa",
            "serves_properties": sorted(CLAIMS),
            "kind_free_text": "stdlib-only static analyser (ast): program index, statement-level CFG with "
                              "short-circuit expansion and exception edges, dominance/reachability, callee "
                              "resolution and call graph, raise and effect summaries; rule modules in /verif/rules",
        }],
        "checks": checks,
        "not_applicable": na,
        "notes": "Exit codes: 0 property held (KNOWN-FINDING lines allowed), 1 VIOLATION, 2 ANALYSIS-ERROR "
                 "(undecided shape / vanished anchor - never reported as a violation). Two genuine defects were "
                 "repaired in /repo with fix: commits (see known_findings.json 'fixed').",
    }
    with open(os.path.join(HERE, "MANIFEST.json"), "w") as fh:
        json.dump(man, fh, indent=1)
        fh.write("\n")
    print("MANIFEST.json: %d checks, %d not_applicable" % (len(checks), len(na)))


if __name__ == "__main__":
    sys.exit(main())
