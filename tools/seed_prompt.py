#!/usr/bin/env python3
"""writes /tmp/seedprompts/<ID>.txt : the brief for an independent sub-agent (property text only)"""
import json, sys, os
PREFIX = os.environ.get('SEED_PREFIX', '')
EXTRA = os.environ.get('SEED_EXTRA', '')
props = {json.loads(l)['id']: json.loads(l) for l in open('/verif/properties.jsonl')}
T = '''You are helping to test a verification effort for the open-source Python project betcode-org/flumine (an event-driven sports-betting trading framework). You work ONLY inside the git worktree {wt} (a checkout of the project). Do not read or write anything under /verif or /repo. Python to use: /venv/bin/python. IMPORTANT: `flumine` is also installed from another directory; run pytest as `cd {wt} && /venv/bin/python -m pytest ...` (this imports the worktree copy), and make every standalone script you write start with `import sys; sys.path.insert(0, "{wt}")` and assert that `flumine.__file__` starts with "{wt}".

Here is a semantic property that the framework is supposed to satisfy:

ID: {id} — {title}
STATEMENT: {statement}
QUANTIFIED OVER: {qtext}
WHY THE EXISTING TESTS CANNOT SETTLE IT: {why}
CODE THE PROPERTY IS ANCHORED IN: {files}
MECHANISMS: {mech}

{extra}YOUR TASK: produce TWO independent, realistic source changes to the package `flumine/` (each a small edit a developer could plausibly make: a refactor gone wrong, an "optimisation", a mis-merged condition, a dropped guard, a reordered statement, two cooperating edits that each look fine alone ...) such that, for EACH change separately:
  1. the change BREAKS the property above (for some input / history / schedule / fault sequence the statement no longer holds);
  2. the package still imports/compiles and the existing test-suite still passes exactly as before: run `cd {wt} && /venv/bin/python -m pytest -q -p no:cacheprovider --timeout=900 2>&1 | tail -5` — the baseline is "5 failed, 976 passed" (the 5 failures are pre-existing network/json tests: test_event_processing, test_simulation_multi_clients, test_simulation_pro, test_get_file_event_id, test_get_file_event_id_tuple); with your change it must be the same 976 passed and the same 5 failed;
  3. you provide a DEMONSTRATION: a small standalone Python program (no network; use the real flumine classes, you may use unittest.mock only for the exchange/betting client or for market data objects) that exits with status 0 and prints "PROPERTY HOLDS" on the unchanged worktree, and exits with non-zero status printing "PROPERTY VIOLATED: <what>" when the change is applied.
  4. Prefer changes that need something specific to manifest — a particular interleaving, a fault at a particular point, a multi-step sequence of operations, an unusual input, or two cooperating sites — not ones that ordinary use would expose at once. The two changes should touch different mechanisms / different functions. Avoid the most obvious single-token edits (flipping one comparison operator, deleting one whole statement): prefer changes that look like plausible engineering.

DELIVERABLES (write them into {wt}/seeds/ , create that directory):
  seeds/A.diff, seeds/B.diff      — produced with `git -C {wt} diff > seeds/A.diff` (each relative to the unchanged checkout, each containing ONLY its own change to files under flumine/)
  seeds/A_demo.py, seeds/B_demo.py — the demonstrations (run as `cd {wt} && /venv/bin/python seeds/A_demo.py`)
  seeds/A.md, seeds/B.md           — 5-10 lines each: what was changed, why it breaks the property, what is needed for it to manifest, and the exact commands you ran with their results (test-suite tail with and without the change, demo output with and without the change).
When you are finished, restore the worktree's tracked files (`git -C {wt} checkout -- .`) so that only the untracked seeds/ directory remains. Verify each diff applies cleanly on the restored tree with `git -C {wt} apply --check seeds/A.diff`.

In your final message, summarise the two changes in a few lines each. Do not commit anything. Never use `git stash` (the stash is shared between worktrees); to switch between patched and unpatched use `git diff > file`, `git checkout -- .` and `git apply file`.
'''
os.makedirs('/tmp/seedprompts', exist_ok=True)
for pid in sys.argv[1:]:
    p = props[pid]
    wt = '/tmp/wt/' + PREFIX + pid.lower()
    open('/tmp/seedprompts/%s%s.txt' % (PREFIX, pid), 'w').write(T.format(extra=EXTRA, 
        wt=wt, id=pid, title=p['title'], statement=p['statement'], qtext=p['quantifier']['text'],
        why=p['why_tests_cant'], files=', '.join(p['anchors']['files']),
        mech='; '.join('%s (%s)' % (m['name'], m['where']) for m in p['anchors']['mechanism'])))
    print('wrote', pid)
