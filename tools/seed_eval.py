#!/usr/bin/env python3
"""Confirm a seeded change (from a sub-agent's scratch worktree) and run the checks against it.

usage: seed_eval.py <worktree> <letter A|B> <property id> <seed id>
  1. in the worktree: demo passes unpatched; patch applies; the test-suite result equals the baseline;
     demo fails patched; patch reverted.
  2. in /repo: patch applied, every claimed check run (quick), patch reverted (git checkout -- .).
  3. /verif/seeded/<seed id>/{patch.diff, demo.py, notes.md, meta.json} written.
"""
import json
import os
import shutil
import subprocess
import sys

VERIF = os.path.dirname(os.path.dirname(os.path.abspath(__file__)))
PY = "/venv/bin/python"


def sh(cmd, cwd=None, timeout=1800):
    p = subprocess.run(cmd, shell=True, cwd=cwd, capture_output=True, text=True, timeout=timeout)
    return p.returncode, (p.stdout + p.stderr)


def suite(cwd):
    rc, out = sh("%s -m pytest -q -p no:cacheprovider --timeout=900 2>&1 | tail -3" % PY, cwd)
    last = [l for l in out.strip().splitlines() if "passed" in l or "failed" in l]
    return last[-1] if last else out[-200:]


def main():
    wt, letter, prop, sid = sys.argv[1:5]
    seeds = os.path.join(wt, "seeds")
    diff = os.path.join(seeds, "%s.diff" % letter)
    demo = os.path.join(seeds, "%s_demo.py" % letter)
    notes = os.path.join(seeds, "%s.md" % letter)
    meta = {"seed": sid, "property": prop, "source": "independent sub-agent given only the property text",
            "ran": []}
    sh("git checkout -- .", wt)
    rc0, out0 = sh("%s %s" % (PY, demo), wt)
    meta["demo_unpatched"] = {"exit": rc0, "tail": out0.strip().splitlines()[-1:] }
    rc, out = sh("git apply %s" % diff, wt)
    if rc != 0:
        print("patch does not apply in worktree:", out)
        return 2
    meta["suite_patched"] = suite(wt)
    rc1, out1 = sh("%s %s" % (PY, demo), wt)
    meta["demo_patched"] = {"exit": rc1, "tail": out1.strip().splitlines()[-1:]}
    sh("git checkout -- .", wt)
    confirmed = rc0 == 0 and rc1 != 0 and "976 passed" in meta["suite_patched"] and "5 failed" in meta["suite_patched"]
    meta["confirmed"] = confirmed
    print("confirmed:", confirmed, meta["demo_unpatched"], meta["suite_patched"], meta["demo_patched"])
    # run the checks against a scratch copy of /repo's package with the patch applied (several evaluations can
    # run side by side; /repo itself is not touched)
    root = os.path.join("/tmp/seedeval", sid)
    shutil.rmtree(root, ignore_errors=True)
    os.makedirs(root)
    shutil.copytree("/repo/flumine", os.path.join(root, "flumine"))
    rc, out = sh("git init -q . && git apply %s" % diff, root)
    if rc != 0:
        print("patch does not apply to /repo:", out)
        meta["applies_to_repo"] = False
    else:
        meta["applies_to_repo"] = True
        man = json.load(open(os.path.join(VERIF, "MANIFEST.json")))
        res = {}
        for c in man["checks"]:
            pid = c["property_id"]
            rcx, o = sh("./check %s --no-evidence --root %s" % (pid, root), VERIF)
            rules = [l.strip() for l in o.splitlines() if l.strip().startswith("%s rule" % pid)]
            res[pid] = {"exit": rcx, "reports": rules[:6]}
        meta["checks"] = res
        det = [p for p, r in res.items() if r["exit"] == 1]
        und = [p for p, r in res.items() if r["exit"] not in (0, 1)]
        meta["detected_by"] = det
        meta["undecided"] = und
        print("detected by:", det, "undecided:", und)
        for p in det:
            for r in res[p]["reports"][:3]:
                print("   ", r)
    shutil.rmtree(root, ignore_errors=True)
    out_dir = os.path.join(VERIF, "seeded", sid)
    os.makedirs(out_dir, exist_ok=True)
    shutil.copy(diff, os.path.join(out_dir, "patch.diff"))
    shutil.copy(demo, os.path.join(out_dir, "demo.py"))
    if os.path.exists(notes):
        shutil.copy(notes, os.path.join(out_dir, "notes.md"))
    meta["needs"] = ""
    if os.path.exists(notes):
        import re
        t = open(notes).read()
        mm = re.search(r'(?:NEEDED TO MANIFEST|Needed to manifest|NEEDS|Needs|What it needs|Trigger|Conditions)[^:\n]*:\s*(.*?)(?:\n\s*\n|\nCOMMANDS|\nCommands|\Z)', t, re.S | re.I)
        if mm:
            meta["needs"] = " ".join(mm.group(1).split())[:600]
    meta["ran"] = ["suite on the patched worktree: " + str(meta.get("suite_patched")),
                   "demo.py without the patch: exit %s" % meta.get("demo_unpatched", {}).get("exit"),
                   "demo.py with the patch: exit %s" % meta.get("demo_patched", {}).get("exit")]
    json.dump(meta, open(os.path.join(out_dir, "meta.json"), "w"), indent=1)
    return 0


if __name__ == "__main__":
    sys.exit(main())
