#!/usr/bin/env python3
"""materialise a refactor/seed patch as a scratch root: rf_root.py <patch.diff> <dir>"""
import sys, os, subprocess, shutil
diff = os.path.abspath(sys.argv[1]); root = sys.argv[2]
shutil.rmtree(root, ignore_errors=True); os.makedirs(root)
shutil.copytree("/repo/flumine", root + "/flumine")
subprocess.run("git init -q . && git apply %s" % diff, shell=True, cwd=root, check=True)
