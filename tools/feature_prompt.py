#!/usr/bin/env python3
"""writes /tmp/seedprompts/ft<ID>.txt : brief for an independent sub-agent that ADDS small features near the code
a property is anchored in WITHOUT breaking the property (false-alarm test of the checks on growing code)."""
import json, sys, os
PREFIX = os.environ.get('FT_PREFIX', 'ft')
EXTRA = os.environ.get('FT_EXTRA', '')
props = {json.loads(l)['id']: json.loads(l) for l in open('/verif/properties.jsonl')}
T = '''You are helping to test a verification effort for the open-source Python project betcode-org/flumine (an event-driven sports-betting trading framework). You work ONLY inside the git worktree {wt} (a checkout of the project). Do not read or write anything under /verif or /repo. Python to use: /venv/bin/python. IMPORTANT: `flumine` is also installed from another directory; run pytest as `cd {wt} && /venv/bin/python -m pytest ...` (this imports the worktree copy).

Here is a semantic property that the framework satisfies today and must CONTINUE to satisfy:

ID: {id} — {title}
STATEMENT: {statement}
QUANTIFIED OVER: {qtext}
CODE THE PROPERTY IS ANCHORED IN: {files}
MECHANISMS: {mech}

YOUR TASK: implement THREE independent, small, realistic ENHANCEMENTS (A, B, C) in or right next to the code that implements this property — the kind of change that appears in this project's history all the time — such that each one, applied alone, leaves the property above fully intact (it must still hold for every input, history, schedule and fault) and keeps all existing behaviour that anything could rely on, except for the new feature itself when it is switched on / used. Each enhancement should be 8-40 changed lines and should touch the functions that make the property true (not only docs or unrelated files). {extra}Use different kinds for A, B and C, for example:
  - a new keyword argument / config option whose default keeps today's behaviour (and whose non-default value does not break the property either);
  - an extra field in an `info` dict / log record / event payload; an extra log line or metric counter; a new read-only property or query method on an existing class;
  - an additional sanity check that raises or logs for inputs that were already invalid; a clearer error message; a deprecation warning;
  - a new hook / callback the framework calls at an existing point (default implementation does nothing); a new event type emitted to the logging queue;
  - a small performance improvement that provably does not change results (e.g. skip work when a list is empty);
  - support for an additional, previously rejected-or-ignored input in a way that is consistent with the property (say why).
RULES: keep the names and signatures of all existing classes, methods, functions, properties and attributes working (new optional parameters at the end are fine). Do not weaken or bypass anything the property depends on. If you are not sure an enhancement keeps the property for ALL cases, choose another one. For EACH enhancement the package must import and the existing test-suite must pass exactly as before: run `cd {wt} && /venv/bin/python -m pytest -q -p no:cacheprovider --timeout=900 2>&1 | tail -5` — the baseline is "5 failed, 976 passed" (the 5 failures are pre-existing network/json tests: test_event_processing, test_simulation_multi_clients, test_simulation_pro, test_get_file_event_id, test_get_file_event_id_tuple); with your enhancement it must be the same 976 passed and the same 5 failed.

DELIVERABLES (write them into {wt}/seeds/ , create that directory):
  seeds/A.diff, seeds/B.diff, seeds/C.diff — produced with `git -C {wt} diff > seeds/A.diff` (each relative to the unchanged checkout, each containing ONLY its own change to files under flumine/)
  seeds/A.md, seeds/B.md, seeds/C.md — 5-10 lines each: what the enhancement is, which function(s) it touches, and a short argument why the property still holds in every case (including when the new option is used), plus the test-suite tail you observed with it applied.
When you are finished, restore the worktree's tracked files (`git -C {wt} checkout -- .`) so that only the untracked seeds/ directory remains. Verify each diff applies cleanly on the restored tree with `git -C {wt} apply --check seeds/A.diff`.

In your final message, summarise the three enhancements in two lines each. Do not commit anything. Never use `git stash` (the stash is shared between worktrees); to switch between patched and unpatched use `git diff > file`, `git checkout -- .` and `git apply file`.
'''
os.makedirs('/tmp/seedprompts', exist_ok=True)
for pid in sys.argv[1:]:
    p = props[pid]
    wt = '/tmp/wt/' + PREFIX + pid.lower()
    open('/tmp/seedprompts/%s%s.txt' % (PREFIX, pid), 'w').write(T.format(
        wt=wt, extra=EXTRA, id=pid, title=p['title'], statement=p['statement'], qtext=p['quantifier']['text'],
        files=', '.join(p['anchors']['files']),
        mech='; '.join('%s (%s)' % (m['name'], m['where']) for m in p['anchors']['mechanism'])))
    print('wrote', pid)
