#!/usr/bin/env python3
"""(re)generate sa/locals_ref.json from the current /repo tree (run when the rules are re-based on a new tree)"""
import json, os, sys
VERIF = os.path.dirname(os.path.dirname(os.path.abspath(__file__)))
sys.path.insert(0, VERIF)
from sa import alpha
ref = alpha.build_reference(os.environ.get("VERIF_REPO", "/repo"))
with open(alpha.REF_FILE, "w") as fh:
    json.dump(ref, fh, indent=0, sort_keys=True)
from sa import normalise
fref = normalise.build_function_reference(os.environ.get("VERIF_REPO", "/repo"))
with open(normalise.FUNC_REF_FILE, "w") as fh:
    json.dump(fref, fh, indent=0)
print("functions:", len(fref))
cref = normalise.build_constant_reference(os.environ.get("VERIF_REPO", "/repo"))
with open(normalise.CONST_REF_FILE, "w") as fh:
    json.dump(cref, fh, indent=0, sort_keys=True)
print("module constants:", sum(len(v) for v in cref.values()))
print("functions with locals:", len(ref), "locals:", sum(len(v) for v in ref.values()))
