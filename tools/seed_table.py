#!/usr/bin/env python3
"""Print the DESIGN.md section-10 table (markdown) from seeded/*/meta.json as last written by seed_rerun.py."""
import glob, json, os
VERIF = os.path.dirname(os.path.dirname(os.path.abspath(__file__)))
print("| seeded change | property | reported by | rules |")
print("|---|---|---|---|")
for d in sorted(glob.glob(os.path.join(VERIF, "seeded", "*"))):
    mp = os.path.join(d, "meta.json")
    if not os.path.exists(mp):
        continue
    m = json.load(open(mp))
    rules = ", ".join(r.replace(" rule ", "-") for r in m.get("rules", []))
    print("| `%s` | %s | %s | %s |" % (os.path.basename(d), m.get("property", "?"), ", ".join(m.get("detected_by", [])) or "**none**", rules))
